#!/usr/bin/env python3
"""Apply every behaviour-preserving rewrite under /verif/harmless to /repo in turn, run every
(or the given) property's quick check, undo the change.  Expectation: no check alarms.  An alarm
here is a false alarm of the machinery (DESIGN.md 0.5) — fix the translator, not the check."""
import json, os, subprocess, sys, glob, re, shutil

ROOT = os.path.dirname(os.path.dirname(os.path.abspath(__file__)))
args = sys.argv[1:]
seeds = [a for a in args if a.startswith("H")]
pids = [a for a in args if a.startswith("C")] or json.load(open(os.path.join(ROOT, "MANIFEST.json")))["checks"].keys() \
    if False else ([a for a in args if a.startswith("C")] or [f"C{i:02d}" for i in range(1, 20)])
res = {}
evdir = os.path.join(ROOT, "evidence")
bak = "/tmp/harmless_evidence_bak"
shutil.rmtree(bak, ignore_errors=True)
shutil.copytree(evdir, bak)
try:
    for d in sorted(glob.glob(os.path.join(ROOT, "harmless", "H*")), key=lambda x: int(os.path.basename(x)[1:])):
        name = os.path.basename(d)
        if seeds and name not in seeds:
            continue
        if subprocess.run(["git", "-C", "/repo", "status", "--porcelain"], capture_output=True, text=True).stdout.strip():
            sys.exit("/repo is not clean")
        r = subprocess.run(["git", "-C", "/repo", "apply", os.path.join(d, "patch.diff")])
        if r.returncode != 0:
            print(name, "patch does not apply")
            continue
        row = {}
        try:
            for pid in pids:
                o = subprocess.run([os.path.join(ROOT, "check"), pid], capture_output=True, text=True, cwd=ROOT)
                last = [l for l in o.stdout.splitlines() if l.startswith(("OK", "VIOLATION"))]
                row[pid] = "ok" if (o.returncode == 0 and last and last[-1].startswith("OK")) else (last[-1] if last else "error")[:200]
                if row[pid] != "ok":
                    err = [l for l in o.stderr.splitlines() if l.strip()][-4:]
                    print("  ", name, pid, row[pid], "|", " / ".join(err)[:600], flush=True)
        finally:
            subprocess.run(["git", "-C", "/repo", "checkout", "--", "."])
            subprocess.run(["git", "-C", "/repo", "clean", "-fdq"])        # files a patch added
        res[name] = row
        print(name, "alarms:", [p for p, v in row.items() if v != "ok"], flush=True)
finally:
    shutil.rmtree(evdir)
    shutil.copytree(bak, evdir)
    shutil.rmtree(bak, ignore_errors=True)
    subprocess.run(["python3", os.path.join(ROOT, "tools", "prepare.py")], capture_output=True)
json.dump(res, open(os.path.join(ROOT, "harmless", "RESULT.json" if not args else "RESULT.partial.json"), "w"), indent=1)
