#!/bin/sh
# verify_seed.sh <dir with patch.diff demo.rs meta.json>  — confirm a seeded change in a scratch worktree:
# builds (default + all wire features), existing tests pass, demo fails with it and passes without it.
set -u
D="$1"
WT=/tmp/wt-verify-$$
export CARGO_NET_OFFLINE=true
git clone -q /repo "$WT" >/dev/null 2>&1 || { echo "clone failed"; exit 2; }
cleanup() { rm -rf "$WT"; }
trap cleanup EXIT
cd "$WT"
FEAT=$(grep 'cargo test' "$D/demo.rs" | grep -e '--test demo' | grep -o '\-\-features [a-z,-]*' | head -1)
git apply "$D/patch.diff" || { echo "RESULT patch-does-not-apply"; exit 1; }
cargo build --offline >/dev/null 2>&1 || { echo "RESULT build-default-fails"; exit 1; }
cargo build --offline --features get-info-full,large-blobs,third-party-payment >/dev/null 2>&1 || { echo "RESULT build-allfeatures-fails"; exit 1; }
if grep -q "src/arbitrary.rs" "$D/patch.diff"; then
  cargo build --offline --features arbitrary >/dev/null 2>&1 || { echo "RESULT build-arbitrary-fails"; exit 1; }
fi
T=$(cargo test --workspace --no-fail-fast --offline 2>&1 | grep "test result" | awk '{p+=$4; f+=$6} END {print p" "f}')
[ "$T" = "36 0" ] || { echo "RESULT existing-tests: passed/failed = $T"; exit 1; }
cp "$D/demo.rs" tests/demo.rs
cargo test --offline --test demo $FEAT >/tmp/demo_with_$$.log 2>&1
W=$?
git checkout -- . 
cargo test --offline --test demo $FEAT >/tmp/demo_without_$$.log 2>&1
WO=$?
rm -f tests/demo.rs
if [ $W -ne 0 ] && [ $WO -eq 0 ]; then echo "RESULT ok (demo fails with change, passes without) feat='$FEAT'"; rm -f /tmp/demo_with_$$.log /tmp/demo_without_$$.log; exit 0; fi
echo "RESULT demo-mismatch with=$W without=$WO (logs /tmp/demo_with_$$.log /tmp/demo_without_$$.log)"
exit 1
