#!/usr/bin/env python3
"""write /verif/MANIFEST.json from tools/props.py (claimed checks) + the fixed per-property texts"""
import json
import os
import sys

ROOT = os.path.dirname(os.path.dirname(os.path.abspath(__file__)))
sys.path.insert(0, os.path.join(ROOT, "tools"))
import props  # noqa: E402

ALL = [f"C{i:02d}" for i in range(1, 20)]
TB = ("Trusted: Lean 4.33.0 kernel; axioms propext / Quot.sound / Classical.choice only (audited per theorem on every run, "
      "no native_decide, no sorry, no own axioms); hand-written Spec/ tables. The tie to /repo is 'regenerated + differential': "
      "schema data and tables are re-extracted from the working tree on every run (translator untrusted, exercised by the "
      "correspondence check), dependencies (cbor-smol, serde-indexed, serde_derive, heapless, cosey, iso7816) and the hand "
      "models are modelled, not verified, and validated only on the inputs the correspondence check generates.")
TECH = {
    "C01": "Lean 4 proof: mutual induction over a schema universe (round trip, any-order map loop) + decide obligations on request schemas regenerated from source; differential correspondence",
    "C02": "Lean 4 proof: serializer = encoding of a declarative item (E1, mutual induction), null-freedom, framing; decide obligations on regenerated response schemas; differential correspondence",
    "C03": "Lean 4 proof: pairwise-sorted declarations imply strictly increasing keys at every depth (G-CANON), key order = CTAP2 order of encoded bytes (G-ORDER); decide obligations; byte-level canonical checker on real output",
    "C04": "Lean 4 proof (partial): total decoder model, panic/UB outcome unreachable by mutual induction (G-TOTAL); exhaustive short-input digests, mutation/nesting sweeps, debug-assertion builds, Miri (thorough)",
    "C05": "Lean 4 proof: fault lemmas map each defect class to its status code over regenerated error tables; differential correspondence at every fault position",
    "C06": "Lean 4 proof: skipper consumes exactly one item of an item universe (induction), unknown text keys skipped at every host; differential correspondence",
    "C07": "Lean 4 proof: serializer bodies translated statement-by-statement to layout lists (obligation = specified layout), interpreter = model, layout theorem by case analysis + omega; differential correspondence",
    "C08": "Lean 4 proof: decision-list theorems over a hand model of the U2F APDU parser + regenerated control-byte tables, parser body translated as a program (interpreter = model); differential correspondence incl. exhaustive headers, the P1 x P2 grid and 39 capacities of the owned command buffer",
    "C09": "Lean 4 proof: response arms translated to layout lists (obligation = U2F raw format), append-chain theorems; differential correspondence over capacities",
    "C10": "Lean 4 proof: dispatch arms regenerated as tables, lookup theorem + default-method and Rpc-delegation obligations; differential correspondence with a recording mock (handler results and statuses compared as values, overriding authenticators)",
    "C11": "Lean 4 proof: kernel-evaluated (decide +kernel) obligations over all 256 command bytes on regenerated tables, lifted to every payload; differential correspondence",
    "C12": "Lean 4 proof: exact-capacity theorems per leaf and list (G-CAP) over regenerated capacities; differential correspondence at every limit +-1",
    "C13": "Lean 4 proof: UTF-8 scalar structure, 3-byte look-back always finds a boundary, truncation = longest whole-character prefix, message-level G-PREFIX (entity / request with a long name decodes as with the name cut beforehand); window regenerated; differential correspondence; Miri (thorough)",
    "C14": "Lean 4 proof: filter folds (order, capacity, unknown flag) by list induction over regenerated tables, every entry examined wherever it stands (fault at any position is an error); loop-shape recognition in the translator; differential correspondence",
    "C15": "Lean 4 proof: decode(encode v) = v and encode(decode b) = b by mutual induction under decidable well-formedness of regenerated schemas; differential correspondence",
    "C16": "Lean 4 proof: schema-extension relation implies identical bytes / embedded values (G-EXT, mutual induction); decide obligations for all 27 ordered configuration pairs; cross-configuration correspondence",
    "C17": "Lean 4 proof: framing theorem (fits completely or one error byte, prior content irrelevant) over regenerated response switch; differential correspondence around every capacity",
    "C18": "Lean 4 proof: table theorems (distinct entries => exactly the listed spellings / discriminants) + decide obligations on regenerated identifier tables; differential correspondence with edits",
    "C19": "Lean 4 proof (partial): model of the arbitrary-feature helpers, unwrap / from_utf8_unchecked outcomes unreachable (G-ARB); helper shapes and draw lists regenerated; validity oracle on real generators; Miri (thorough)",
}
checks = []
for pid in ALL:
    if pid not in props.PROPS:
        continue
    p = props.PROPS[pid]
    checks.append({
        "property_id": pid,
        "quick_cmd": f"./check {pid} --tier quick",
        "thorough_cmd": f"./check {pid} --tier thorough",
        "evidence_file": f"/verif/evidence/{pid}.json",
        "replay_cmd_template": f"./check {pid} --replay {{path}}",
        "engine": "lean4+diff",
        "level_claimed": {"category": "proof", "text": p["level_text"], "design_ref": f"DESIGN.md §5 {pid}"},
        "level_note": TB + (" " + p["level_note"] if p.get("level_note") else ""),
        "technique": TECH.get(pid, "Lean 4 theorem over regenerated model data + differential correspondence"),
    })
na = [{"property_id": pid, "reason": props.NOT_YET.get(pid, "not yet built in this session; no check registered")}
      for pid in ALL if pid not in props.PROPS]
manifest = {
    "version": 1,
    "setup_cmd": "./setup.sh",
    "hooks": {"guard": "ctap_types_verif", "enable": "none needed: the harness uses the public API only",
              "baseline_off_cmd": "cd /repo && cargo test --workspace --no-fail-fast --offline",
              "source_commits": [], "add_only": True},
    "engines": [{"name": "lean4+diff", "path": "/verif/check", "serves_properties": [c["property_id"] for c in checks],
                 "kind_free_text": "Lean 4 proofs over a model whose data is regenerated from /repo by a syn-based translator; "
                                   "Rust harness + Lean driver differential correspondence; Spec-side oracle for failing-input search"}],
    "checks": checks,
    "not_applicable": na,
    "notes": "See DESIGN.md. Genuine defects found and repaired are listed in known_findings.json ('fixed').",
}
with open(os.path.join(ROOT, "MANIFEST.json"), "w") as f:
    json.dump(manifest, f, indent=1)
print("claimed:", [c["property_id"] for c in checks])
