#!/usr/bin/env python3
"""write /verif/MANIFEST.json from tools/props.py (claimed checks) + the fixed per-property texts"""
import json
import os
import sys

ROOT = os.path.dirname(os.path.dirname(os.path.abspath(__file__)))
sys.path.insert(0, os.path.join(ROOT, "tools"))
import props  # noqa: E402

ALL = [f"C{i:02d}" for i in range(1, 20)]
TB = ("Trusted: Lean 4.33.0 kernel; axioms propext / Quot.sound / Classical.choice only (audited per theorem on every run, "
      "no native_decide, no sorry, no own axioms); hand-written Spec/ tables. The tie to /repo is 'regenerated + differential': "
      "schema data and tables are re-extracted from the working tree on every run (translator untrusted, exercised by the "
      "correspondence check), dependencies (cbor-smol, serde-indexed, serde_derive, heapless, cosey, iso7816) and the hand "
      "models are modelled, not verified, and validated only on the inputs the correspondence check generates.")
checks = []
for pid in ALL:
    if pid not in props.PROPS:
        continue
    p = props.PROPS[pid]
    checks.append({
        "property_id": pid,
        "quick_cmd": f"./check {pid} --tier quick",
        "thorough_cmd": f"./check {pid} --tier thorough",
        "evidence_file": f"/verif/evidence/{pid}.json",
        "replay_cmd_template": f"./check {pid} --replay {{path}}",
        "engine": "lean4+diff",
        "level_claimed": {"category": "proof", "text": p["level_text"], "design_ref": f"DESIGN.md §5 {pid}"},
        "level_note": TB + (" " + p["level_note"] if p.get("level_note") else ""),
        "technique": p.get("technique", "Lean 4 theorem over regenerated model data + differential correspondence"),
    })
na = [{"property_id": pid, "reason": props.NOT_YET.get(pid, "not yet built in this session; no check registered")}
      for pid in ALL if pid not in props.PROPS]
manifest = {
    "version": 1,
    "setup_cmd": "./setup.sh",
    "hooks": {"guard": "ctap_types_verif", "enable": "none needed: the harness uses the public API only",
              "baseline_off_cmd": "cd /repo && cargo test --workspace --no-fail-fast --offline",
              "source_commits": [], "add_only": True},
    "engines": [{"name": "lean4+diff", "path": "/verif/check", "serves_properties": [c["property_id"] for c in checks],
                 "kind_free_text": "Lean 4 proofs over a model whose data is regenerated from /repo by a syn-based translator; "
                                   "Rust harness + Lean driver differential correspondence; Spec-side oracle for failing-input search"}],
    "checks": checks,
    "not_applicable": na,
    "notes": "See DESIGN.md. Genuine defects found and repaired are listed in known_findings.json ('fixed').",
}
with open(os.path.join(ROOT, "MANIFEST.json"), "w") as f:
    json.dump(manifest, f, indent=1)
print("claimed:", [c["property_id"] for c in checks])
