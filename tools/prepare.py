#!/usr/bin/env python3
"""regenerate Gen/*.lean and the harness glue from /repo, then warm the two default harness builds"""
import importlib.machinery
import importlib.util
import os
import sys

ROOT = os.path.dirname(os.path.dirname(os.path.abspath(__file__)))
sys.path.insert(0, os.path.join(ROOT, "tools"))
loader = importlib.machinery.SourceFileLoader("check", os.path.join(ROOT, "check"))
spec = importlib.util.spec_from_loader("check", loader)
check = importlib.util.module_from_spec(spec)
loader.exec_module(check)

pl = check.Pipeline()
ok = pl.regenerate()
print("regenerate:", ok, pl.problems)
if ok:
    for cfg in ("000", "111"):
        print("harness", cfg, pl.build_harness(cfg))
