#!/usr/bin/env python3
"""Python-side values, text syntax, reference CBOR encoder and small helpers shared by the
glue generator and the case generators.  Values:
  ('n', int) ('i', int) ('b', bool) ('u',) ('x', bytes) ('s', bytes) ('l', [v]) ('r', [v|None]) ('v', idx, v)
"""


def show(v):
    k = v[0]
    if k == 'n':
        return f"n{v[1]}"
    if k == 'i':
        return f"i{v[1]}"
    if k == 'b':
        return "bT" if v[1] else "bF"
    if k == 'u':
        return "u"
    if k == 'x':
        return "x" + v[1].hex()
    if k == 's':
        return "s" + v[1].hex()
    if k == 'l':
        return "[" + ",".join(show(x) for x in v[1]) + "]"
    if k == 'r':
        return "{" + ",".join("_" if x is None else show(x) for x in v[1]) + "}"
    if k == 'v':
        return f"<{v[1]}:{show(v[2])}>"
    raise ValueError(v)


def parse(s):
    v, p = _parse(s, 0)
    if p != len(s):
        raise ValueError("trailing: " + s[p:])
    return v


def _digits(s, p):
    q = p
    while q < len(s) and s[q].isdigit():
        q += 1
    return s[p:q], q


def _hexs(s, p):
    q = p
    while q < len(s) and s[q] in "0123456789abcdef":
        q += 1
    return s[p:q], q


def _parse(s, p):
    c = s[p]
    p += 1
    if c == 'n':
        d, p = _digits(s, p)
        return ('n', int(d)), p
    if c == 'i':
        neg = s[p] == '-'
        if neg:
            p += 1
        d, p = _digits(s, p)
        return ('i', -int(d) if neg else int(d)), p
    if c == 'b':
        return ('b', s[p] == 'T'), p + 1
    if c == 'u':
        return ('u',), p
    if c == 'x':
        h, p = _hexs(s, p)
        return ('x', bytes.fromhex(h)), p
    if c == 's':
        h, p = _hexs(s, p)
        return ('s', bytes.fromhex(h)), p
    if c == '[':
        out = []
        if s[p] == ']':
            return ('l', out), p + 1
        while True:
            v, p = _parse(s, p)
            out.append(v)
            if s[p] == ']':
                return ('l', out), p + 1
            assert s[p] == ','
            p += 1
    if c == '{':
        out = []
        if s[p] == '}':
            return ('r', out), p + 1
        while True:
            if s[p] == '_':
                out.append(None)
                p += 1
            else:
                v, p = _parse(s, p)
                out.append(v)
            if s[p] == '}':
                return ('r', out), p + 1
            assert s[p] == ','
            p += 1
    if c == '<':
        d, p = _digits(s, p)
        assert s[p] == ':'
        v, p = _parse(s, p + 1)
        assert s[p] == '>'
        return ('v', int(d), v), p + 1
    raise ValueError(f"bad value syntax at {p}: {s}")


# ----------------------------------------------------------------------------- reference CBOR
def head(major, n):
    m = major << 5
    if n < 24:
        return bytes([m | n])
    if n < 0x100:
        return bytes([m | 24, n])
    if n < 0x10000:
        return bytes([m | 25]) + n.to_bytes(2, 'big')
    if n < 0x100000000:
        return bytes([m | 26]) + n.to_bytes(4, 'big')
    return bytes([m | 27]) + n.to_bytes(8, 'big')


def cint(i):
    return head(0, i) if i >= 0 else head(1, -1 - i)


def cbytes(b):
    return head(2, len(b)) + b


def ctext(b):
    if isinstance(b, str):
        b = b.encode()
    return head(3, len(b)) + b


COSE_CONSTS = {0: (2, -7, 1), 1: (2, -25, 1), 2: (1, -8, 6), 3: (4, -9, None)}


def ccose(kind, x, y):
    kty, alg, crv = COSE_CONSTS[kind]
    ents = [(1, cint(kty)), (3, cint(alg))]
    if crv is not None:
        ents.append((-1, cint(crv)))
    if x is not None:
        ents.append((-2, cbytes(x)))
    if y is not None:
        ents.append((-3, cbytes(y)))
    return head(5, len(ents)) + b"".join(cint(k) + v for k, v in ents)


class Schema:
    """resolved view of one configuration's schema JSON"""

    def __init__(self, sj):
        self.cfg = sj["cfg"]
        self.types = sj["types"]
        self.roles = sj["roles"]

    def res(self, t):
        while "named" in t:
            t = self.types[t["named"]]
        return t

    def is_opt_field(self, struct, f):
        """is the Rust field an `Option<..>`?"""
        if f["mode"]["m"] != "plain":
            return True
        return "indexed" in struct and not f["required"]

    # reference encoder: what a canonical platform / the specification says the bytes are.
    # map entries are emitted in *canonical key order*, not declaration order.
    def ref_encode(self, t, v, canonical=True):
        t = self.res(t)
        if "leaf" in t:
            l = t["leaf"]
            if l == "uint":
                return head(0, v[1])
            if l == "i32":
                return cint(v[1])
            if l == "bool":
                return b"\xf5" if v[1] else b"\xf4"
            if l == "unit":
                return b"\xf6"
            if l in ("bytes", "byteArray"):
                return cbytes(v[1])
            if l == "str":
                return ctext(v[1])
            if l == "enumStr":
                return ctext(t["ser"][v[1]])
            if l == "enumRepr":
                return head(0, t["discs"][v[1]])
            if l == "coseEcdh":
                return ccose(1, v[1][0][1] if v[1][0] else None, v[1][1][1] if v[1][1] else None)
            if l == "cosePub":
                rec = v[2][1]
                return ccose(v[1], rec[0][1] if rec[0] else None, rec[1][1] if rec[1] else None)
            raise ValueError("ref_encode: leaf " + l)
        if "vec" in t:
            return head(4, len(v[1])) + b"".join(self.ref_encode(t["elem"], x, canonical) for x in v[1])
        if "filtered" in t:
            out = head(4, len(v[1]))
            for a in v[1]:
                out += self.ref_encode(t["elem"], ('r', [a, ('s', t["serLit"].encode())]), canonical)
            return out
        if "untagged" in t:
            return self.ref_encode(t["untagged"][v[1]]["ty"], v[2], canonical)
        ents = []
        for i, f in enumerate(t["fields"]):
            slot = v[1][i] if i < len(v[1]) else None
            if f["ser"] == "never":
                continue
            if slot is None:
                if f["ser"] == "skipNone":
                    continue
                val = b"\xf6"
            else:
                val = self.ref_encode(f["ty"], slot, canonical)
            key = head(0, t["indexed"] + i) if "indexed" in t else ctext(f["key"])
            ents.append((key, val))
        if canonical:
            ents.sort(key=lambda kv: (len(kv[0]), kv[0]))
        return head(5, len(ents)) + b"".join(k + x for k, x in ents)

    def min_value(self, t):
        """smallest well-typed value (required members only)"""
        t = self.res(t)
        if "leaf" in t:
            l = t["leaf"]
            if l == "uint":
                return ('n', 0)
            if l == "i32":
                return ('i', 0)
            if l == "bool":
                return ('b', False)
            if l in ("unit", "icon"):
                return ('u',)
            if l == "bytes":
                return ('x', b"")
            if l == "byteArray":
                return ('x', bytes(t["n"]))
            if l == "str":
                return ('s', b"")
            if l in ("enumStr", "enumRepr"):
                return ('n', 0)
            if l == "coseEcdh":
                return ('r', [('x', b""), ('x', b"")])
            if l == "cosePub":
                return ('v', 3, ('r', [None, None]))
            if l == "attFmtPref":
                return ('r', [('l', []), ('b', False)])
        if "vec" in t or "filtered" in t:
            return ('l', [])
        if "untagged" in t:
            return ('v', 0, self.min_value(t["untagged"][0]["ty"]))
        return ('r', [self.min_value(f["ty"]) if (f["required"] and not self.is_opt_field(t, f)) else None
                      for f in t["fields"]])
