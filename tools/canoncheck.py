#!/usr/bin/env python3
"""Independent byte-level checker for CTAP2 canonical CBOR (CTAP 2.1 §8): one item, definite
lengths, shortest-form heads, no tags / floats / undefined, map keys strictly increasing under
(major type, encoded length, bytewise).  Returns None when canonical, else a reason string."""


def _head(b, p):
    if p >= len(b):
        return None, "truncated"
    ib = b[p]
    major, ai = ib >> 5, ib & 31
    p += 1
    if ai < 24:
        return (major, ai, p), None
    if ai > 27:
        return None, f"additional info {ai} (indefinite/reserved) at {p - 1}"
    n = 1 << (ai - 24)
    if p + n > len(b):
        return None, "truncated argument"
    v = int.from_bytes(b[p:p + n], "big")
    lo = {1: 24, 2: 256, 4: 65536, 8: 1 << 32}[n]
    if major != 7 and v < lo:
        return None, f"non-minimal head at {p - 1}"
    return (major, v, p + n), None


def _item(b, p, depth=0):
    h, err = _head(b, p)
    if err:
        return None, err
    major, v, q = h
    if major in (0, 1):
        return q, None
    if major in (2, 3):
        if q + v > len(b):
            return None, "truncated string"
        return q + v, None
    if major == 4:
        for _ in range(v):
            q, err = _item(b, q, depth + 1)
            if err:
                return None, err
        return q, None
    if major == 5:
        prev = None
        for _ in range(v):
            k0 = q
            q, err = _item(b, q, depth + 1)
            if err:
                return None, err
            key = bytes(b[k0:q])
            rank = (key[0] >> 5, len(key), key)
            if prev is not None and not prev < rank:
                return None, f"map keys out of canonical order or duplicated at {k0}: {prev[2].hex()} !< {key.hex()}"
            prev = rank
            q, err = _item(b, q, depth + 1)
            if err:
                return None, err
        return q, None
    if major == 6:
        return None, f"tag at {p}"
    # major 7
    if b[p] in (0xf4, 0xf5, 0xf6):
        return p + 1, None
    return None, f"simple/float {b[p]:#x} at {p}"


def check(b):
    if len(b) == 0:
        return "empty"
    q, err = _item(b, 0)
    if err:
        return err
    if q != len(b):
        return f"{len(b) - q} trailing byte(s)"
    return None


if __name__ == "__main__":
    import sys
    print(check(bytes.fromhex(sys.argv[1])))
