#!/bin/sh
# seedtest.sh <seed dir> <PID> [tier] — apply a seeded change to /repo, run the check, undo it.
D="$(cd "$1" && pwd)"; PID="$2"; TIER="${3:-quick}"
cd /verif
cp evidence/$PID.json /tmp/seedtest_ev_$PID.json 2>/dev/null
git -C /repo apply "$D/patch.diff" || { echo "patch does not apply"; exit 2; }
./check "$PID" --tier "$TIER" 2>/tmp/seedtest_err.log | tail -5
RC=$?
git -C /repo checkout -- .
git -C /repo clean -fdq      # files a patch added (nothing else is untracked in /repo; build output is ignored)
[ -f /tmp/seedtest_ev_$PID.json ] && mv /tmp/seedtest_ev_$PID.json evidence/$PID.json   # evidence is only ever from the clean tree
python3 /verif/tools/prepare.py >/dev/null 2>&1   # regenerate Gen/ and glue for the clean tree
git -C /repo status --short | head -3
exit $RC
