#!/usr/bin/env python3
"""translate a source tree (default /repo) and report what the translator could not read and
whether the result equals the committed baseline — without touching /repo or the build"""
import glob, json, os, subprocess, sys
ROOT = os.path.dirname(os.path.dirname(os.path.abspath(__file__)))
sys.path.insert(0, os.path.join(ROOT, "tools"))
import gen
repo = sys.argv[1] if len(sys.argv) > 1 else "/repo"
exe = glob.glob(os.path.join(ROOT, "extract", "target", "*", "extract"))[0]
ast = json.loads(subprocess.run([exe, repo], capture_output=True, text=True).stdout)
base = json.load(open(os.path.join(ROOT, "tools", "baseline_schema.json")))
errs = {}
m = gen.Model(ast)
data = {"schemas": {}, "tables": m.tables(errs, base)}
for feats in gen.ALL_CFGS:
    data["schemas"][gen.cfg_id(feats)] = m.schema(feats, errs, base)
same_t = [k for k in data["tables"] if k not in ("fingerprints", "std_arbitrary_same") and
          json.dumps(data["tables"][k], sort_keys=True) != json.dumps(base["tables"].get(k), sort_keys=True)]
same_s = [(c, k) for c in data["schemas"] for k in data["schemas"][c]["types"]
          if json.dumps(data["schemas"][c]["types"][k], sort_keys=True) != json.dumps(base["schemas"][c]["types"].get(k), sort_keys=True)]
print("untranslatable:", json.dumps(errs, indent=1))
print("tables differing from baseline:", same_t)
print("types differing from baseline:", same_s[:10])
