#!/usr/bin/env python3
"""Per-property configuration of the check: Lean module, case generators, oracles."""
import json
import os
import subprocess
import sys

sys.path.insert(0, os.path.dirname(os.path.abspath(__file__)))
import casegen  # noqa: E402
from casegen import CaseGen, enc_item_ext  # noqa: E402
from pymodel import show  # noqa: E402

ROOT = os.path.dirname(os.path.dirname(os.path.abspath(__file__)))
DRIVER = os.path.join(ROOT, "lean", ".lake", "build", "bin", "driver")


class HarnessUnavailable(Exception):
    pass


class Case:
    """one correspondence case.  `hline` goes to the implementation harness, `lline` to the Lean
    driver (model and oracle); `oracle_applies` = the property's oracle has a verdict on it."""

    def __init__(self, kind, cfg, hline, lline=None, tag="", oracle_applies=True, impl=None, model=None,
                 oracle=None, feats=(), nontrivial=True):
        self.kind, self.cfg, self.hline, self.lline = kind, cfg, hline, lline or hline
        self.tag, self.oracle_applies = tag, oracle_applies
        self.impl, self.model, self.oracle = impl, model, oracle
        self.feats = tuple(feats)
        self.nontrivial = nontrivial

    def to_json(self):
        return {"kind": self.kind, "cfg": self.cfg, "hline": self.hline, "lline": self.lline, "tag": self.tag,
                "oracle_applies": self.oracle_applies, "impl": self.impl, "model": self.model,
                "oracle": self.oracle, "feats": list(self.feats)}


class Ctx:
    def __init__(self, pipeline, tier, seed, thash):
        self.pl, self.tier, self.seed, self.thash = pipeline, tier, seed, thash
        self.cfgs_used = set()
        self.data = pipeline.data

    def cfgs(self, quick=("000", "111")):
        return list(quick) if self.tier == "quick" else ["000", "001", "010", "011", "100", "101", "110", "111"]

    def gen(self, cfg, salt=0):
        return CaseGen(self.data["schemas"][cfg], (self.seed * 1000003 + int(cfg, 2) * 7919 + salt) & 0xFFFFFFFF)


def pipe(args, lines):
    p = subprocess.run(args, input="\n".join(lines) + "\n", stdout=subprocess.PIPE, stderr=subprocess.PIPE, text=True)
    out = p.stdout.split("\n")
    if out and out[-1] == "":
        out.pop()
    return p.returncode, out


def run_harness(exe, lines):
    if not lines:
        return []
    rc, out = pipe([exe], lines)
    if rc == 0 and len(out) == len(lines):
        return out
    if len(lines) == 1:
        return ["abort"]
    mid = len(lines) // 2
    return run_harness(exe, lines[:mid]) + run_harness(exe, lines[mid:])


def execute(ctx, cases, corr):
    """run every case on implementation, model and oracle; fill `corr`"""
    by = {}
    for c in cases:
        by.setdefault((c.cfg, c.feats), []).append(c)
    for (cfg, feats), cs in sorted(by.items()):
        exe = ctx.pl.build_harness(cfg, feats)
        if exe is None:
            raise HarnessUnavailable(f"harness for configuration {cfg} {feats} does not build")
        ctx.cfgs_used.add(cfg + ("+" + "+".join(feats) if feats else ""))
        outs = run_harness(exe, [c.hline for c in cs])
        for c, o in zip(cs, outs):
            c.impl = o
    llines = [c.lline for c in cases]
    rc, mout = pipe([DRIVER], llines)
    if rc != 0 or len(mout) != len(cases):
        raise HarnessUnavailable("Lean driver failed on the case stream")
    rc, oout = pipe([DRIVER, "--oracle"], llines)
    if rc != 0 or len(oout) != len(cases):
        raise HarnessUnavailable("Lean driver (oracle mode) failed on the case stream")
    seen = set()
    stats = corr["stats"]
    for c, m, o in zip(cases, mout, oout):
        c.model, c.oracle = m, o
        corr["evaluations"] += 1
        k = c.kind + ":" + (c.tag or "-")
        stats[k] = stats.get(k, 0) + 1
        oc = "outcome:" + c.impl.split(" ")[0] + (" " + c.impl.split(" ")[1] if c.impl.startswith("err") and " " in c.impl else "")
        stats[oc] = stats.get(oc, 0) + 1
        if c.nontrivial and not c.impl.startswith("bad-case") and c.hline not in seen:
            seen.add(c.hline)
        if c.impl.startswith("bad-case") or c.model.startswith("bad-case"):
            # a case the harness or driver could not even pose is a defect of the machinery
            corr["model_disagreements"].append(c)
            continue
        if c.impl != c.model:
            corr["model_disagreements"].append(c)
        if c.oracle_applies and c.impl != c.oracle:
            corr["oracle_failures"].append(c)
    corr["distinct_nontrivial"] += len(seen)
    step = max(1, len(cases) // 8)
    for c in cases[::step][:8]:
        corr["samples"].append({"case": c.hline[:300], "impl": (c.impl or "")[:200], "model": (c.model or "")[:200]})


def match_known(known, pid, case):
    for f in known.get("findings", []):
        if f["property"] != pid:
            continue
        if f.get("kind") and f["kind"] != case.kind:
            continue
        if f.get("cfg_mask") and not all(m == "?" or m == b for m, b in zip(f["cfg_mask"], case.cfg)):
            continue
        if f.get("line_regex"):
            import re
            if not re.search(f["line_regex"], case.hline):
                continue
        return f
    return None


# =============================================================================== C11
def cases_c11(ctx, boost):
    out = []
    g = ctx.gen("000")
    rng = g.rng
    # a valid ClientPin parameter map, a malformed one, random bytes
    payloads = ["-", "a201010201", "a2010102", "ff", "a0", rng.randbytes(8).hex(), rng.randbytes(40).hex()]
    if ctx.tier == "thorough":
        payloads += [rng.randbytes(n).hex() for n in (1, 2, 3, 5, 17, 64, 300)]
    for cfg in ctx.cfgs(("000",)):
        for b in range(256):
            out.append(Case("op", cfg, f"op {b}", tag="try_from/into"))
            out.append(Case("vop", cfg, f"vop {b}", tag="vendor try_from"))
            for p in payloads:
                hx = f"{b:02x}" + ("" if p == "-" else p)
                # parameter-bearing commands with arbitrary payloads are C01/C05 territory; C11's oracle
                # speaks about them only through the command classification, which `req` exercises anyway
                out.append(Case("req", cfg, f"req {cfg} {hx}", tag="byte+payload"))
    return out


# =============================================================================== C18
def str_variants(rng, s):
    """edits of a valid spelling: case changes, single-character edits, prefixes, extensions"""
    out = {s.upper(), s.lower(), s.swapcase(), s[:-1], s[1:], s + "a", s + "_", "x" + s, s + " ", " " + s, ""}
    for i in range(len(s)):
        out.add(s[:i] + s[i + 1:])
        out.add(s[:i] + ("X" if s[i] != "X" else "Y") + s[i + 1:])
        out.add(s[:i] + s[i].swapcase() + s[i + 1:])
    out.discard(s)
    return sorted(out)


def cases_c18(ctx, boost):
    from pymodel import ctext, head as chead
    out = []
    for cfg in ctx.cfgs(("000", "111")):
        g = ctx.gen(cfg)
        for path, key, t in g.all_refs():
            r = g.s.res(t)
            if r.get("leaf") == "enumStr":
                for i, sp in enumerate(r["ser"]):
                    out.append(Case("dec", cfg, f"dec {cfg} {key} {ctext(sp).hex()}", f"dec {cfg} {path} {ctext(sp).hex()}", tag="str valid"))
                    out.append(Case("enc", cfg, f"enc {cfg} {key} n{i}", f"enc {cfg} {path} n{i}", tag="str enc"))
                    for v in str_variants(g.rng, sp):
                        out.append(Case("dec", cfg, f"dec {cfg} {key} {ctext(v).hex()}", f"dec {cfg} {path} {ctext(v).hex()}", tag="str edit"))
                for _ in range(10 * boost):
                    v = casegen.rand_utf8(g.rng, g.rng.randint(0, 20))
                    out.append(Case("dec", cfg, f"dec {cfg} {key} {ctext(v).hex()}", f"dec {cfg} {path} {ctext(v).hex()}", tag="str random"))
                # a byte string with a valid spelling is not a text string
                out.append(Case("dec", cfg, f"dec {cfg} {key} {(chead(2, len(r['ser'][0])) + r['ser'][0].encode()).hex()}",
                                f"dec {cfg} {path} {(chead(2, len(r['ser'][0])) + r['ser'][0].encode()).hex()}", tag="str as bytes"))
            if r.get("leaf") == "enumRepr":
                nums = list(range(256)) + [256, 257, 0xFFFF, 0x10000, 0xFFFFFFFF, 0x100000000, 2 ** 64 - 1] + \
                       [0x100 + d for d in r["discs"]] + [0x10000 + d for d in r["discs"]]
                for n in nums:
                    hx = chead(0, n).hex()
                    out.append(Case("dec", cfg, f"dec {cfg} {key} {hx}", f"dec {cfg} {path} {hx}", tag="num"))
                for d in r["discs"]:   # non-minimal and negative renderings of listed numbers
                    for hx in (bytes([0x18, d]).hex() if d < 24 else bytes([0x19, 0, d]).hex(), chead(1, d).hex()):
                        out.append(Case("dec", cfg, f"dec {cfg} {key} {hx}", f"dec {cfg} {path} {hx}", tag="num odd"))
                for i in range(len(r["discs"])):
                    out.append(Case("enc", cfg, f"enc {cfg} {key} n{i}", f"enc {cfg} {path} n{i}", tag="num enc"))
    for name in ("status", "Permissions", "AuthenticatorDataFlags"):
        out.append(Case("tbl", "000", f"tbl {name}", tag="table"))
    for b in range(256):
        out.append(Case("cb", "000", f"cb {b}", tag="control byte"))
        out.append(Case("cpp", "000", f"cpp {b}", tag="cred protect"))
    return out


NOT_YET = {}

PROPS = {
    "C18": {"ns": "C18", "cases": cases_c18,
            "level_text": "Proof. Generic table theorems (G-TABLE: lookupStr_zip_range, indexOf_iff) show that a string / number "
                          "table with pairwise distinct entries accepts exactly the listed spellings / discriminants, for every "
                          "string and every unsigned integer below 2^64; per-run obligations (decide) show the tables regenerated "
                          "from the source equal the specification's (7 enumeration sites × 8 configurations, status codes, "
                          "permission and flag bits, control bytes, credential-protection bytes over all 256 values). "
                          "Correspondence: every spelling, every single-character edit / case change / prefix / extension, all 256 "
                          "byte values and threshold integers to 2^64-1 through the real decoder and TryFrom impls.",
            "rule": "every enumeration reachable from a request/response root × {valid spellings, edits, random texts, all "
                    "byte values + thresholds}; tables dumped from the built crate; distinct case lines",
            "assumptions": ["usize = 64 bit", "dependencies behave as modelled (DESIGN.md App. A)"]},
    "C11": {"ns": "C11", "cases": cases_c11,
            "level_text": "Proof. The byte↔operation tables and the operation switch are extracted from the source on every "
                          "run; 12 kernel-checked finite obligations (decide +kernel over all 256 bytes) establish that the "
                          "recognised set, names, round trip, vendor range and command classification equal the specification "
                          "table; 8 theorems lift that to every trailing payload (paramless / vendor / invalid / 0x41≡0x0A). "
                          "Correspondence: all 256 bytes × 7+ payloads through the real Request::deserialize, Operation and "
                          "VendorOperation conversions.",
            "rule": "all 256 command bytes × {Operation::try_from / into_u8, VendorOperation::try_from, "
                    "Request::deserialize with empty / valid / malformed / random payloads}; a case is "
                    "non-trivial when the harness could pose it; distinct = distinct case lines",
            "assumptions": ["usize = 64 bit", "dependencies behave as modelled (DESIGN.md App. A)"]},
}
