#!/usr/bin/env python3
"""Per-property configuration of the check: Lean module, case generators, oracles."""
import json
import os
import subprocess
import sys

sys.path.insert(0, os.path.dirname(os.path.abspath(__file__)))
import casegen  # noqa: E402
from casegen import CaseGen, enc_item_ext  # noqa: E402
from pymodel import show  # noqa: E402

ROOT = os.path.dirname(os.path.dirname(os.path.abspath(__file__)))
DRIVER = os.path.join(ROOT, "lean", ".lake", "build", "bin", "driver")


class HarnessUnavailable(Exception):
    pass


class Case:
    """one correspondence case.  `hline` goes to the implementation harness, `lline` to the Lean
    driver (model and oracle); `oracle_applies` = the property's oracle has a verdict on it."""

    def __init__(self, kind, cfg, hline, lline=None, tag="", oracle_applies=True, impl=None, model=None,
                 oracle=None, feats=(), nontrivial=True, oracle_prefix=False, expect_no_panic=False):
        self.oracle_prefix = oracle_prefix
        self.expect_no_panic = expect_no_panic
        self.kind, self.cfg, self.hline, self.lline = kind, cfg, hline, lline or hline
        self.tag, self.oracle_applies = tag, oracle_applies
        self.impl, self.model, self.oracle = impl, model, oracle
        self.feats = tuple(feats)
        self.nontrivial = nontrivial

    def to_json(self):
        return {"kind": self.kind, "cfg": self.cfg, "hline": self.hline, "lline": self.lline, "tag": self.tag,
                "oracle_applies": self.oracle_applies, "oracle_prefix": self.oracle_prefix,
                "expect_no_panic": self.expect_no_panic, "impl": self.impl, "model": self.model,
                "oracle": self.oracle, "feats": list(self.feats)}


class Ctx:
    def __init__(self, pipeline, tier, seed, thash):
        self.pl, self.tier, self.seed, self.thash = pipeline, tier, seed, thash
        self.cfgs_used = set()
        self.data = pipeline.data

    def cfgs(self, quick=("000", "111")):
        # thorough tier — and the search for a failing input once the proof / tie is broken (a defect may
        # live in a mixed configuration only): all eight
        if self.tier == "quick" and not getattr(self, "use_baseline", False):
            return list(quick)
        return ["000", "001", "010", "011", "100", "101", "110", "111"]

    def baseline(self):
        base = os.path.join(ROOT, "tools", "baseline_schema.json")
        if not hasattr(self, "_baseline"):
            self._baseline = json.load(open(base)) if os.path.exists(base) else None
        return self._baseline

    def matches_baseline(self, cfg):
        """is the regenerated schema of this configuration the pinned tree's?"""
        b = self.baseline()
        return b is not None and json.dumps(b["schemas"][cfg]["types"], sort_keys=True) == \
            json.dumps(self.data["schemas"][cfg]["types"], sort_keys=True)

    def gen(self, cfg, salt=0, actual=False):
        # when the proof / tie is broken we search for a failing input among the messages the
        # *specification* allows: generate from the pinned-tree baseline schema, not from the
        # (possibly changed) regenerated one
        data = self.data
        if getattr(self, "use_baseline", False) and not actual:
            base = os.path.join(ROOT, "tools", "baseline_schema.json")
            if os.path.exists(base):
                if not hasattr(self, "_baseline"):
                    self._baseline = json.load(open(base))
                data = self._baseline
        casegen.set_dictionary(self.data.get("tables", {}).get("dictionary"))
        return CaseGen(data["schemas"][cfg], (self.seed * 1000003 + int(cfg, 2) * 7919 + salt) & 0xFFFFFFFF)


def pipe(args, lines):
    p = subprocess.run(args, input="\n".join(lines) + "\n", stdout=subprocess.PIPE, stderr=subprocess.PIPE, text=True)
    out = p.stdout.split("\n")
    if out and out[-1] == "":
        out.pop()
    return p.returncode, out


def pipe_par(args, lines, nproc=16):
    """like pipe, but spread over processes when the stream contains expensive `sweep` lines"""
    heavy = sum(1 for l in lines if l.startswith("sweep"))
    if heavy < 2:
        return pipe(args, lines)
    from concurrent.futures import ThreadPoolExecutor
    idx_heavy = [i for i, l in enumerate(lines) if l.startswith("sweep")]
    idx_light = [i for i, l in enumerate(lines) if not l.startswith("sweep")]
    chunks = [idx_heavy[k::nproc] for k in range(nproc)]
    chunks = [c for c in chunks if c] + ([idx_light] if idx_light else [])
    out = [None] * len(lines)
    with ThreadPoolExecutor(max_workers=nproc + 1) as ex:
        res = list(ex.map(lambda c: pipe(args, [lines[i] for i in c]), chunks))
    for c, (rc, o) in zip(chunks, res):
        if rc != 0 or len(o) != len(c):
            return 1, []
        for i, x in zip(c, o):
            out[i] = x
    return 0, out


def run_harness_par(exe, lines):
    heavy = [i for i, l in enumerate(lines) if l.startswith("sweep")]
    if len(heavy) < 2:
        return run_harness(exe, lines)
    from concurrent.futures import ThreadPoolExecutor
    light = [i for i, l in enumerate(lines) if not l.startswith("sweep")]
    chunks = [c for c in (heavy[k::16] for k in range(16)) if c] + ([light] if light else [])
    out = [None] * len(lines)
    with ThreadPoolExecutor(max_workers=17) as ex:
        res = list(ex.map(lambda c: run_harness(exe, [lines[i] for i in c]), chunks))
    for c, o in zip(chunks, res):
        for i, x in zip(c, o):
            out[i] = x
    return out


def run_harness(exe, lines):
    if not lines:
        return []
    rc, out = pipe([exe], lines)
    if rc == 0 and len(out) == len(lines):
        return out
    if len(lines) == 1:
        return ["abort"]
    mid = len(lines) // 2
    return run_harness(exe, lines[:mid]) + run_harness(exe, lines[mid:])


def execute(ctx, cases, corr):
    """run every case on implementation, model and oracle; fill `corr`"""
    by = {}
    for c in cases:
        by.setdefault((c.cfg, c.feats), []).append(c)
    if len(by) > 2:
        # several configurations (thorough tier / search mode): build the harnesses side by side
        from concurrent.futures import ThreadPoolExecutor
        with ThreadPoolExecutor(max_workers=8) as ex:
            list(ex.map(lambda k: ctx.pl.build_harness(k[0], k[1]), sorted(by)))
    for (cfg, feats), cs in sorted(by.items()):
        exe = ctx.pl.build_harness(cfg, feats)
        if exe is None:
            raise HarnessUnavailable(f"harness for configuration {cfg} {feats} does not build")
        ctx.cfgs_used.add(cfg + ("+" + "+".join(feats) if feats else ""))
        outs = run_harness_par(exe, [c.hline for c in cs])
        for c, o in zip(cs, outs):
            if c.kind == "arb" and o.startswith("valid "):
                # whole-request generators: whether the bytes ran out is recorded, not compared
                k = "arb whole-request: " + o[6:]
                corr["stats"][k] = corr["stats"].get(k, 0) + 1
                o = "valid"
            c.impl = o
    llines = [c.lline for c in cases]
    rc, mout = pipe_par([DRIVER], llines)
    if rc != 0 or len(mout) != len(cases):
        raise HarnessUnavailable("Lean driver failed on the case stream")
    rc, oout = pipe_par([DRIVER, "--oracle"], llines)
    if rc != 0 or len(oout) != len(cases):
        raise HarnessUnavailable("Lean driver (oracle mode) failed on the case stream")
    seen = set()
    stats = corr["stats"]
    for c, m, o in zip(cases, mout, oout):
        c.model, c.oracle = m, o
        corr["evaluations"] += 1
        k = c.kind + ":" + (c.tag or "-")
        stats[k] = stats.get(k, 0) + 1
        w = c.impl.split(" ")
        oc = "outcome:" + (w[0] if w[0] in ("ok", "err", "panic", "abort", "bad-case", "-") else "bytes") + \
             (" " + w[1] if w[0] == "err" and len(w) > 1 else "")
        stats[oc] = stats.get(oc, 0) + 1
        if c.nontrivial and not c.impl.startswith("bad-case") and c.hline not in seen:
            seen.add(c.hline)
        if c.impl.startswith("bad-case") or c.model.startswith("bad-case"):
            # a case the harness or driver could not even pose is a defect of the machinery
            corr["model_disagreements"].append(c)
            continue
        if c.impl != c.model:
            corr["model_disagreements"].append(c)
        if c.expect_no_panic and (c.impl in ("panic", "abort") or c.impl.startswith(("nondeterministic", "invalid-utf8", "clone-differs", "err-", "take-rest:")) or
                                  (c.kind == "sweep" and " panic=0 " not in c.impl)):
            # the property itself (C04): whatever the model says, this outcome is a violation
            c.oracle = "returns Ok or Err (no panic / abort / hang), the same every time"
            corr["oracle_failures"].append(c)
            continue
        if c.oracle_applies and (not c.impl.startswith(c.oracle) if c.oracle_prefix else c.impl != c.oracle):
            corr["oracle_failures"].append(c)
        elif getattr(c, "check_canon", None) and c.impl not in ("err", "-") and not c.impl.startswith(("panic", "bad", "abort")):
            import canoncheck
            hx = c.impl.split(" ")[-1] if (c.check_canon == "last" or isinstance(c.check_canon, tuple)) else c.impl
            try:
                raw = bytes.fromhex(hx)
            except ValueError:
                raw = None
            if raw is not None:
                if c.check_canon == "resp":
                    raw = raw[1:]           # status byte, then the body (empty body = no item at all)
                elif isinstance(c.check_canon, tuple) and c.check_canon[0] == "adat":
                    raw = raw[c.check_canon[1]:]   # the extension map at the tail of authenticator data
                why = canoncheck.check(raw) if raw else None
                if why:
                    c.oracle = "not canonical: " + why
                    corr["oracle_failures"].append(c)
        elif getattr(c, "same_as", None) is not None and (c.same_as.impl or "bad-case").startswith("bad-case"):
            pass
        elif getattr(c, "same_fn", None) is not None and c.same_as.impl is not None and \
                c.same_fn(c.same_as.impl) is not None and c.impl != c.same_fn(c.same_as.impl):
            c.oracle = "across configurations: " + c.same_as.hline[:120] + " -> " + c.same_as.impl[:200] + \
                       " ; expected here " + c.same_fn(c.same_as.impl)[:200]
            corr["oracle_failures"].append(c)
        elif getattr(c, "same_fn", None) is None and getattr(c, "same_as", None) is not None and \
                c.same_as.impl is not None and c.impl != c.same_as.impl:
            # the property itself: this message must decode exactly like its companion
            c.oracle = "same as: " + c.same_as.hline[:120] + " -> " + c.same_as.impl[:200]
            corr["oracle_failures"].append(c)
    # a sweep whose digest differs (or that saw a panic) is narrowed down to single inputs
    bad_sweeps = [c for c in cases if c.kind == "sweep" and
                  (c in corr["model_disagreements"] or c in corr["oracle_failures"])]
    if bad_sweeps and not getattr(ctx, "_refining", 0) > 6:
        ctx._refining = getattr(ctx, "_refining", 0) + 1
        sub = []
        for c in bad_sweeps[:4]:
            _, cfg, pre, n = c.hline.split(" ")
            pre = "" if pre == "-" else pre
            n = int(n)
            for b in range(256):
                if n > 1:
                    sub.append(Case("sweep", cfg, f"sweep {cfg} {pre}{b:02x} {n - 1}", tag="refine", expect_no_panic=True))
                elif n == 1:
                    sub.append(Case("req", cfg, f"req {cfg} {pre}{b:02x}", tag="refined input", expect_no_panic=True))
        if sub:
            for c in bad_sweeps[:4]:
                for lst in (corr["model_disagreements"], corr["oracle_failures"]):
                    if c in lst and c.hline.split(" ")[3] != "0":
                        lst.remove(c)
            execute(ctx, sub, corr)
        ctx._refining -= 1
        return
    corr["distinct_nontrivial"] += len(seen)
    step = max(1, len(cases) // 8)
    for c in cases[::step][:8]:
        corr["samples"].append({"case": c.hline[:300], "impl": (c.impl or "")[:200], "model": (c.model or "")[:200]})


def run_miri(ctx, cases, corr, per_tag=12, limit=700):
    """thorough tier: replay a stratified sample of the cases under Miri (which traps undefined
    behaviour that does not crash natively); outcome must equal the native one"""
    import gen as _gen
    by = {}
    for c in cases:
        if c.kind not in ("req", "dec", "arb") or len(c.hline) > 6000 or c.impl is None:
            continue
        if any(f.startswith("@") or f in ("logging", "std") for f in c.feats):
            continue        # the extra build variants (profile, log lines, std) are replayed natively only
        by.setdefault((c.cfg, c.feats), {}).setdefault(c.tag, []).append(c)
    total = 0
    for (cfg, feats), tags in sorted(by.items()):
        if cfg not in ("000", "111"):
            continue
        sample = []
        for tag, cs in sorted(tags.items()):
            cs = sorted(cs, key=lambda c: len(c.hline))
            step = max(1, len(cs) // per_tag)
            sample += cs[::step][:per_tag]
        sample = sample[:limit]
        fl = [f for f, b in zip(_gen.WIRE_FEATURES, cfg) if b == "1"] + list(feats)
        cmd = ["cargo", "+nightly", "miri", "run", "--offline", "--target-dir", os.path.join(ROOT, "build", "target-miri")]
        if fl:
            cmd += ["--features", ",".join(fl)]
        env = dict(os.environ, CARGO_NET_OFFLINE="true", MIRIFLAGS="-Zmiri-disable-isolation")
        p = subprocess.run(cmd, cwd=os.path.join(ROOT, "harness"), input="\n".join(c.hline for c in sample) + "\n",
                           stdout=subprocess.PIPE, stderr=subprocess.PIPE, text=True, env=env)
        outs = p.stdout.split("\n")
        if outs and outs[-1] == "":
            outs.pop()
        total += len(outs)
        for c, o in zip(sample, outs):
            if c.kind == "arb" and o.startswith("valid "):
                o = "valid"             # same canonicalisation as the native run (execute)
            if o != c.impl:
                m = Case(c.kind, c.cfg, c.hline, c.lline, tag="miri: " + c.tag, impl=o, model=c.model, feats=c.feats)
                m.oracle = "same outcome as the native build: " + c.impl[:200]
                corr["oracle_failures"].append(m)
        if len(outs) < len(sample):
            c = sample[len(outs)]
            err = [l for l in p.stderr.splitlines() if "error" in l][:3]
            m = Case(c.kind, c.cfg, c.hline, c.lline, tag="miri: " + c.tag, impl="miri-abort", model=c.model, feats=c.feats)
            m.oracle = "no undefined behaviour; Miri: " + " | ".join(err)[:400]
            corr["oracle_failures"].append(m)
    corr["stats"]["miri:cases"] = total


ALL_PIDS = [f"C{i:02d}" for i in range(1, 20)]
# which properties do NOT depend on a group of translated tables (everything else does)
INDEPENDENT = {
    "arb": set(ALL_PIDS) - {"C19"},
    "dispatch": set(ALL_PIDS) - {"C10"},
    "op": {"C02", "C03", "C07", "C08", "C09", "C13", "C14", "C15", "C17", "C18", "C19"},
    "resp": {"C01", "C04", "C06", "C07", "C08", "C09", "C11", "C12", "C13", "C14", "C18", "C19"},
    "status": {"C07", "C08", "C09", "C13", "C14", "C19"},
    "bitflags": {"C01", "C04", "C05", "C06", "C08", "C09", "C10", "C11", "C12", "C13", "C14", "C17", "C19"},
    "consts": {"C19"},
    "fingerprints": set(),
    "gating": set(ALL_PIDS) - {"C16"},
    "layouts": set(ALL_PIDS) - {"C03", "C07", "C09"},
    "u2fprog": set(ALL_PIDS) - {"C08", "C10", "C18"},      # C18: where the control-byte table is applied (to P1 alone)
    "strhelpers": {"C07", "C08", "C09", "C10", "C11", "C17", "C18", "C19"},
    "arbtree": set(ALL_PIDS) - {"C19"},
}


def reachable_types(schema, prefixes):
    seen = set()

    def visit(t):
        if "named" in t:
            k = t["named"]
            if k in seen:
                return
            seen.add(k)
            t = schema["types"].get(k, {})
        if isinstance(t.get("elem"), dict):
            visit(t["elem"])
        elif isinstance(t.get("elem"), str):
            visit({"named": t["elem"]})
        for a in t.get("untagged", []):
            visit(a["ty"])
        for f in t.get("fields", []):
            visit(f["ty"])

    for role, key in schema["roles"].items():
        if role.startswith(prefixes):
            visit({"named": key})
    return seen


def relevant_errors(pid, errors, baseline):
    """the translation failures that leave *this* property undecided"""
    out = []
    for aspect, msg in sorted(errors.items()):
        if aspect == "*":
            out.append((aspect, msg))
        elif aspect.startswith("type:"):
            key = aspect[5:]
            if pid in ("C08", "C09", "C11", "C19"):
                continue
            if baseline is not None and pid in ("C01", "C05", "C06", "C10", "C12", "C13", "C14", "C02", "C17", "C07"):
                pre = {"C02": ("resp",), "C17": ("resp",), "C07": ("adExt",)}.get(pid, ("req",))
                if not any(key in reachable_types(sj, pre) for sj in baseline["schemas"].values()):
                    continue
            out.append((aspect, msg))
        elif pid not in INDEPENDENT.get(aspect, set()):
            out.append((aspect, msg))
    return out


def hard_errors(pid, rel, baseline):
    """translation failures that the correspondence check cannot stand in for.  C18 is a universally quantified
    negative over all strings / numbers ("every other string is rejected"): when the recognising table itself
    cannot be read from the source (say, a lookup through a hash of the string), sampling inputs says nothing
    about the sparse accepted set, so the property is no longer shown to hold and the check says so."""
    out = [(a, m) for a, m in rel if a == "cfgspace"]      # code under a `cfg` no check here can build (targets, ...)
    if pid in ("C14", "C01"):
        # likewise the predicate that decides which list entries are kept ("public-key" x known algorithms): a tag /
        # hash comparison accepts a sparse set of other type strings that no sampling finds
        out += [(a, m) for a, m in rel if "recognising predicate" in m]
    if pid != "C18":
        return out
    for aspect, msg in rel:
        if aspect in ("status", "bitflags", "*"):
            out.append((aspect, msg))
        elif aspect.startswith("type:") and baseline is not None:
            key = aspect[5:]
            for sj in baseline["schemas"].values():
                lf = sj["types"].get(key, {}).get("leaf")
                # numeric tables are read from the declaration; string tables from the recognising direction (`TryFrom<&str>`):
                # an unreadable *emitting* direction (`From<Enum> for &str` moved into a helper) is an ordinary tier-B case
                if lf == "enumRepr" or (lf == "enumStr" and "recognising table" in msg):
                    out.append((aspect, msg))
                    break
    return out


def match_known(known, pid, case):
    for f in known.get("findings", []):
        if f["property"] != pid:
            continue
        if f.get("kind") and f["kind"] != case.kind:
            continue
        if f.get("cfg_mask") and not all(m == "?" or m == b for m, b in zip(f["cfg_mask"], case.cfg)):
            continue
        if f.get("line_regex"):
            import re
            if not re.search(f["line_regex"], case.hline):
                continue
        return f
    return None


# =============================================================================== C11
def cases_c11(ctx, boost):
    out = []
    g = ctx.gen("000")
    rng = g.rng
    # a valid ClientPin parameter map, a malformed one, random bytes
    payloads = ["-", "a201010201", "a2010102", "ff", "a0", rng.randbytes(8).hex(), rng.randbytes(40).hex()]
    if ctx.tier == "thorough":
        payloads += [rng.randbytes(n).hex() for n in (1, 2, 3, 5, 17, 64, 300)]
    big = {n: rng.randbytes(n).hex() for n in (7607, 7608, 7609, 9000, 65534, 65535, 65536, 70000)}
    # deeply nested (but well-formed) payloads behind parameter-less commands: nothing there is to be looked at
    for depth in (16, 300, 2000, 7600):
        big[f"nest{depth}"] = (b"\x81" * depth + b"\x00").hex()
        big[f"mapnest{depth}"] = (b"\xa1\x00" * depth + b"\x00").hex()
    for cfg in ctx.cfgs(("000",)):
        for b in (0x04, 0x07, 0x08, 0x0B, 0x09, 0x0D, 0x40, 0x42, 0x7F, 0x00, 0x03, 0x80, 0xFF):
            for n, hxp in big.items():
                out.append(Case("req", cfg, f"req {cfg} {b:02x}{hxp}", tag=f"byte + {n} payload bytes", expect_no_panic=True))
                if str(n).startswith(("nest", "mapnest")) and b not in (0x09, 0x0D, 0x00, 0x03, 0x80, 0xFF):
                    # parameter-less commands: what follows is not looked at, so nesting depth cannot matter — also on a small stack
                    out.append(Case("reqs", cfg, f"reqs {cfg} {b:02x}{hxp}", tag=f"byte + {n} payload, small stack", expect_no_panic=True))
        for b in range(256):
            out.append(Case("op", cfg, f"op {b}", tag="try_from/into"))
            out.append(Case("vop", cfg, f"vop {b}", tag="vendor try_from"))
            for p in payloads:
                hx = f"{b:02x}" + ("" if p == "-" else p)
                # parameter-bearing commands with arbitrary payloads are C01/C05 territory; C11's oracle
                # speaks about them only through the command classification, which `req` exercises anyway
                out.append(Case("req", cfg, f"req {cfg} {hx}", tag="byte+payload"))
        cm = [f"a101{n:02x}" for n in range(0, 10)] + ["a2010402a101" + "5820" + "11" * 32, "a20106" + "02a102a2626964412a6474797065" + "6a7075626c69632d6b6579",
              "a3010703182a04" + "41aa", "a1011818", "a10161", "a0", "a10107ff", "a2010701"]
        for p in cm:
            a = Case("req", cfg, f"req {cfg} 0a{p}", tag="0x0A")
            b_ = Case("req", cfg, f"req {cfg} 41{p}", tag="0x41 decodes exactly like 0x0A")
            b_.same_as = a
            out += [a, b_]
    return out


# =============================================================================== C18
def str_variants(rng, s):
    """edits of a valid spelling: case changes, single-character edits, prefixes, extensions"""
    out = {s.upper(), s.lower(), s.swapcase(), s[:-1], s[1:], s + "a", s + "_", "x" + s, s + " ", " " + s, "",
           s + s, s + "\x00", s.capitalize(), s.title()}
    for k in range(1, len(s)):
        out.add(s[:k] + s)              # a prefix repeated in front (`trim_start_matches`-style slips)
        out.add(s + s[k:])              # a suffix repeated behind
        out.add(s[:k] + s[:k] + s[k:])
    for i in range(len(s)):
        out.add(s[:i] + s[i + 1:])
        out.add(s[:i] + ("X" if s[i] != "X" else "Y") + s[i + 1:])
        out.add(s[:i] + s[i].swapcase() + s[i + 1:])
    for d in casegen.DICT_STRINGS:      # a format character / boundary scalar / source literal in front or behind
        out.add(d + s)
        out.add(s + d)
    out.discard(s)
    return sorted(out)


def cases_c18(ctx, boost):
    from pymodel import ctext, head as chead
    out = []
    for cfg in ctx.cfgs(("000", "111")):
        g = ctx.gen(cfg)
        for path, key, t in g.all_refs():
            r = g.s.res(t)
            if r.get("leaf") == "enumStr":
                for i, sp in enumerate(r["ser"]):
                    out.append(Case("dec", cfg, f"dec {cfg} {key} {ctext(sp).hex()}", f"dec {cfg} {path} {ctext(sp).hex()}", tag="str valid"))
                    out.append(Case("enc", cfg, f"enc {cfg} {key} n{i}", f"enc {cfg} {path} n{i}", tag="str enc"))
                    for v in str_variants(g.rng, sp):
                        out.append(Case("dec", cfg, f"dec {cfg} {key} {ctext(v).hex()}", f"dec {cfg} {path} {ctext(v).hex()}", tag="str edit"))
                for _ in range(10 * boost):
                    v = casegen.rand_utf8(g.rng, g.rng.randint(0, 20))
                    out.append(Case("dec", cfg, f"dec {cfg} {key} {ctext(v).hex()}", f"dec {cfg} {path} {ctext(v).hex()}", tag="str random"))
                # a byte string with a valid spelling is not a text string
                out.append(Case("dec", cfg, f"dec {cfg} {key} {(chead(2, len(r['ser'][0])) + r['ser'][0].encode()).hex()}",
                                f"dec {cfg} {path} {(chead(2, len(r['ser'][0])) + r['ser'][0].encode()).hex()}", tag="str as bytes"))
            if r.get("leaf") == "enumRepr":
                nums = list(range(256)) + [256, 257, 0xFFFF, 0x10000, 0xFFFFFFFF, 0x100000000, 2 ** 64 - 1] + \
                    [d + k for d in r["discs"] for k in (256, 512, 65536, 2 ** 24, 2 ** 32, 2 ** 40)] + \
                       [0x100 + d for d in r["discs"]] + [0x10000 + d for d in r["discs"]]
                for n in nums:
                    hx = chead(0, n).hex()
                    out.append(Case("dec", cfg, f"dec {cfg} {key} {hx}", f"dec {cfg} {path} {hx}", tag="num"))
                for d in r["discs"]:   # non-minimal and negative renderings of listed numbers
                    for hx in (bytes([0x18, d]).hex() if d < 24 else bytes([0x19, 0, d]).hex(), chead(1, d).hex()):
                        out.append(Case("dec", cfg, f"dec {cfg} {key} {hx}", f"dec {cfg} {path} {hx}", tag="num odd"))
                for i in range(len(r["discs"])):
                    out.append(Case("enc", cfg, f"enc {cfg} {key} n{i}", f"enc {cfg} {path} n{i}", tag="num enc"))
    for name in ("status", "Permissions", "AuthenticatorDataFlags"):
        out.append(Case("tbl", "000", f"tbl {name}", tag="table"))
    for b in range(256):
        out.append(Case("cb", "000", f"cb {b}", tag="control byte"))
        out.append(Case("cpp", "000", f"cpp {b}", tag="cred protect"))
    # the control-byte table as the U2F parser applies it: to P1 alone, whatever P2 is
    auth = bytearray(b"\x11" * 65 + b"\x22" * 9); auth[64] = 9
    for p1 in range(256):
        for p2 in (0, 1, 2, 3, 4, 5, 7, 8, 0x0b, 0x10, 0x80, 0xff):
            if p1 > 16 and p2 not in (0, 1, 0xff) and p1 % 16:
                continue
            ap = bytes([0, 2, p1, p2, len(auth)]) + bytes(auth)
            out.append(Case("apdu", "000", f"apdu view {ap.hex()}", tag="control byte in an authenticate APDU (P1 x P2)"))
    return out


# =============================================================================== C17
HARNESS_CAPS = sorted(set(list(range(1, 41)) + [48, 62, 63, 64, 65, 66, 100, 126, 127, 128, 129, 130, 200, 254, 255, 256,
                                                257, 258, 300, 400, 510, 511, 512, 513, 514, 700, 1022, 1023, 1024, 1025,
                                                1026, 1500, 2046, 2047, 2048, 2049, 2050, 3070, 3071, 3072, 3073, 3074,
                                                4094, 4095, 4096, 4097, 4098, 4400, 7609, 8192,
                                                65534, 65535, 65536, 65537, 65600, 70000, 131072]))
HUGE_CAPS = [65534, 65535, 65536, 65537, 65600, 70000, 131072]


_DEFVALS = {}


def default_values(ctx, cfg):
    """the `Default::default()` value of every response kind that has one, asked from the real crate"""
    if cfg in _DEFVALS:
        return _DEFVALS[cfg]
    out = {}
    try:
        exe = ctx.pl.build_harness(cfg)
        names = [v for v, p_ in ctx.data["schemas"][cfg]["variants"]["response_variants"] if p_]
        if exe:
            from pymodel import parse
            for name, o in zip(names, run_harness(exe, [f"defval {n}" for n in names])):
                if o.startswith("ok "):
                    out[name] = parse(o[3:])
    except Exception:
        pass
    _DEFVALS[cfg] = out
    return out


def resp_values(g, variant, key, n, ctx=None):
    """interesting response values for a variant: minimal, random, and large ones"""
    t = {"named": key}
    vals = [g.s.min_value(t)]
    if ctx is not None and variant in default_values(ctx, g.cfg):
        vals.append(default_values(ctx, g.cfg)[variant])
    for _ in range(n):
        v = g.rand_val(t, p_opt=g.rng.choice([0.0, 0.3, 0.7, 1.0]))
        if g.val_buildable(t, v):
            vals.append(v)
    # the largest value of the kind: every member present, every bounded member at its capacity (sums of lengths)
    for _ in range(2):
        v = extreme_val(g, t, g.rand_val(t, p_opt=1.0), True)
        if g.val_buildable(t, v):
            vals.append(v)
    return vals


def cases_c17(ctx, boost):
    out = []
    for cfg in ctx.cfgs(("000", "111")):
        g = ctx.gen(cfg)
        rng = g.rng
        sj = ctx.data["schemas"][cfg]
        for variant, payload in sj["variants"]["response_variants"]:
            if payload is None:
                for cap in (1, 2, 3, 64, 7609) + tuple(HUGE_CAPS):
                    for prior in ("-", "ee" * min(cap, 5), "ee" * cap, "7fa0"[:2 * min(cap, 2)], ("00a0a0" if cap >= 3 else "a0")):
                        out.append(Case("resp", cfg, f"resp {cfg} {variant} - {cap} {prior}", tag="empty kind"))
                continue
            vals = resp_values(g, variant, payload, 6 * boost, ctx)
            if variant == "LargeBlobs":
                capn = g.s.res({"named": payload})["fields"][0]["ty"]["cap"]
                for L in sorted({min(capn, x) for x in (0, 1, 23, 24, 59, 250, 1019, 2042, capn)}):
                    vals.append(('r', [('x', rng.randbytes(L))]))
            for v in vals:
                body = g.s.ref_encode({"named": payload}, v, canonical=False)
                size = 1 + len(body)
                caps = {1, 2, 3, 64, 256, 1024, 3072, 7609}
                caps |= {c for c in HARNESS_CAPS if size - 2 <= c <= size + 2}
                if v is vals[0] or v is vals[-1]:
                    caps |= set(HUGE_CAPS)
                for cap in sorted(caps):
                    priors = ["-", ("ee" * (cap // 2)) or "-", "ee" * cap] if cap <= 300 else ["-", "ee" * cap]
                    if cap >= 2:
                        priors.insert(1, "7fa0" + "a0" * min(cap - 2, 3))
                    for prior in priors[: (3 if cap <= size + 2 else 1)]:
                        out.append(Case("resp", cfg, f"resp {cfg} {variant} {show(v)} {cap} {prior}",
                                        tag="window" if abs(cap - size) <= 2 else "fixed cap"))
    return out


# =============================================================================== C07
def extreme_val(g, t, v, full=True):
    """`v` with every bounded byte / text string at its capacity (or empty) and every list at its full length"""
    r = g.s.res(t)
    if v is None:
        return None
    if r.get("leaf") == "bytes" and r.get("cap") is not None:
        return ('x', g.rng.randbytes(r["cap"] if full else 0))
    if r.get("leaf") == "str" and r.get("cap") is not None:
        return ('s', b"m" * (r["cap"] if full else 0))
    if "vec" in r and v[0] == 'l':
        xs = [extreme_val(g, r["elem"], x, full) for x in v[1]]
        if full and xs:
            xs = [xs[i % len(xs)] for i in range(r["vec"])]
        return ('l', xs if full else [])
    if "fields" in r and v[0] == 'r':
        slots = []
        for f, x in zip(r["fields"], v[1]):
            if f["mode"]["m"] in ("trunc", "skipLong"):
                slots.append(x if x is None or x[0] != 's' else ('s', b"m" * (f["mode"]["cap"] if full else 0)))
            else:
                slots.append(extreme_val(g, f["ty"], x, full))
        return ('r', slots)
    if "untagged" in r and v[0] == 'v':
        # the alternative with the most in it
        i = len(r["untagged"]) - 1 if full else 0
        inner = g.rand_val(r["untagged"][i]["ty"], p_opt=1.0)
        return ('v', i, extreme_val(g, r["untagged"][i]["ty"], inner, full))
    return v


def cases_c07(ctx, boost):
    out = []
    for cfg in ctx.cfgs(("000", "111")):
        g = ctx.gen(cfg)
        rng = g.rng
        counters = [0, 1, 0xFF, 0x100, 0x01020304, 0xFFFFFFFF]

        def ext_vals(fl):
            t = {"named": g.s.roles["adExt" + fl]}
            n = len(g.s.res(t)["fields"])
            vals = ["-"]
            for m in range(1 << n):           # every subset of extension outputs
                v = g.rand_val(t, p_opt=1.0)
                slots = [s if (m >> i) & 1 else None for i, s in enumerate(v[1])]
                vals.append(show(('r', slots)))
                # ... with every output at its largest and at its smallest size
                for full in (True, False):
                    e = extreme_val(g, t, ('r', slots), full)
                    if g.val_buildable(t, e):
                        vals.append(show(e))
            return vals

        def line(fl, mask, count, acd, ext):
            rp = rng.randbytes(32).hex()
            return Case("adat", cfg, f"adat {cfg} {fl} {rp} {mask} {count} {acd} {ext}", tag=fl)

        for fl in ("MC", "GA"):
            exts = ext_vals(fl)
            for mask in range(16):
                out.append(line(fl, mask, rng.choice(counters), "-", rng.choice(exts)))
            for cnt in counters + [rng.randrange(2 ** 32) for _ in range(3)]:
                out.append(line(fl, rng.randrange(16), cnt, "-", rng.choice(exts)))
            for e in exts:
                out.append(line(fl, 0x0D, 7, "-" if fl == "GA" else f"{'11' * 16}:32:3:{'a5' * 77}", e))
            if fl == "GA":
                for e in exts[:3]:
                    out.append(line(fl, 5, 9, "none", e))
        # credential id lengths across the capacity threshold, for several key lengths, aaguid 0/16/17
        idlens = list(range(0, 701)) if ctx.tier == "thorough" else \
            sorted(set(list(range(0, 40, 7)) + list(range(536, 546)) + list(range(600, 640)) + [255, 256, 300, 676, 700]))
        for pklen in (0, 77, 256, 257, 300, 600):
            for aal in (0, 16, 17, 600, 637, 638, 639, 676, 700, 2000):
                for n in (idlens if aal <= 17 else [0, 1, 16, 40]):
                    if ctx.tier == "quick" and (aal != 16) and n % 5:
                        continue
                    acd = f"{('cc' * aal) or '-'}:{n}:{rng.randrange(256)}:{('a5' * pklen) or '-'}"
                    out.append(line("MC", 0x41, n, acd, "-" if n % 3 else show(('r', [None] * len(g.s.res({'named': g.s.roles['adExtMC']})['fields'])))))
        for n in (65535, 65536, 70000):
            out.append(line("MC", 0x41, 1, f"{'cc' * 16}:{n}:1:-", "-"))
    return out


# =============================================================================== C08 / C09
def build_apdu(cla, ins, p1, p2, data, le, extended):
    hdr = bytes([cla, ins, p1, p2])
    n = len(data)
    if not extended:
        body = (bytes([n]) + data) if n else b""
        if le is not None:
            body += bytes([le % 256])
        return hdr + body
    body = (b"\x00" + n.to_bytes(2, "big") + data) if n else b""
    if le is not None:
        body += (le % 65536).to_bytes(2, "big") if n else b"\x00" + (le % 65536).to_bytes(2, "big")
    return hdr + body


def cases_c08(ctx, boost):
    g = ctx.gen("000")
    rng = g.rng
    out = []
    named = [0x20, 0x24, 0x2c, 0x47, 0x87, 0xa4, 0xc0, 0xcb, 0xdb, 0xb0, 0xd0]

    def add(cla, ins, p1, data, le=None, ext=False, mode="view", tag=""):
        if not ext and len(data) > 255:
            ext = True
        b = build_apdu(cla, ins, p1, rng.randrange(256), data, le, ext)
        out.append(Case("apdu", "000", f"apdu {mode} {b.hex()}", tag=tag))

    def auth_data(k, delta=0):
        d = bytearray(rng.randbytes(65 + k + delta)) if 65 + k + delta >= 0 else bytearray()
        if len(d) > 64:
            d[64] = k
        return bytes(d)

    reg = rng.randbytes(64)
    p1s = [0, 1, 2, 3, 4, 6, 7, 8, 9, 0x0B, 0x80, 0xFF]
    inss = sorted(set([0, 1, 2, 3, 4, 5, 0x10, 0x7F, 0x80, 0xFE, 0xFF] + named))
    if ctx.tier == "thorough":
        inss = list(range(256))
        p1s = sorted(set(p1s + list(range(0, 256, 17))))
    # header space at a fixed data length (a valid authenticate body with a 3-byte key handle)
    body = auth_data(3)
    for cla in range(255):                     # 0xFF is not a class byte (iso7816 refuses it)
        for ins in inss:
            for p1 in (p1s if cla in (0, 1, 0x10, 0x80) or ctx.tier == "thorough" else [0, 3, 7]):
                add(cla, ins, p1, body, tag="header space")
    for ins in range(256):
        for p1 in p1s:
            add(0, ins, p1, body, tag="all instructions")
            add(0, ins, p1, reg, tag="all instructions")
    for p1 in range(256):
        add(0, 2, p1, body, tag="all p1")
    add(0xFF, 3, 0, b"", tag="class ff")
    # data lengths on every decision boundary × 4 encodings × both entry points
    lens = [0, 1, 31, 32, 33, 63, 64, 65, 66, 67, 128, 255, 256, 257, 319, 320, 321, 576, 577]
    for ins in (1, 2, 3):
        for n in lens:
            for le in (None, 0, 1, 256):
                for ext in (False, True):
                    for mode in ("view", "cmd"):
                        add(0, ins, 3, rng.randbytes(n), le, ext, mode, tag="length boundary")
    for k in (0, 1, 2, 63, 64, 127, 128, 254, 255):
        for delta in (-2, -1, 0, 1, 2, 255, 256, 257, 512):
            for le in (None, 256):
                for ext in (False, True):
                    for p1 in (3, 7, 8):
                        add(0, 2, p1, auth_data(k, delta), le, ext, tag="authenticate length")
    for _ in range(300 * boost):
        add(rng.choice([0, 0, 0, 1, 0x80]), rng.choice([1, 2, 3, 3, rng.randrange(256)]), rng.choice([3, 7, 8, rng.randrange(256)]),
            rng.randbytes(rng.choice([0, 64, 65, 66, rng.randrange(400)])), rng.choice([None, 0, 5]), rng.random() < 0.3, tag="random")
    # malformed framing
    for _ in range(100):
        out.append(Case("apdu", "000", f"apdu view {rng.randbytes(rng.randrange(0, 12)).hex() or '-'}", tag="raw bytes"))
    # P2 is ignored: every P2 with every small P1 (and every P1 with a few P2) on an authenticate and a register APDU
    authd = bytearray(b"\x33" * 65 + b"\x44" * 5); authd[64] = 5
    for p1 in range(256):
        for p2 in (range(256) if p1 < 16 else (0, 1, 3, 7, 8, 0xff)):
            out.append(Case("apdu", "000", f"apdu view {(bytes([0, 2, p1, p2, len(authd)]) + bytes(authd)).hex()}", tag="P1 x P2 authenticate"))
            if p1 < 16 and p2 % 16 == 0:
                out.append(Case("apdu", "000", f"apdu view {(bytes([0, 1, p1, p2, 64]) + bytes(64)).hex()}", tag="P1 x P2 register"))
    return out


def cases_c09(ctx, boost):
    g = ctx.gen("000")
    rng = g.rng
    out = []

    def hx(b):
        return b.hex() or "-"

    def add(resp, total, tag):
        caps = {0, 1, 2, 64, 1500, 7609} | {c for c in HARNESS_CAPS + [0] if total - 3 <= c <= total + 3}
        if tag in ("register cert", "version") or rng.random() < 0.05:
            caps |= set(HUGE_CAPS)
        for cap in sorted(caps):
            for prior in ([b"", rng.randbytes(min(cap, 3)), rng.randbytes(cap // 2)] if cap <= 300 else [b"", rng.randbytes(5)]):
                if len(prior) > cap:
                    continue
                out.append(Case("u2fs", "000", f"u2fs {cap} {hx(prior)} {resp}", tag=tag, oracle_prefix=True))

    # small responses: every capacity around every part boundary is instantiated (0..=40)
    for pk, kh, cert, sig in [(3, 4, 5, 6), (0, 0, 0, 0), (1, 0, 2, 0), (65, 0, 0, 0)]:
        r = f"reg:{rng.randrange(256)}:{hx(rng.randbytes(pk))}:{hx(rng.randbytes(kh))}:{hx(rng.randbytes(cert))}:{hx(rng.randbytes(sig))}"
        for cap in range(0, 41):
            for prior in (b"", rng.randbytes(min(cap, 2)), rng.randbytes(min(cap, 19))):
                out.append(Case("u2fs", "000", f"u2fs {cap} {hx(prior)} {r}", tag="register small", oracle_prefix=True))
    khs = list(range(0, 256, 1 if ctx.tier == "thorough" else 15)) + [254, 255]
    for kh in khs:
        cert = rng.choice([0, 1, 300, 1023, 1024])
        sig = rng.choice([0, 1, 70, 71, 72])
        r = f"reg:5:{hx(rng.randbytes(65))}:{hx(rng.randbytes(kh))}:{hx(rng.randbytes(cert))}:{hx(rng.randbytes(sig))}"
        add(r, 1 + 65 + 1 + kh + cert + sig, "register")
    for cert in ([0, 1, 2, 255, 256, 257, 1022, 1023, 1024] if ctx.tier == "quick" else range(0, 1025, 3)):
        r = f"reg:5:{hx(rng.randbytes(65))}:{hx(rng.randbytes(64))}:{hx(rng.randbytes(cert))}:{hx(rng.randbytes(72))}"
        add(r, 1 + 65 + 1 + 64 + cert + 72, "register cert")
    # realistic contents: certificates and signatures are DER — a SEQUENCE header whose announced length is shorter than,
    # equal to and longer than what follows, in every length form (the serializer must copy them verbatim regardless)
    def der(total, announced, form):
        if form == 2:
            hdr = bytes([0x30, 0x82, (announced >> 8) & 0xFF, announced & 0xFF])
        elif form == 1:
            hdr = bytes([0x30, 0x81, announced & 0xFF])
        else:
            hdr = bytes([0x30, announced & 0x7F])
        body = rng.randbytes(max(total - len(hdr), 0))
        return (hdr + body)[:total]
    for total in (4, 5, 40, 300, 1024):
        for form in (0, 1, 2):
            hl = (2, 3, 4)[form]
            for announced in sorted({0, 1, max(total - hl - 20, 0), max(total - hl - 1, 0), max(total - hl, 0), total - hl + 1, total, 0xFFFF}):
                cert = der(total, announced, form)
                r = f"reg:5:{hx(rng.randbytes(65))}:{hx(rng.randbytes(rng.choice([0, 64])))}:{hx(cert)}:{hx(der(rng.choice([8, 70, 72]), 68, 0))}"
                out.append(Case("u2fs", "000", f"u2fs 1500 - {r}", tag="register DER cert", oracle_prefix=True))
    for sig in range(0, 73):
        for announced in sorted({0, max(sig - 3, 0), max(sig - 2, 0), sig, 70}):
            r = f"auth:{rng.randrange(256)}:{rng.randrange(2 ** 32)}:{hx(der(sig, announced, 0))}"
            out.append(Case("u2fs", "000", f"u2fs 128 - {r}", tag="authenticate DER signature", oracle_prefix=True))
    for count in (0, 1, 0xFF, 0x100, 0xFFFF, 0x10000, 0x01020304, 0xFFFFFF, 0x1000000, 0xFFFFFFFF):
        for sig in (0, 1, 35, 71, 72):
            r = f"auth:{rng.randrange(256)}:{count}:{hx(rng.randbytes(sig))}"
            add(r, 5 + sig, "authenticate")
    add(f"ver:{b'U2F_V2'.hex()}", 6, "version")
    add(f"ver:{rng.randbytes(6).hex()}", 6, "version")
    for xl, yl in [(32, 32), (0, 0), (31, 32), (32, 31), (1, 1), (32, 0)]:
        out.append(Case("regnew", "000", f"regnew {hx(rng.randbytes(xl))} {hx(rng.randbytes(yl))}", tag="Response::new"))
    return out


# =============================================================================== C10
def cases_c10(ctx, boost):
    out = []
    cfg = "000"
    g = ctx.gen(cfg)
    rng = g.rng
    methods = {"MakeCredential": "make_credential", "GetAssertion": "get_assertion", "ClientPin": "client_pin",
               "CredentialManagement": "credential_management", "LargeBlobs": "large_blobs"}
    cmd = {"MakeCredential": 1, "GetAssertion": 2, "ClientPin": 6, "CredentialManagement": 0x0A, "LargeBlobs": 0x0C}
    reqs = []
    for variant, payload in ctx.data["schemas"][cfg]["variants"]["request_variants"]:
        if payload and payload != "vendor":
            t = {"named": payload}
            vals = [g.s.min_value(t)] + [g.rand_val(t, 0.5) for _ in range(2 * boost)]
            for v in vals:
                try:
                    b = bytes([cmd[variant]]) + casegen.enc_item(g.value_item(t, v))
                except Exception:
                    continue
                reqs.append((variant, methods[variant], b.hex()))
    reqs += [("GetInfo", "get_info", "04"), ("GetNextAssertion", "get_next_assertion", "08"), ("Reset", "reset", "07"),
             ("Selection", "selection", "0b"), ("CredentialManagement", "credential_management", "41a10101")]
    codes = [1, 2, 0x27, 0x2E, 0x31, 0x7F]
    allm = sorted(set(m for _, m, _ in reqs) | {"vendor"})
    for variant, m, hx in reqs:
        for entry in ("direct", "rpc"):
            for lb in ("lb", "nolb"):
                fails = ["-"] + [f"{m}:{c}" for c in codes] + [f"{o}:{rng.choice(codes)}" for o in allm if o != m][:4]
                for f in fails:
                    out.append(Case("call2", cfg, f"call2 {entry} {lb} {hx} {f}", tag=variant))
    # an authenticator that overrides the provided dispatch method is reached through the generic entry point
    for variant, m, hx in reqs[:12]:
        out.append(Case("rpcov", cfg, f"rpcov 2 {hx}", tag="Rpc::call reaches an overridden call_ctap2"))
    # what the handler returns comes back unchanged: rich handler results (every optional member set / random subsets)
    rkinds = {"MakeCredential": "MakeCredential", "GetAssertion": "GetAssertion", "GetNextAssertion": "GetAssertion", "GetInfo": "GetInfo",
              "ClientPin": "ClientPin", "CredentialManagement": "CredentialManagement", "LargeBlobs": "LargeBlobs"}
    rpay = dict((v, p_) for v, p_ in ctx.data["schemas"][cfg]["variants"]["response_variants"])
    for variant, m, hx in reqs:
        rk = rkinds.get(variant)
        if not rk or not rpay.get(rk):
            continue
        tr = {"named": rpay[rk]}
        vals_r = [g.rand_val(tr, p_opt=1.0)] + [g.rand_val(tr, p_opt=rng.choice([0.3, 0.7])) for _ in range(2)]
        for v_r in vals_r:
            if not g.val_buildable(tr, v_r):
                continue
            for entry in ("direct", "rpc"):
                out.append(Case("call2", cfg, f"call2 {entry} lb {hx} - {rk}={show(v_r)}", tag=f"{variant} handler result returned unchanged"))
    for b in range(0x40, 0x80):
        for entry in ("direct", "rpc"):
            for f in ("-", f"vendor:{rng.choice(codes)}"):
                out.append(Case("call2", cfg, f"call2 {entry} lb vendor:{b} {f}", tag="Vendor direct"))
                if b >= 0x42:
                    out.append(Case("call2", cfg, f"call2 {entry} lb {b:02x} {f}", tag="Vendor decoded"))
    reg = build_apdu(0, 1, 0, 0, rng.randbytes(64), None, False).hex()
    auth = bytearray(rng.randbytes(65 + 9)); auth[64] = 9
    auths = [build_apdu(0, 2, p1, 0, bytes(auth), None, False).hex() for p1 in (3, 7, 8)]
    ver = build_apdu(0, 3, 0, 0, b"", None, False).hex()
    for apdu in [reg] + auths + [ver]:
        out.append(Case("rpcov", cfg, f"rpcov 1 {apdu}", tag="Rpc::call reaches an overridden call_ctap1"))
        for entry in ("direct", "rpc"):
            for f in ["-", "version"] + [f"{m}:{k}" for m in ("register", "authenticate") for k in list(range(12)) + [rng.randrange(256) for _ in range(6)]]:
                out.append(Case("call1", cfg, f"call1 {entry} {apdu} {f}", tag="ctap1"))
    return out


# =============================================================================== C14
def cases_c14(ctx, boost):
    import itertools
    from pymodel import head as chead, ctext, cint
    out = []
    cfg = "000"
    g = ctx.gen(cfg)
    rng = g.rng
    refs = {key: path for path, key, _ in g.all_refs()}
    fkey = [k for k in refs if k.endswith("FilteredPublicKeyCredentialParameters")][0]
    akey = [k for k in refs if k.endswith("AttestationFormatsPreference")][0]

    def entry(alg, ty, order=0, extra=False):
        ents = [(ctext("alg"), cint(alg)), (ctext("type"), ctext(ty))]
        if order:
            ents.reverse()
        if extra:
            ents.insert(rng.randrange(3), (ctext("transports"), chead(4, 0)))
        return chead(5, len(ents)) + b"".join(k + v for k, v in ents)

    alphabet = [(-7, "public-key"), (-8, "public-key"), (-257, "public-key"), (-7, "webauthn.create")]
    maxlen = 6 if ctx.tier == "thorough" else 4
    for n in range(maxlen + 1):
        for combo in itertools.product(alphabet, repeat=n):
            b = chead(4, n) + b"".join(entry(a, t) for a, t in combo)
            out.append(Case("dec", cfg, f"dec {cfg} {fkey} {b.hex()}", f"dec {cfg} {refs[fkey]} {b.hex()}", tag=f"params len {n}"))
    algs = [0, 1, -1, -7, -8, -9, -35, -36, -37, -257, -65535, 2 ** 31 - 1, -2 ** 31, 2 ** 31, -2 ** 31 - 1, 2 ** 32 - 7, -7 - 2 ** 32]
    # every algorithm identifier of the COSE registry's dense range, and the integer literals of the source, both signs
    dense = sorted(set(range(-300, 301)) | {s * d for d in casegen.DICT_INTS for s in (1, -1) if abs(d) < 2 ** 31})
    for a in dense:
        b = chead(4, 1) + entry(a, "public-key")
        out.append(Case("dec", cfg, f"dec {cfg} {fkey} {b.hex()}", f"dec {cfg} {refs[fkey]} {b.hex()}", tag="params alg sweep"))
    # near misses of the recognised format names (letter case, affixes): identifiers are case-sensitive
    for base in ("packed", "none"):
        for f in {base.upper(), base.capitalize(), base.swapcase(), base[:-1] + base[-1].upper(), base + " ", " " + base, base + "\x00",
                  base[:-1], base + base[-1]}:
            for lst in ([f], [f, base], [base, f], ["tpm", f]):
                b = chead(4, len(lst)) + b"".join(ctext(x) for x in lst)
                out.append(Case("dec", cfg, f"dec {cfg} {akey} {b.hex()}", f"dec {cfg} {refs[akey]} {b.hex()}", tag="formats near miss"))
    for a in algs:
        for ty in ("public-key", "public-kez", "", "p" * 32, "p" * 33, "Public-Key"):
            b = chead(4, 2) + entry(-8, "public-key") + entry(a, ty, order=rng.randrange(2), extra=rng.random() < 0.3)
            out.append(Case("dec", cfg, f"dec {cfg} {fkey} {b.hex()}", f"dec {cfg} {refs[fkey]} {b.hex()}", tag="params alg/type range"))
    for n in (7, 12, 13, 16, 17, 23, 24, 25, 64):
        for _ in range(2 * boost):
            items = [rng.choice(alphabet + [(rng.randrange(-70000, 70000), "public-key")]) for _ in range(n)]
            b = chead(4, n) + b"".join(entry(a, t, rng.randrange(2)) for a, t in items)
            out.append(Case("dec", cfg, f"dec {cfg} {fkey} {b.hex()}", f"dec {cfg} {refs[fkey]} {b.hex()}", tag=f"params long {n}"))
    fmts = ["packed", "none", "tpm", "android-key"]
    for n in range(6):
        for combo in itertools.product(fmts, repeat=n):
            b = chead(4, n) + b"".join(ctext(f) for f in combo)
            out.append(Case("dec", cfg, f"dec {cfg} {akey} {b.hex()}", f"dec {cfg} {refs[akey]} {b.hex()}", tag=f"formats len {n}"))
    for k in range(0, 48):      # unknown format names with a multi-byte character straddling every offset
        nm = "a" * k + ("é", "語", "😀")[k % 3] * 8
        for lst in ([nm], ["packed", nm, "none"]):
            b = chead(4, len(lst)) + b"".join(ctext(x) for x in lst)
            out.append(Case("dec", cfg, f"dec {cfg} {akey} {b.hex()}", f"dec {cfg} {refs[akey]} {b.hex()}", tag="formats multi-byte unknown"))
    for n in (6, 10, 30):
        b = chead(4, n) + b"".join(ctext(rng.choice(fmts + ["Packed", "", "x" * 40])) for _ in range(n))
        out.append(Case("dec", cfg, f"dec {cfg} {akey} {b.hex()}", f"dec {cfg} {refs[akey]} {b.hex()}", tag="formats long"))
    return out


# =============================================================================== C13
def cases_c13(ctx, boost):
    import itertools
    from pymodel import head as chead, ctext, cbytes
    out = []
    chars = {1: "a", 2: "é", 3: "€", 4: "😀"}
    for cfg in ctx.cfgs(("000",)):
        g = ctx.gen(cfg)
        rng = g.rng
        refs = {key: path for path, key, _ in g.all_refs()}
        ukey = [k for k in refs if k.endswith("PublicKeyCredentialUserEntity")][0]
        rkey = [k for k in refs if k.endswith("PublicKeyCredentialRpEntity")][0]

        def user(name=None, display=None, icon=None, raw_name=None):
            ents = [(ctext("id"), cbytes(b"\x01\x02"))]
            if icon is not None:
                ents.append((ctext("icon"), ctext(icon)))
            if name is not None:
                ents.append((ctext("name"), ctext(name)))
            if raw_name is not None:
                ents.append((ctext("name"), chead(3, len(raw_name)) + raw_name))
            if display is not None:
                ents.append((ctext("displayName"), ctext(display)))
            return chead(5, len(ents)) + b"".join(k + v for k, v in ents)

        def rp(name=None, icon=None, key="icon", raw=None):
            ents = [(ctext("id"), ctext("example.com"))]
            if name is not None:
                ents.append((ctext("name"), ctext(name)))
            if icon is not None:
                ents.append((ctext(key), ctext(icon)))
            if raw is not None:
                ents.append((ctext(key), chead(3, len(raw)) + raw))
            return chead(5, len(ents)) + b"".join(k + v for k, v in ents)

        def add(key, b, tag):
            out.append(Case("dec", cfg, f"dec {cfg} {key} {b.hex()}", f"dec {cfg} {refs[key]} {b.hex()}", tag=tag))

        # fragments the code might treat specially (source literals + a built-in list), placed so that the
        # longest fitting prefix ends with them, so that they straddle the cut, and at the end of a name that fits
        for d in casegen.DICT_STRINGS:
            db = d.encode()
            if not db or len(db) > 20:
                continue
            for cap, mk in ((64, lambda x: (ukey, user(name=x))), (64, lambda x: (rkey, rp(name=x))),
                            (64, lambda x: (ukey, user(display=x, name="n")))):
                for s_ in ("a" * (cap - len(db)) + d + "zzz", "a" * (cap - len(db) + 1) + d + "z", "a" * 5 + d,
                           d + "a" * 70, "a" * (cap - len(db)) + d):
                    k_, b_ = mk(s_)
                    add(k_, b_, "dictionary fragment at the cut")
            for s_ in (d + "a" * 10, d + "é" * 70, "a" * (128 - len(db)) + d, d + "a" * 26 + "😀" * 30):
                add(ukey, user(icon=s_), "dictionary fragment in icon")
        # one multi-byte character straddling every byte offset of an over-long / fitting icon and name (a preview of the
        # text sliced bytewise — in a log line, say — would split it)
        for k in range(0, 132):
            ch = ("é", "語", "😀")[k % 3]
            add(ukey, user(icon="a" * k + ch + "a" * (140 - k)), "icon, character straddling offset")
            if k < 70:
                add(ukey, user(name="a" * k + ch + "a" * (80 - k)), "name, character straddling offset")
                add(rkey, rp(name="a" * k + ch + "a" * 3), "short name, character at offset")
        # every character-width pattern around the 64-byte cut, for every alignment
        plen = 4 if ctx.tier == "quick" else 6
        for pat in itertools.product((1, 2, 3, 4), repeat=plen):
            for start in (56, 57, 58, 59, 60, 61, 62, 63):
                if ctx.tier == "quick" and start < 60:
                    continue
                s = "a" * start + "".join(chars[w] for w in pat) + "zz"
                site = rng.randrange(3)
                if site == 0:
                    add(ukey, user(name=s), "width pattern user.name")
                elif site == 1:
                    add(ukey, user(display=s, name="n"), "width pattern user.displayName")
                else:
                    add(rkey, rp(name=s), "width pattern rp.name")
        for n in range(0, 301, 1 if ctx.tier == "thorough" else 7):
            add(ukey, user(name=casegen.rand_utf8(rng, n).decode()), "name length")
            add(ukey, user(icon="i" * n), "icon length")
            add(rkey, rp(icon="u" * n, key=rng.choice(["icon", "url"])), "rp icon length")
        for n in (63, 64, 65, 66, 67, 127, 128, 129, 130, 255, 256, 257):
            add(ukey, user(name="é" * (n // 2) + "x" * (n % 2), icon=casegen.rand_utf8(rng, n).decode()), "boundary")
            add(rkey, rp(name="😀" * (n // 4) + "y" * (n % 4), icon="€" * (n // 3)), "boundary")
        # ill-formed UTF-8 at every position of a short text, in each text member
        base = "aé€😀z".encode()
        for i in range(len(base)):
            for bad in (0x80, 0xC0, 0xF5, 0xFF, 0xED):
                raw = bytearray(base); raw[i] = bad
                add(ukey, user(raw_name=bytes(raw)), "ill-formed name")
                add(rkey, rp(raw=bytes(raw), key=rng.choice(["icon", "url"])), "ill-formed icon")
        for raw in (b"\xed\xa0\x80", b"\xf4\x90\x80\x80", b"\xc0\xaf", b"\xe0\x9f\xbf", b"\xf0\x8f\xbf\xbf", b"a" * 70 + b"\xf0\x9f\x98"):
            add(ukey, user(raw_name=raw), "ill-formed special")
        # inside full requests
        mc = [k for k in refs if k.endswith("make_credential::Request")]
        if mc:
            # (also names / icons of several kilobytes up to beyond 2^16 bytes: any length is cut, never refused)
            for s in ("a" * 61 + "😀" + "b", "a" * 62 + "€€", "x" * 300, "a" * 63 + "é" * 4000, "n" * 66000, "é" * 35000):
                ents = [(chead(0, 1), cbytes(b"h" * 32)), (chead(0, 2), rp(name=s, icon="i" * 200 if len(s) < 1000 else "i" * 70000)),
                        (chead(0, 3), user(name=s, display=s, icon="j" * 129)),
                        (chead(0, 4), chead(4, 1) + chead(5, 2) + ctext("alg") + bytes([0x26]) + ctext("type") + ctext("public-key"))]
                b = chead(5, 4) + b"".join(k + v for k, v in ents)
                out.append(Case("req", cfg, f"req {cfg} 01{b.hex()}", tag="inside MakeCredential"))
    return out


# =============================================================================== C15
def bidir_refs(g):
    out = []
    for path, key, t in g.all_refs():
        r = g.s.res(t)
        if r["caps"]["ser"] and r["caps"]["de"] and g.buildable(t):
            out.append((path, key, t))
    return out


def cases_c15(ctx, boost):
    out = []
    for cfg in ctx.cfgs(("000", "111")):
        g = ctx.gen(cfg)
        rng = g.rng
        for path, key, t in bidir_refs(g):
            r = g.s.res(t)
            vals = []
            if "fields" in r:
                opt = [i for i, f in enumerate(r["fields"]) if g.s.is_opt_field(r, f) and f["rust"] in r["rust"]["pub_fields"] and f["ser"] != "never"]
                base = g.rand_val(t, p_opt=1.0)
                subsets = []
                if len(opt) <= 6:
                    subsets = [set(i for j, i in enumerate(opt) if (m >> j) & 1) for m in range(1 << len(opt))]
                else:
                    subsets = [set(), set(opt)] + [{i} for i in opt] + [{a, b} for a in opt[:6] for b in opt if a < b][:40]
                    subsets += [set(rng.sample(opt, rng.randint(0, len(opt)))) for _ in range(10 * boost)]
                for sub in subsets:
                    fresh = g.rand_val(t, p_opt=1.0)
                    slots = [(fresh[1][i] if (i not in opt or i in sub) else None) for i in range(len(fresh[1]))]
                    # never-serialised members (rp icon) are not re-emitted: leave them unset
                    slots = [None if r["fields"][i]["ser"] == "never" else s_ for i, s_ in enumerate(slots)]
                    vals.append(('r', slots))
                # text members exactly at / next to their capacity, beginning or ending with a fragment the code might treat
                # specially (source literals, format characters, boundary scalars): they must come back unchanged too
                for i, f in enumerate(r["fields"]):
                    fr = g.s.res(f["ty"])
                    capt = f["mode"].get("cap") if f["mode"]["m"] in ("trunc", "skipLong") else (fr.get("cap") if fr.get("leaf") == "str" else None)
                    if capt is None or f["rust"] not in r["rust"]["pub_fields"] or f["ser"] == "never" or fr.get("leaf") not in ("str", "icon"):
                        continue
                    for d in casegen.DICT_STRINGS:
                        db = d.encode()
                        if not db or len(db) > capt:
                            continue
                        for L in (capt, capt - 1, len(db) + 1):
                            if L < len(db):
                                continue
                            for txt in (b"a" * (L - len(db)) + db, db + b"a" * (L - len(db))):
                                slots = list(base[1])
                                slots = [None if r["fields"][j]["ser"] == "never" else s_ for j, s_ in enumerate(slots)]
                                slots[i] = ('s', txt)
                                vals.append(('r', slots))
            else:
                vals = [g.rand_val(t, 0.5) for _ in range(6 * boost)]
            for v in vals:
                if not g.val_buildable(t, v):
                    continue
                out.append(Case("rt", cfg, f"rt {cfg} {key} {show(v)}", f"rt {cfg} {path} {show(v)}", tag="encode→decode"))
                try:
                    b = g.s.ref_encode(t, v, canonical=False)
                except Exception:
                    continue
                out.append(Case("rtb", cfg, f"rtb {cfg} {key} {b.hex()}", f"rtb {cfg} {path} {b.hex()}", tag="decode→encode"))
    return out


# =============================================================================== C01
CMD_BYTE = {"MakeCredential": [1], "GetAssertion": [2], "ClientPin": [6], "CredentialManagement": [0x0A, 0x41], "LargeBlobs": [0x0C]}


def request_messages(g, variant, key, n_random, subsets=True, huge=True):
    """(tag, bytes-without-command-byte) for well-formed parameter maps of one command"""
    rng = g.rng
    t = {"named": key}
    r = g.s.res(t)
    opt = [i for i, f in enumerate(r["fields"]) if not f["required"] and f["rust"] in r["rust"]["pub_fields"]]
    out = []
    if subsets:
        masks = range(1 << len(opt)) if len(opt) <= 8 else [rng.getrandbits(len(opt)) for _ in range(200)]
        for m in masks:
            v = g.rand_val(t, p_opt=1.0)
            slots = [(s_ if (i not in opt or (m >> opt.index(i)) & 1) else None) for i, s_ in enumerate(v[1])]
            out.append(("subset", casegen.enc_item(g.wire_item(t, ('r', slots), lossy=0.0))))
    for _ in range(n_random):
        v = g.rand_val(t, p_opt=rng.choice([0.2, 0.5, 0.9]))
        out.append(("random+lossy", casegen.enc_item(g.wire_item(t, v, lossy=0.4))))
    # well-formed messages at and around the largest legal CTAP message (7609 bytes incl. the command byte),
    # grown through a member of unbounded length
    grow = [i for i, f in enumerate(r["fields"]) if g.s.res(f["ty"]).get("leaf") == "bytes" and g.s.res(f["ty"]).get("cap") is None
            and f["rust"] in r["rust"]["pub_fields"]]
    if grow:
        i = grow[0]
        base = g.s.min_value(t)

        def build(L):
            slots = list(base[1])
            slots[i] = ('x', bytes([0x5a]) * L)
            return casegen.enc_item(g.value_item(t, ('r', slots)))
        # ... and around 2^16 bytes (a `usize` length narrowed to `u16` somewhere would show there)
        for total in (7608, 7609, 7610, 8000) + ((65535, 65536, 65537, 70000) if huge else ()):
            L = max(0, total - 1 - len(build(0)))
            for _ in range(4):
                d = total - 1 - len(build(L))
                if d == 0:
                    break
                L = max(0, L + d)
            if len(build(L)) == total - 1:
                out.append((f"total length {total}", build(L)))
    return out


def cases_c01(ctx, boost):
    out = []
    for cfg in ctx.cfgs(("000", "111")):
        g = ctx.gen(cfg)
        for variant, payload in ctx.data["schemas"][cfg]["variants"]["request_variants"]:
            if not payload or payload == "vendor":
                continue
            for tag, body in request_messages(g, variant, payload, 40 * boost):
                for cb in CMD_BYTE.get(variant, []):
                    out.append(Case("req", cfg, f"req {cfg} {cb:02x}{body.hex()}", tag=f"{variant} {tag}"))
    return out


# =============================================================================== C12
def bounded_sites(g, t, path=()):
    """(path, kind, limit) for every bounded leaf / list under t; path = child indices"""
    r = g.s.res(t)
    out = []
    if "leaf" in r:
        l = r["leaf"]
        if l == "bytes" and r.get("cap") is not None:
            out.append((path, "bytes", r["cap"]))
        elif l == "byteArray":
            out.append((path, "byteArray", r["n"]))
        elif l == "str" and r.get("cap") is not None:
            out.append((path, "str", r["cap"]))
        elif l == "uint":
            out.append((path, "uint", {"u8": 2 ** 8, "u32": 2 ** 32, "u64": 2 ** 64}[r["w"]]))
        elif l == "i32":
            out.append((path, "i32", 2 ** 31))
        elif l == "coseEcdh":
            out.append((path, "cose", 32))
    elif "vec" in r:
        out.append((path, "vec", r["vec"]))
        out += bounded_sites(g, r["elem"], path + (0,))
    elif "filtered" in r:
        out += bounded_sites(g, r["elem"], path + (0,))
    elif "fields" in r:
        for i, f in enumerate(r["fields"]):
            if f["mode"]["m"] == "skipLong":
                out.append((path + (i,), "icon", f["mode"]["cap"]))
            elif f["mode"]["m"] == "trunc":
                continue
            else:
                out += bounded_sites(g, f["ty"], path + (i,))
    return out


def saturate(g, t, item):
    """`item` (the wire item of a value of type t) with every filtered list / format-preference list given a
    saturating prefix: as many recognised entries as the list keeps, plus one unrecognised entry, BEFORE the
    original entries — so that faults, limits and unknown members placed in the tail are still examined"""
    r = g.s.res(t)
    rng = g.rng
    if "filtered" in r and item[0] == 'arr':
        def mk(alg, ty):
            return ('map', [(('text', b"alg"), casegen.int_item(alg)), (('text', b"type"), ('text', ty.encode()))])
        pre = [mk(rng.choice(r["known"]), r["deLit"]) for _ in range(r["filtered"])]
        pre.insert(rng.randint(0, len(pre)), mk(rng.choice([-257, -35, -65535]), r["deLit"]))
        return ('arr', pre + (list(item[1]) or [mk(rng.choice(r["known"]), r["deLit"])]))
    if r.get("leaf") == "attFmtPref" and item[0] == 'arr':
        names = [d[0] for d in r["de"]]
        pre = [('text', rng.choice(names).encode()) for _ in range(r["cap"])]
        pre.insert(rng.randint(0, len(pre)), ('text', rng.choice([b"tpm", b"android-key", b"apple"])))
        return ('arr', pre + (list(item[1]) or [('text', names[0].encode())]))
    if "vec" in r and item[0] == 'arr':
        return ('arr', [saturate(g, r["elem"], x) for x in item[1]])
    if "fields" in r and item[0] == 'map':
        byk = {}
        for i, f in enumerate(r["fields"]):
            byk[('u', r["indexed"] + i) if "indexed" in r else ('text', f["key"].encode())] = f
        return ('map', [(k, saturate(g, byk[k]["ty"], v) if k in byk else v) for k, v in item[1]])
    return item


def item_at(g, t, item, path, fn, last=False):
    """rebuild `item` (the wire item of a value of type t) with fn applied at `path`; inside lists the path
    goes through the first entry, or the last one with last=True"""
    if not path:
        return fn(item)
    r = g.s.res(t)
    i = path[0]
    if "vec" in r or "filtered" in r:
        if item[0] != 'arr' or not item[1]:
            return None
        if last:
            sub = item_at(g, r["elem"], item[1][-1], path[1:], fn, last)
            return None if sub is None else ('arr', item[1][:-1] + [sub])
        sub = item_at(g, r["elem"], item[1][0], path[1:], fn)
        return None if sub is None else ('arr', [sub] + item[1][1:])
    if "fields" in r:
        f = r["fields"][i]
        key = ('u', r["indexed"] + i) if "indexed" in r else ('text', f["key"].encode())
        ents = list(item[1])
        for j, (k, v) in enumerate(ents):
            if k == key:
                sub = item_at(g, f["ty"], v, path[1:], fn, last)
                if sub is None:
                    return None
                ents[j] = (k, sub)
                return ('map', ents)
        return None
    return None


def cases_c12(ctx, boost):
    out = []
    for cfg in ctx.cfgs(("000", "111")):
        g = ctx.gen(cfg)
        rng = g.rng
        for variant, payload in ctx.data["schemas"][cfg]["variants"]["request_variants"]:
            if not payload or payload == "vendor":
                continue
            t = {"named": payload}
            for path, kind, lim in bounded_sites(g, t):
                for attempt in range(6):
                    v = g.rand_val(t, p_opt=1.0)
                    base = g.wire_item(t, v, lossy=0.0)
                    variants = []
                    if kind in ("bytes", "byteArray", "str", "icon"):
                        for n in sorted({max(lim - 1, 0), lim, lim + 1, lim + 300, 0}):
                            payload_b = casegen.rand_utf8(rng, n) if kind in ("str", "icon") else rng.randbytes(n)
                            variants.append((f"{kind} len {n - lim:+d}", ('text' if kind in ("str", "icon") else 'bytes', payload_b)))
                    elif kind == "uint":
                        for n in sorted({0, lim - 2, lim - 1, lim, 2 ** 32, 2 ** 63, 2 ** 64 - 1}):
                            if n < 2 ** 64:
                                variants.append((f"uint {n}", ('u', n)))
                    elif kind == "i32":
                        for n in (0, lim - 2, lim - 1, lim, 2 ** 32, 2 ** 63):
                            variants.append((f"i32 +{n}", ('u', n)))
                            variants.append((f"i32 -{n}", ('neg', n)))
                    elif kind == "vec":
                        pass
                    elif kind == "cose":
                        for n in (31, 32, 33, 100):
                            variants.append((f"cose x {n}", ('map', [(('u', 1), ('u', 2)), (('u', 3), ('neg', 24)), (('neg', 0), ('u', 1)),
                                                                     (('neg', 1), ('bytes', rng.randbytes(n))), (('neg', 2), ('bytes', rng.randbytes(32)))])))
                    done = 0
                    sat = saturate(g, t, base)
                    for tag, new in variants:
                        it = item_at(g, t, base, path, lambda _old, new=new: new)
                        if it is None:
                            continue
                        done += 1
                        for cb in CMD_BYTE.get(variant, [])[:1]:
                            out.append(Case("req", cfg, f"req {cfg} {cb:02x}{casegen.enc_item(it).hex()}", tag=f"{variant} {tag}"))
                        if len(path) >= 2 and "filtered" in g.s.res(type_at(g, t, path[:-2])):
                            # the same limit in an entry whose *other* members make it one that is dropped anyway
                            def other_unknown(old):
                                if old[0] != 'map':
                                    return old
                                return ('map', [(k, (('neg', 256) if v[0] in ('u', 'neg') else ('text', b"other")) if k != sitekey else v) for k, v in old[1]])
                            hostf = g.s.res(type_at(g, t, path[:-1]))["fields"][path[-1]]
                            sitekey = ('text', hostf["key"].encode())
                            it2 = item_at(g, t, it, path[:-1], other_unknown)
                            if it2 is not None and it2 != it:
                                for cb in CMD_BYTE.get(variant, [])[:1]:
                                    out.append(Case("req", cfg, f"req {cfg} {cb:02x}{casegen.enc_item(it2).hex()}", tag=f"{variant} {tag} (in an entry that is dropped anyway)"))
                        if sat != base:
                            # the same limit in the LAST entry of a list whose kept part is already full
                            it = item_at(g, t, sat, path, lambda _old, new=new: new, last=True)
                            for cb in CMD_BYTE.get(variant, [])[:1]:
                                if it is not None:
                                    out.append(Case("req", cfg, f"req {cfg} {cb:02x}{casegen.enc_item(it).hex()}", tag=f"{variant} {tag} (tail entry)"))
                    if kind == "vec":
                        def grow(old, lim=lim):
                            return old
                        for n in sorted({max(lim - 1, 0), lim, lim + 1, lim + 20}):
                            def setlen(old, n=n):
                                if old[0] != 'arr' or not old[1]:
                                    return None
                                return ('arr', [old[1][i % len(old[1])] for i in range(n)])
                            it = item_at(g, t, base, path, setlen)
                            if it is not None:
                                done += 1
                                for cb in CMD_BYTE.get(variant, [])[:1]:
                                    out.append(Case("req", cfg, f"req {cfg} {cb:02x}{casegen.enc_item(it).hex()}", tag=f"{variant} list len {n - lim:+d}"))
                    if done:
                        break
    return out


# =============================================================================== C06
def host_paths(g, t, path=()):
    """paths (child indices) of every text-keyed struct under t"""
    r = g.s.res(t)
    out = []
    if "text" in r:
        out.append(path)
    if "vec" in r or "filtered" in r:
        out += host_paths(g, r["elem"], path + (0,))
    elif "fields" in r:
        for i, f in enumerate(r["fields"]):
            out += host_paths(g, f["ty"], path + (i,))
    return out


def deep_item(g, depth):
    rng = g.rng
    it = g.rand_unknown_item(2)
    for _ in range(depth):
        it = rng.choice([('arr', [it]), ('map', [(('u', 1), it)]), ('tag', rng.choice([1, 24, 1000]), it),
                         ('arr', [('u', 0), it, ('text', b"x")])])
    return it


def type_at(g, t, path):
    r = g.s.res(t)
    if not path:
        return t
    if "vec" in r or "filtered" in r:
        return type_at(g, r["elem"], path[1:])
    return type_at(g, r["fields"][path[0]]["ty"], path[1:])


def all_text_keys(ctx):
    """every member name of every text-keyed structure, over all configurations"""
    ks = set()
    for sj in ctx.data["schemas"].values():
        for t in sj["types"].values():
            if "text" in t:
                for f in t.get("fields", []):
                    ks.add(f["key"])
                    ks.update(f.get("aliases", []))
    return ks


def cases_c06(ctx, boost):
    out = []
    names = ["transports", "credBlob", "minPinLength", "credProps", "hmac-secret-mc", "prf", "zzz", "a", "Rk", "idx", "name2"]
    for cfg in ctx.cfgs(("000", "111")):
        g = ctx.gen(cfg)
        rng = g.rng
        for variant, payload in ctx.data["schemas"][cfg]["variants"]["request_variants"]:
            if not payload or payload == "vendor":
                continue
            t = {"named": payload}
            hosts = host_paths(g, t)
            for hp in hosts:
                for attempt in range(8):
                    v = g.rand_val(t, p_opt=1.0)
                    base = g.wire_item(t, v, lossy=0.0)
                    probe = item_at(g, t, base, hp, lambda old: old)
                    if probe is None:
                        continue
                    cb = CMD_BYTE[variant][0]
                    plain = Case("req", cfg, f"req {cfg} {cb:02x}{casegen.enc_item_ext(base).hex()}", tag=f"{variant} plain")
                    out.append(plain)
                    host_item = [None]

                    def grab(old):
                        host_item[0] = old
                        return old
                    item_at(g, t, base, hp, grab)
                    n_ent = len(host_item[0][1])
                    for pos in range(n_ent + 1):
                        for name, val in [(rng.choice(names[:6]), g.rand_unknown_item(3)), (rng.choice(names), deep_item(g, rng.choice([1, 4, 16])))]:
                            def ins(old, pos=pos, name=name, val=val):
                                ents = list(old[1])
                                ents.insert(pos, (('text', name.encode()), val))
                                return ('map', ents)
                            it = item_at(g, t, base, hp, ins)
                            c = Case("req", cfg, f"req {cfg} {cb:02x}{casegen.enc_item_ext(it).hex()}", tag=f"{variant} extra at {'/'.join(map(str, hp))}")
                            c.same_as = plain
                            out.append(c)
                    # member names of every text-keyed structure of every configuration (a member gated out of this
                    # configuration is an unknown member here), with values of every major type
                    hr = g.s.res(type_at(g, t, hp))
                    own = {k[1].decode('utf-8', 'replace') for k, _ in host_item[0][1] if k[0] == 'text'}
                    for f_ in hr.get("fields", []):
                        own.add(f_["key"])
                        own.update(f_.get("aliases", []))
                    for name in sorted(all_text_keys(ctx) - own):
                        for val in (('u', 1), ('text', b"x"), ('arr', [casegen.TRUE]), ('map', [(('u', 1), casegen.NULL)]), casegen.TRUE, casegen.NULL,
                                    ('bytes', b"\x01\x02")):
                            def ins1(old, name=name, val=val):
                                ents = list(old[1])
                                ents.insert(rng.randint(0, len(ents)), (('text', name.encode()), val))
                                return ('map', ents)
                            it = item_at(g, t, base, hp, ins1)
                            c = Case("req", cfg, f"req {cfg} {cb:02x}{casegen.enc_item_ext(it).hex()}", tag=f"{variant} foreign member {name} at {'/'.join(map(str, hp))}")
                            c.same_as = plain
                            out.append(c)
                    # long unknown names with a multi-byte character straddling every byte offset up to 70 (a name shortened
                    # bytewise for a message would split it), and hundreds of unknown members in one map (counters)
                    for k in range(0, 70):
                        nm = ("a" * k + rng.choice(["é", "語", "😀"]) * 12).encode()

                        def insn(old, nm=nm):
                            ents = list(old[1])
                            ents.insert(rng.randint(0, len(ents)), (('text', nm), g.rand_unknown_item(1)))
                            return ('map', ents)
                        it = item_at(g, t, base, hp, insn)
                        c = Case("req", cfg, f"req {cfg} {cb:02x}{casegen.enc_item_ext(it).hex()}", tag=f"{variant} long multi-byte unknown name at {'/'.join(map(str, hp))}")
                        c.same_as = plain
                        out.append(c)
                    for count in (255, 256, 257, 300, 700):
                        def insm(old, count=count):
                            ents = list(old[1])
                            extra = [(('text', f"x{j:03d}".encode()), casegen.TRUE if j % 2 else ('u', j)) for j in range(count)]
                            pos = rng.randint(0, len(ents))
                            return ('map', ents[:pos] + extra + ents[pos:])
                        it = item_at(g, t, base, hp, insm)
                        c = Case("req", cfg, f"req {cfg} {cb:02x}{casegen.enc_item_ext(it).hex()}", tag=f"{variant} {count} unknown members at {'/'.join(map(str, hp))}")
                        c.same_as = plain
                        out.append(c)
                    # several unknown members at once; and the same in the LAST entry of a list whose kept part is full
                    sat = saturate(g, t, base)
                    plain_sat = Case("req", cfg, f"req {cfg} {cb:02x}{casegen.enc_item_ext(sat).hex()}", tag=f"{variant} plain (saturated lists)")
                    if sat != base:
                        out.append(plain_sat)
                    for k in (2, 3):
                        extras = [(('text', (rng.choice(names) + str(j)).encode()), g.rand_unknown_item(2)) for j in range(k)]

                        def insk(old, extras=extras):
                            ents = list(old[1])
                            for e in extras:
                                ents.insert(rng.randint(0, len(ents)), e)
                            return ('map', ents)
                        for b_item, pl, last in ((base, plain, False), (sat, plain_sat, True)):
                            if last and sat == base:
                                continue
                            it = item_at(g, t, b_item, hp, insk, last=last)
                            if it is None:
                                continue
                            c = Case("req", cfg, f"req {cfg} {cb:02x}{casegen.enc_item_ext(it).hex()}",
                                     tag=f"{variant} {k} extras at {'/'.join(map(str, hp))}{' (tail entry)' if last else ''}")
                            c.same_as = pl
                            out.append(c)
                    break
    return out


# =============================================================================== C05
def item_paths(it, path=()):
    """every sub-item position: path of ('k', i) / ('v', i) / ('a', i) / ('t',) steps"""
    yield path
    if it[0] == 'arr':
        for i, x in enumerate(it[1]):
            yield from item_paths(x, path + (('a', i),))
    elif it[0] == 'map':
        for i, (k, v) in enumerate(it[1]):
            yield from item_paths(v, path + (('v', i),))
    elif it[0] == 'tag':
        yield from item_paths(it[2], path + (('t',),))


def item_replace(it, path, fn):
    if not path:
        return fn(it)
    step = path[0]
    if step[0] == 'a':
        xs = list(it[1]); xs[step[1]] = item_replace(xs[step[1]], path[1:], fn); return ('arr', xs)
    if step[0] == 'v':
        es = list(it[1]); k, v = es[step[1]]; es[step[1]] = (k, item_replace(v, path[1:], fn)); return ('map', es)
    if step[0] == 't':
        return ('tag', it[1], item_replace(it[2], path[1:], fn))
    return it


def widen(it, rng):
    """re-encode the head of this item non-minimally (same value, longer argument)"""
    k = it[0]
    major, n = {'u': (0, None), 'neg': (1, None), 'bytes': (2, None), 'text': (3, None), 'arr': (4, None), 'map': (5, None)}.get(k, (None, None))
    if major is None:
        return None
    n = it[1] if k in ('u', 'neg') else len(it[1])
    need = 0 if n < 24 else 1 if n < 256 else 2 if n < 65536 else 4 if n < 2 ** 32 else 8
    wider = [w for w in (1, 2, 4, 8) if w > need]
    if not wider:
        return None
    w = rng.choice(wider)
    body = b"" if k in ('u', 'neg') else (it[1] if k in ('bytes', 'text') else
                                            b"".join(casegen.enc_item_ext(x) for x in it[1]) if k == 'arr' else
                                            b"".join(casegen.enc_item_ext(a) + casegen.enc_item_ext(b) for a, b in it[1]))
    return ('raw', casegen.forced_head(major, n, w) + body)


def indefinite(it):
    k = it[0]
    if k == 'bytes':
        return ('raw', b"\x5f" + casegen.enc_item(it) + b"\xff")
    if k == 'text':
        return ('raw', b"\x7f" + casegen.enc_item(it) + b"\xff")
    if k == 'arr':
        return ('raw', b"\x9f" + b"".join(casegen.enc_item_ext(x) for x in it[1]) + b"\xff")
    if k == 'map':
        return ('raw', b"\xbf" + b"".join(casegen.enc_item_ext(a) + casegen.enc_item_ext(b) for a, b in it[1]) + b"\xff")
    return None


OTHER_TYPES = [('u', 7), ('neg', 7), ('bytes', b"ab"), ('text', b"ab"), ('arr', []), ('map', []), ('simple', 21)]


def cases_c05(ctx, boost):
    out = []
    for cfg in ctx.cfgs(("000", "111")):
        g = ctx.gen(cfg)
        rng = g.rng
        for b in range(256):
            out.append(Case("req", cfg, f"req {cfg} {b:02x}", tag="command byte alone"))
            out.append(Case("req", cfg, f"req {cfg} {b:02x}a0", tag="command byte + empty map"))
        out.append(Case("req", cfg, f"req {cfg} -", tag="empty message"))
        for variant, payload in ctx.data["schemas"][cfg]["variants"]["request_variants"]:
            if not payload or payload == "vendor":
                continue
            t = {"named": payload}
            cb = CMD_BYTE[variant][0]
            seeds = [g.wire_item(t, g.rand_val(t, p_opt=1.0), lossy=0.0)] + \
                    [g.wire_item(t, g.rand_val(t, p_opt=0.4), lossy=0.0) for _ in range(boost)]
            sat = saturate(g, t, seeds[0])
            if sat != seeds[0]:
                seeds.append(sat)       # faults behind a saturating prefix of list entries
            for seed in seeds:
                def add(it, tag):
                    try:
                        b = casegen.enc_item_ext(it)
                    except Exception:
                        return
                    out.append(Case("req", cfg, f"req {cfg} {cb:02x}{b.hex()}", tag=f"{variant} {tag}"))
                full = casegen.enc_item_ext(seed)
                add(seed, "seed")
                step = 1 if len(full) < 400 or ctx.tier == "thorough" else 3
                for cut in range(0, len(full), step):                      # truncation at every offset
                    out.append(Case("req", cfg, f"req {cfg} {cb:02x}{full[:cut].hex()}", tag=f"{variant} truncated"))
                paths = list(item_paths(seed))
                for pth in paths:
                    sub = [None]
                    item_replace(seed, pth, lambda x: (sub.__setitem__(0, x), x)[1])
                    it = sub[0]
                    if it[0] == 'map':
                        for i in range(len(it[1])):                          # remove each member / duplicate each key
                            add(item_replace(seed, pth, lambda x, i=i: ('map', x[1][:i] + x[1][i + 1:])), "member removed")
                            add(item_replace(seed, pth, lambda x, i=i: ('map', x[1][:i + 1] + [x[1][i]] + x[1][i + 1:])), "key duplicated")
                            add(item_replace(seed, pth, lambda x, i=i: ('map', x[1] + [x[1][i]])), "key duplicated at end")
                    w = widen(it, rng)
                    if w is not None:
                        add(item_replace(seed, pth, lambda x, w=w: w), "non-minimal head")
                    ind = indefinite(it)
                    if ind is not None:
                        add(item_replace(seed, pth, lambda x, ind=ind: ind), "indefinite length")
                    if pth:
                        for alt in OTHER_TYPES:
                            if alt[0] != it[0]:
                                add(item_replace(seed, pth, lambda x, alt=alt: alt), "other type")
    # messages at and beyond the largest CTAPHID message (nothing in the request types bounds the total length):
    # well-formed, truncated, lacking a required member, under an unassigned command byte
    for cfg in ctx.cfgs(("000", "111")):
        g = ctx.gen(cfg, salt=5)
        for variant, payload in ctx.data["schemas"][cfg]["variants"]["request_variants"]:
            if not payload or payload == "vendor":
                continue
            cb = CMD_BYTE[variant][0]
            for tag, body in request_messages(g, variant, payload, 0, subsets=False):
                if not tag.startswith("total length"):
                    continue
                for nm, m in (("whole", body), ("last byte cut", body[:-1]), ("cut in the middle", body[:len(body) // 2]), ("cut after the map head", body[:1]),
                              ("trailing byte", body + b"\x00"), ("first member's key changed", body[:1] + bytes([0x1f]) + body[2:]),
                              ("map head promises one more", bytes([body[0] + 1]) + body[1:])):
                    out.append(Case("req", cfg, f"req {cfg} {cb:02x}{m.hex()}", tag=f"{variant} {tag}: {nm}"))
                for b in (0x00, 0x03, 0x05, 0x0d, 0x3f, 0x80, 0xff):
                    out.append(Case("req", cfg, f"req {cfg} {b:02x}{body.hex()}", tag=f"unassigned command byte, {tag}"))
    # very long parameter / format lists with the fault in the last entry (a bound on how many entries are examined)
    from pymodel import head as chead, ctext, cint
    for cfg in ctx.cfgs(("000", "111")):
        rng = ctx.gen(cfg, salt=9).rng

        def ent(alg, ty):
            return chead(5, 2) + ctext("alg") + cint(alg) + ctext("type") + ctext(ty)
        faults = [("alg missing", chead(5, 1) + ctext("type") + ctext("public-key")),
                  ("type missing", chead(5, 1) + ctext("alg") + cint(-7)),
                  ("alg is text", chead(5, 2) + ctext("alg") + ctext("x") + ctext("type") + ctext("public-key")),
                  ("key duplicated", chead(5, 3) + ctext("alg") + cint(-7) + ctext("type") + ctext("public-key") + ctext("alg") + cint(-7)),
                  ("non-minimal alg", chead(5, 2) + ctext("alg") + bytes([0x38, 0x06]) + ctext("type") + ctext("public-key")),
                  ("alg out of range", ent(2 ** 31, "public-key")), ("type over capacity", ent(-257, "p" * 33)),
                  ("entry is an integer", bytes([0x00])), ("well-formed", ent(-8, "public-key"))]
        for n in (300, 640, 1000):
            body_pre = b"".join(ent(rng.choice([-7, -8, -257, -35]), rng.choice(["public-key", "public-key", "other"])) for _ in range(n))
            for nm, bad in faults:
                lst = chead(4, n + 1) + body_pre + bad
                mc = bytes([1]) + chead(5, 4) + bytes([1]) + chead(2, 32) + bytes(32) + bytes([2]) + chead(5, 1) + ctext("id") + ctext("example.org") + \
                    bytes([3]) + chead(5, 1) + ctext("id") + chead(2, 1) + b"u" + bytes([4]) + lst
                out.append(Case("req", cfg, f"req {cfg} {mc.hex()}", tag=f"MakeCredential, {n} parameters then: {nm}"))
            for nm, bad in (("integer", bytes([0x05])), ("byte string", chead(2, 4) + b"none"), ("invalid UTF-8", chead(3, 2) + b"\xc3\x28"), ("well-formed", ctext("tpm"))):
                fl = chead(4, n + 1) + b"".join(ctext(rng.choice(["packed", "none", "tpm", "x" * 40])) for _ in range(n)) + bad
                ga = bytes([2]) + chead(5, 3) + bytes([1]) + ctext("example.org") + bytes([2]) + chead(2, 32) + bytes(32) + bytes([9]) + fl
                out.append(Case("req", cfg, f"req {cfg} {ga.hex()}", tag=f"GetAssertion, {n} formats then: {nm}"))
    # each bounded member pushed across its limit (shared with C12)
    for c in cases_c12(ctx, boost):
        c.tag = "limit: " + c.tag
        out.append(c)
    return out


# =============================================================================== C03
def cases_c03(ctx, boost):
    out = []
    for cfg in ctx.cfgs(("000", "111")):
        g = ctx.gen(cfg)
        rng = g.rng
        for path, key, t in g.all_refs():
            r = g.s.res(t)
            if not r["caps"]["ser"] or not g.buildable(t):
                continue
            vals = []
            if "fields" in r:
                n = len(r["fields"])
                usable = [i for i, f in enumerate(r["fields"]) if f["rust"] in r["rust"]["pub_fields"] and f["ser"] != "never"]
                optional = [i for i in usable if g.s.is_opt_field(r, r["fields"][i])]
                # every pair of members set together (required members are always set)
                pairs = [(a, b) for a in optional for b in optional if a < b] or [(None, None)]
                if len(pairs) > 120 and ctx.tier == "quick":
                    pairs = rng.sample(pairs, 120) + [(a, a + 1) for a in optional[:-1] if a + 1 in optional]
                for a, b in pairs:
                    full = g.rand_val(t, p_opt=1.0)
                    slots = [(full[1][i] if (i in usable and (i not in optional or i in (a, b))) else None) for i in range(n)]
                    vals.append(('r', slots))
                vals.append(g.rand_val(t, p_opt=1.0))
            vals += [g.rand_val(t, 0.5) for _ in range(4 * boost)]
            for v in vals:
                if g.val_buildable(t, v):
                    c = Case("enc", cfg, f"enc {cfg} {key} {show(v)}", f"enc {cfg} {path} {show(v)}", tag="pairs+random")
                    c.check_canon = True
                    out.append(c)
        # integers across the 1/2/3/5/9-byte thresholds in a usize member of GetInfo, and whole responses
        sj = ctx.data["schemas"][cfg]
        for variant, payload in sj["variants"]["response_variants"]:
            if payload is None:
                continue
            for vi, v in enumerate(resp_values(g, variant, payload, 6 * boost, ctx)):
                c = Case("resp", cfg, f"resp {cfg} {variant} {show(v)} 8192 -", tag="whole response")
                c.check_canon = "resp"
                out.append(c)
                if vi < 2:      # the same into buffers beyond 16-bit lengths: still exactly one item, nothing behind it
                    for cap in HUGE_CAPS:
                        c = Case("resp", cfg, f"resp {cfg} {variant} {show(v)} {cap} {rng.choice(['-', '7f'])}", tag="whole response, huge buffer")
                        c.check_canon = "resp"
                        out.append(c)
        gi = [k for k in sj["types"] if k.endswith("get_info::Response")][0]
        base = g.s.min_value({"named": gi})
        names = [f["rust"] for f in g.s.res({"named": gi})["fields"]]
        i = names.index("max_msg_size")
        for n in [0, 23, 24, 255, 256, 65535, 65536, 2 ** 32 - 1, 2 ** 32, 2 ** 64 - 1]:
            slots = list(base[1]); slots[i] = ('n', n)
            c = Case("enc", cfg, f"enc {cfg} {gi} {show(('r', slots))}", f"enc {cfg} resp:GetInfo {show(('r', slots))}", tag="integer thresholds")
            c.check_canon = True
            out.append(c)
        # the extension map at the tail of authenticator data, where the whole still fits and where it does not
        # (an error is fine; a cut-off map is not one well-formed item)
        cap = ctx.data["tables"]["consts"]["AUTHENTICATOR_DATA_LENGTH"]
        for fl in ("MC", "GA"):
            t = {"named": g.s.roles["adExt" + fl]}
            for _ in range(3 * boost):
                v = g.rand_val(t, p_opt=1.0)
                ext_len = len(g.s.ref_encode(t, v, canonical=False))
                rp = rng.randbytes(32).hex()
                if fl == "GA":
                    c = Case("adat", cfg, f"adat {cfg} GA {rp} 13 7 - {show(v)}", tag="authData + extensions")
                    c.check_canon = ("adat", 37)
                    out.append(c)
                    continue
                pk = 77
                for total in (cap - 40, cap - 1, cap, cap + 1, cap + 3, cap + ext_len - 1, cap + ext_len, cap + ext_len + 1):
                    n = total - 37 - 16 - 2 - pk - ext_len
                    if n < 0 or n > 65535:
                        continue
                    c = Case("adat", cfg, f"adat {cfg} MC {rp} 13 7 {'cc' * 16}:{n}:5:{'a5' * pk} {show(v)}",
                             tag="authData + extensions at the capacity frontier")
                    c.check_canon = ("adat", 37 + 16 + 2 + n + pk)
                    out.append(c)
    return out


# =============================================================================== C02
def cases_c02(ctx, boost):
    out = []
    for cfg in ctx.cfgs(("000", "111")):
        g = ctx.gen(cfg)
        rng = g.rng
        sj = ctx.data["schemas"][cfg]
        for variant, payload in sj["variants"]["response_variants"]:
            if payload:
                for _ in range(2):      # the largest value of the kind
                    ve = extreme_val(g, {"named": payload}, g.rand_val({"named": payload}, p_opt=1.0), True)
                    if g.val_buildable({"named": payload}, ve):
                        for cap in (8192, 7609, 4096):
                            out.append(Case("resp", cfg, f"resp {cfg} {variant} {show(ve)} {cap} -", tag=f"{variant} every member at capacity"))
            if payload is None:
                out.append(Case("resp", cfg, f"resp {cfg} {variant} - 64 -", tag="parameter-less"))
                # a reused buffer: whatever the previous exchange left in it (an error status, a whole response)
                for cap in HUGE_CAPS:
                    out.append(Case("resp", cfg, f"resp {cfg} {variant} - {cap} -", tag="parameter-less, huge buffer"))
                    out.append(Case("resp", cfg, f"resp {cfg} {variant} - {cap} 7f00ff", tag="parameter-less, huge reused buffer"))
                for prior in ("7f", "2e", "01", "00", "ff" * 64, "39a0", "00a10102", "a07f" * 4):
                    for cap in (64, 8192):
                        out.append(Case("resp", cfg, f"resp {cfg} {variant} - {cap} {prior}", tag="parameter-less, reused buffer"))
                continue
            t = {"named": payload}
            r = g.s.res(t)
            n = len(r["fields"])
            if variant in default_values(ctx, cfg):
                dvv = default_values(ctx, cfg)[variant]
                out.append(Case("resp", cfg, f"resp {cfg} {variant} {show(dvv)} 8192 -", tag=f"{variant} Default::default()"))
            usable = [i for i, f in enumerate(r["fields"]) if f["rust"] in r["rust"]["pub_fields"]]
            optional = [i for i in usable if g.s.is_opt_field(r, r["fields"][i])]
            if len(optional) <= 12 and (ctx.tier == "thorough" or len(optional) <= 7):
                subsets = [set(o for j, o in enumerate(optional) if (m >> j) & 1) for m in range(1 << len(optional))]
            else:
                subsets = [set(), set(optional)] + [{o} for o in optional] + \
                          [{a, b} for a in optional for b in optional if a < b]
                if ctx.tier == "quick" and len(subsets) > 150:
                    subsets = subsets[:2 + len(optional)] + rng.sample(subsets[2 + len(optional):], 100)
                subsets += [set(rng.sample(optional, rng.randint(0, len(optional)))) for _ in range(20 * boost)]
            for sub in subsets:
                for attempt in range(4):
                    full = g.rand_val(t, p_opt=1.0)
                    slots = [(full[1][i] if (i in usable and (i not in optional or i in sub)) else None) for i in range(n)]
                    v = ('r', slots)
                    if g.val_buildable(t, v):
                        out.append(Case("resp", cfg, f"resp {cfg} {variant} {show(v)} 8192 -", tag=f"{variant} subset"))
                        if attempt == 0 and (len(sub) <= 1 or len(sub) == len(optional)):
                            for cap in HUGE_CAPS:       # capacities beyond 16-bit lengths
                                out.append(Case("resp", cfg, f"resp {cfg} {variant} {show(v)} {cap} {rng.choice(['-', '7f', '00a0'])}", tag=f"{variant} huge buffer"))
                        if attempt == 0 and len(sub) <= 1:
                            # the buffer's previous content (a reused buffer) does not matter
                            for prior in ('a07f' * 4, "7f", "2e", "ff" * 40):
                                out.append(Case("resp", cfg, f"resp {cfg} {variant} {show(v)} 8192 {prior}", tag=f"{variant} reused buffer"))
                        if variant == "GetAssertion":
                            out.append(Case("resp", cfg, f"resp {cfg} GetNextAssertion {show(v)} 8192 -", tag="GetNextAssertion"))
                        break
    return out


# =============================================================================== C16
def embed_val(sa, sb, ta, tb, v, drop=False):
    """the value `v` of type ta (schema sa) seen in schema sb: same members, new ones unset.
    None when a member of ta that is set has no counterpart in tb — or, with drop=True, that member is
    left out (the restriction of a value of the larger configuration to the members of the smaller one)."""
    if v is None:
        return None
    ra, rb = sa.res(ta), sb.res(tb)
    if "vec" in ra and "vec" in rb:
        xs = [embed_val(sa, sb, ra["elem"], rb["elem"], x, drop) for x in v[1]]
        return None if any(x is None for x in xs) else ('l', xs)
    if "untagged" in ra and "untagged" in rb:
        if v[1] >= len(rb["untagged"]):
            return None
        x = embed_val(sa, sb, ra["untagged"][v[1]]["ty"], rb["untagged"][v[1]]["ty"], v[2], drop)
        return None if x is None else ('v', v[1], x)
    if "fields" in ra and "fields" in rb:
        byname = {f["rust"]: (f, slot) for f, slot in zip(ra["fields"], v[1])}
        names_b = {f["rust"] for f in rb["fields"]}
        for n, (f, slot) in byname.items():
            if slot is not None and n not in names_b and not drop:
                return None
        slots = []
        for fb in rb["fields"]:
            if fb["rust"] in byname and byname[fb["rust"]][1] is not None:
                fa, slot = byname[fb["rust"]]
                x = embed_val(sa, sb, fa["ty"], fb["ty"], slot, drop)
                if x is None:
                    return None
                slots.append(x)
            else:
                slots.append(None)
        return ('r', slots)
    return v


def cfg_le(a, b):
    return all(x <= y for x, y in zip(a, b))


def cases_c16(ctx, boost):
    from pymodel import parse
    out = []
    allc = ["000", "001", "010", "011", "100", "101", "110", "111"]
    if ctx.tier == "quick" and not getattr(ctx, "use_baseline", False):
        pairs = [("000", "111")]
    else:
        # thorough tier — and the search for a failing input once an obligation has failed: a member gated
        # on one feature but numbered by another only shows between the mixed configurations
        pairs = [(a, b) for a in allc for b in allc if a != b and cfg_le(a, b)]
    for a, b in pairs:
        # "the same member" is a statement about the source's member names: values are generated from,
        # and moved between, the schemas of the tree as it is; the specification oracle (which reads
        # member lists positionally) only has a verdict where the regenerated schema is the pinned one
        ga, gb = ctx.gen(a, salt=int(b, 2) + 1, actual=True), ctx.gen(b, actual=True)
        oa, ob = ctx.matches_baseline(a), ctx.matches_baseline(b)
        rng = ga.rng
        sa, sb = ga.s, gb.s
        sja, sjb = ctx.data["schemas"][a], ctx.data["schemas"][b]

        def pair(ca, cb, fn=None):
            ca.oracle_applies, cb.oracle_applies = oa, ob
            cb.same_as = ca
            if fn is not None:
                cb.same_fn = fn
            out.append(ca)
            out.append(cb)

        # ---- responses: identical bytes
        vb = dict((v, p) for v, p in sjb["variants"]["response_variants"])
        for variant, payload in sja["variants"]["response_variants"]:
            if variant not in vb:
                continue
            if payload is None:
                pair(Case("resp", a, f"resp {a} {variant} - 64 -", tag="resp parameter-less"),
                     Case("resp", b, f"resp {b} {variant} - 64 -", tag="resp parameter-less"))
                continue
            ta, tb = {"named": payload}, {"named": vb[variant]}
            vals = [sa.min_value(ta)]
            r = sa.res(ta)
            # every single optional member alone, then random subsets
            usable = [i for i, f in enumerate(r["fields"]) if f["rust"] in r["rust"]["pub_fields"]]
            for i in usable:
                if sa.is_opt_field(r, r["fields"][i]):
                    full = ga.rand_val(ta, p_opt=1.0)
                    mn = sa.min_value(ta)
                    vals.append(('r', [full[1][j] if j == i else mn[1][j] for j in range(len(mn[1]))]))
            for _ in range(12 * boost):
                vals.append(ga.rand_val(ta, p_opt=rng.choice([0.3, 0.7, 1.0])))
            for _ in range(2):      # every member present and at its capacity
                vals.append(extreme_val(ga, ta, ga.rand_val(ta, p_opt=1.0), True))
            for v in vals:
                if not ga.val_buildable(ta, v):
                    continue
                e = embed_val(sa, sb, ta, tb, v)
                if e is None or not gb.val_buildable(tb, e):
                    continue
                pair(Case("resp", a, f"resp {a} {variant} {show(v)} 8192 -", tag=f"resp {variant}"),
                     Case("resp", b, f"resp {b} {variant} {show(e)} 8192 -", tag=f"resp {variant}"))
        # ---- `Default::default()` of each response kind: the larger configuration's default, restricted to the
        #      members of the smaller one, is the smaller one's default (both rendered in the smaller configuration)
        da, db = default_values(ctx, a), default_values(ctx, b)
        for variant, payload in sja["variants"]["response_variants"]:
            if payload and variant in vb and variant in da and variant in db:
                ta, tb = {"named": payload}, {"named": vb[variant]}
                w = embed_val(sb, sa, tb, ta, db[variant], drop=True)
                if w is not None and ga.val_buildable(ta, da[variant]) and ga.val_buildable(ta, w):
                    pair(Case("resp", a, f"resp {a} {variant} {show(da[variant])} 8192 -", tag=f"Default::default() of {variant} in {a}"),
                         Case("resp", a, f"resp {a} {variant} {show(w)} 8192 -", tag=f"Default::default() of {variant} in {b}, restricted to the members of {a}"))
        # ---- authenticator data with extension outputs: identical bytes
        for fl in ("MC", "GA"):
            ta, tb = {"named": sa.roles["adExt" + fl]}, {"named": sb.roles["adExt" + fl]}
            for _ in range(10 * boost):
                v = ga.rand_val(ta, p_opt=rng.choice([0.3, 1.0]))
                e = embed_val(sa, sb, ta, tb, v)
                if e is None:
                    continue
                rp = rng.randbytes(32).hex()
                mask, cnt = rng.randrange(16), rng.randrange(2 ** 32)
                pair(Case("adat", a, f"adat {a} {fl} {rp} {mask} {cnt} - {show(v)}", tag="authData " + fl),
                     Case("adat", b, f"adat {b} {fl} {rp} {mask} {cnt} - {show(e)}", tag="authData " + fl))
        # ---- requests: equal values
        vrb = dict((v, p) for v, p in sjb["variants"]["request_variants"])
        for variant, payload in sja["variants"]["request_variants"]:
            if not payload or payload == "vendor" or variant not in vrb:
                for cb_ in CMD_BYTE.get(variant, [])[:1]:
                    pair(Case("req", a, f"req {a} {cb_:02x}", tag="req parameter-less"),
                         Case("req", b, f"req {b} {cb_:02x}", tag="req parameter-less"))
                continue
            ta, tb = {"named": payload}, {"named": vrb[variant]}

            def expect(impl_a, ta=ta, tb=tb, sa=sa, sb=sb):
                w = impl_a.split(" ")
                if w[0] != "ok" or len(w) != 3:
                    return None         # rejected in the smaller configuration: C12 / C05 territory
                e = embed_val(sa, sb, ta, tb, parse(w[2]))
                return None if e is None else f"ok {w[1]} {show(e)}"

            for tag, body in request_messages(ga, variant, payload, 16 * boost, subsets=True):
                for cb_ in CMD_BYTE.get(variant, []):
                    pair(Case("req", a, f"req {a} {cb_:02x}{body.hex()}", tag=f"req {variant} {tag}"),
                         Case("req", b, f"req {b} {cb_:02x}{body.hex()}", tag=f"req {variant} {tag}"), expect)
        # ---- LargeBlobs `set` fragments around the feature-dependent fragment constant (a request uses common members only)
        if "LargeBlobs" in vrb:
            from pymodel import head as chead
            lbc = ctx.data["tables"]["consts"].get("LARGE_BLOB_MAX_FRAGMENT_LENGTH", {})
            lens = sorted({0, 1, 23, 24, 255, 256, 1024, 4000, 7000} | {x + d for x in lbc.values() for d in (-1, 0, 1) if 0 <= x + d <= 7000})
            for L in lens:
                body = chead(5, 3) + bytes([2]) + chead(2, L) + rng.randbytes(L) + bytes([3]) + chead(0, 0) + bytes([4]) + chead(0, L)
                pair(Case("req", a, f"req {a} 0c{body.hex()}", tag="req LargeBlobs set fragment"),
                     Case("req", b, f"req {b} 0c{body.hex()}", tag="req LargeBlobs set fragment"), lambda x: x)
        # ---- every (de)serialisable type reachable from the roles
        refs_b = {key: path for path, key, _ in gb.all_refs()}
        for path, key, t in ga.all_refs():
            if key not in refs_b:
                continue
            r = sa.res(t)
            tb = {"named": key}
            for _ in range(4 * boost):
                v = ga.rand_val(t, p_opt=rng.choice([0.2, 0.6, 1.0]))
                e = embed_val(sa, sb, t, tb, v)
                if e is None:
                    continue
                if r["caps"]["ser"] and ga.val_buildable(t, v) and gb.val_buildable(tb, e):
                    pair(Case("enc", a, f"enc {a} {key} {show(v)}", f"enc {a} {path} {show(v)}", tag="type enc"),
                         Case("enc", b, f"enc {b} {key} {show(e)}", f"enc {b} {refs_b[key]} {show(e)}", tag="type enc"))
                if r["caps"]["de"]:
                    try:
                        bts = casegen.enc_item(ga.wire_item(t, v, lossy=0.3))
                    except (ValueError, TypeError, IndexError):
                        continue

                    def expect_d(impl_a, t=t, tb=tb, sa=sa, sb=sb):
                        w = impl_a.split(" ")
                        if w[0] != "ok" or len(w) != 2:
                            return None
                        e = embed_val(sa, sb, t, tb, parse(w[1]))
                        return None if e is None else f"ok {show(e)}"
                    pair(Case("dec", a, f"dec {a} {key} {bts.hex()}", f"dec {a} {path} {bts.hex()}", tag="type dec"),
                         Case("dec", b, f"dec {b} {key} {bts.hex()}", f"dec {b} {refs_b[key]} {bts.hex()}", tag="type dec"),
                         expect_d)
    return out


# =============================================================================== C04
PARAM_BYTES = [0x01, 0x02, 0x06, 0x0A, 0x0C, 0x41]


def np(case):
    case.expect_no_panic = True
    return case


def cases_c04(ctx, boost):
    out = []
    for cfg in ctx.cfgs(("000", "111")):
        g = ctx.gen(cfg)
        rng = g.rng
        # ---- exhaustive short inputs (digest + outcome classes, impl = model = oracle)
        for n in (0, 1, 2):
            out.append(np(Case("sweep", cfg, f"sweep {cfg} - {n}", tag=f"all inputs of length {n}")))
        if ctx.tier == "thorough":
            for b in range(256):
                out.append(np(Case("sweep", cfg, f"sweep {cfg} {b:02x} 2", tag="all inputs of length 3")))
            for b in (PARAM_BYTES if cfg in ("000", "111") else []):
                for b2 in range(256):
                    out.append(np(Case("sweep", cfg, f"sweep {cfg} {b:02x}{b2:02x} 2", tag="length 4, parameter-bearing command")))
        else:
            for b in PARAM_BYTES:
                out.append(np(Case("sweep", cfg, f"sweep {cfg} {b:02x} 2", tag="length 3, parameter-bearing command")))
            # a slice of length 4: map / array / string heads after the command byte
            for b in PARAM_BYTES:
                for b2 in (0xa1, 0xa2, 0xbf, 0x81, 0x9f, 0x5f, 0x7f, 0xb8, 0xb9, 0xba, 0xbb):
                    out.append(np(Case("sweep", cfg, f"sweep {cfg} {b:02x}{b2:02x} 2", tag="length 4 slice")))
        # ---- well-formed messages under byte-level mutation at every offset
        msgs = []
        for variant, payload in ctx.data["schemas"][cfg]["variants"]["request_variants"]:
            if not payload or payload == "vendor":
                continue
            per = []
            for tag, body in request_messages(g, variant, payload, 3 * boost, subsets=False, huge=False):
                for cb in CMD_BYTE.get(variant, [])[:1]:
                    per.append((variant, bytes([cb]) + body))
            if cfg in ("000", "111"):
                for tag, body in request_messages(g, variant, payload, 0, subsets=False):
                    if len(body) > 60000:
                        for cb in CMD_BYTE.get(variant, [])[:1]:
                            for m_ in (bytes([cb]) + body, bytes([cb]) + body[:-1], bytes([0x04]) + body, bytes([0x3f]) + body):
                                out.append(np(Case("req", cfg, f"req {cfg} {m_.hex()}", tag=f"{variant} {tag}")))
            full = g.rand_val({"named": payload}, p_opt=1.0)
            for cb in CMD_BYTE.get(variant, [])[:1]:
                per.append((variant, bytes([cb]) + casegen.enc_item(g.wire_item({"named": payload}, full, lossy=0.0))))
            msgs += per
        allb = [m for _, m in msgs]
        for variant, m in msgs:
            out.append(np(Case("req", cfg, f"req {cfg} {m.hex()}", tag=f"{variant} well-formed")))
            if len(m) <= 2000:
                positions = range(0, len(m), 1 if (ctx.tier == "thorough" or len(m) < 400) else 3)
            else:
                # a maximal-size message: its structure sits at the two ends, the middle is one long string
                positions = sorted(set(range(0, 64)) | set(range(len(m) - 24, len(m))) | set(range(64, len(m) - 24, len(m) // 100)))
            for i in positions:
                out.append(np(Case("req", cfg, f"req {cfg} {m[:i].hex() or '-'}", tag="truncate")))
                fl = bytearray(m); fl[i] ^= 1 << rng.randrange(8)
                out.append(np(Case("req", cfg, f"req {cfg} {bytes(fl).hex()}", tag="flip")))
                out.append(np(Case("req", cfg, f"req {cfg} {(m[:i] + m[i + 1:]).hex() or '-'}", tag="delete")))
                ins = bytes([rng.choice([rng.randrange(256), 0x1b, 0x5b, 0x7b, 0x9b, 0xbb, 0xbf, 0x9f, 0x7f, 0xff, 0xf6, 0x78, 0x58])])
                out.append(np(Case("req", cfg, f"req {cfg} {(m[:i] + ins + m[i:]).hex()}", tag="insert")))
                if i % 4 == 0:
                    o = rng.choice(allb)
                    j = rng.randrange(len(o))
                    sp = (m[:i] + o[j:])[:7609]
                    out.append(np(Case("req", cfg, f"req {cfg} {sp.hex()}", tag="splice")))
                    st = bytearray(m); st[i] = rng.choice([0x00, 0x17, 0x18, 0x1f, 0x40, 0x5f, 0x60, 0x7f, 0x80, 0x9f, 0xa0, 0xbf, 0xc0, 0xf4, 0xf6, 0xf7, 0xff])
                    out.append(np(Case("req", cfg, f"req {cfg} {bytes(st).hex()}", tag="set head byte")))
        # ---- deep nesting up to the message size limit, in skipped and in typed positions
        for depth in ([16, 300, 2000, 7590] if ctx.tier == "quick" else [1, 2, 16, 64, 300, 1000, 2000, 4000, 7000, 7590, 7600]):
            for cb, hostkey in ((1, "07"), (2, "05")):             # options map of MakeCredential / GetAssertion
                pre = bytes([cb]) + bytes.fromhex("a1" + hostkey + "a1627a7a")
                room = 7609 - len(pre) - 1
                d = min(depth, room)
                for nm, unit, tail in (("arrays", b"\x81", b"\x00"), ("tags", b"\xc0", b"\x00"),
                                       ("indefinite arrays", b"\x9f", b"\xff"), ("text heads", b"\x7f", b"\xff")):
                    body = unit * d + tail
                    out.append(np(Case("req", cfg, f"req {cfg} {(pre + body).hex()}", tag=f"deep {nm} (skipped position)")))
                dm = min(depth, room // 2)
                A1, Z, A101, A81 = bytes([0xa1]), bytes([0]), bytes([0xa1, 1]), bytes([0x81])
                out.append(np(Case("req", cfg, f"req {cfg} {(pre + A1 * dm + Z * (dm + 1)).hex()}", tag="deep maps (skipped position)")))
                out.append(np(Case("req", cfg, f"req {cfg} {(bytes([cb]) + A101 * min(depth, 3800) + Z).hex()}", tag="deep maps (typed position)")))
                out.append(np(Case("req", cfg, f"req {cfg} {(bytes([cb]) + A81 * min(depth, 7600) + Z).hex()}", tag="deep arrays (typed position)")))
        # ---- long strings / byte strings / lists: heads that promise more than is there, and maximal real lengths
        for cb in PARAM_BYTES:
            for head_ in ("5a7fffffff", "5affffffff", "5bffffffffffffffff", "7affffffff", "7bffffffffffffffff", "9affffffff",
                          "9bffffffffffffffff", "baffffffff", "bbffffffffffffffff", "bb0000000000000001", "1bffffffffffffffff",
                          "3bffffffffffffffff", "fb7ff0000000000000", "f97c00", "d9d9f7a0", "ff"):
                out.append(np(Case("req", cfg, f"req {cfg} {cb:02x}{head_}", tag="oversized head")))
                out.append(np(Case("req", cfg, f"req {cfg} {cb:02x}a101{head_}", tag="oversized head (member 1)")))
                out.append(np(Case("req", cfg, f"req {cfg} {cb:02x}a102{head_}{'00' * 40}", tag="oversized head (member 2)")))
            big = 7609 - 8
            out.append(np(Case("req", cfg, f"req {cfg} {cb:02x}a10159{big - 4:04x}{'41' * (big - 4)}", tag="maximal byte string")))
            out.append(np(Case("req", cfg, f"req {cfg} {cb:02x}a10279{big - 4:04x}{'41' * (big - 4)}", tag="maximal text string")))
            out.append(np(Case("req", cfg, f"req {cfg} {cb:02x}a10399{(big - 4):04x}{'00' * (big - 4)}", tag="maximal list")))
    # ---- hundreds of entries in the two lossy lists (counters, accumulators), in a request and stand-alone
    for cfg in ctx.cfgs(("000", "111")):
        g = ctx.gen(cfg, salt=77)
        rng = g.rng
        refs = {key: path for path, key, _ in g.all_refs()}
        fkey = [k for k in refs if k.endswith("FilteredPublicKeyCredentialParameters")][0]
        akey = [k for k in refs if k.endswith("AttestationFormatsPreference")][0]
        from pymodel import head as chead, ctext, cint
        def entry(alg, ty):
            return chead(5, 2) + ctext("alg") + cint(alg) + ctext("type") + ctext(ty)
        for n in (255, 256, 257, 300):
            for mix in ("unknown", "repeat", "mixed"):
                ents = b"".join(entry(-257 if mix == "unknown" else (-7 if mix == "repeat" else rng.choice([-7, -8, -257, -35])), "public-key")
                                for _ in range(n))
                lst = chead(4, n) + ents
                out.append(np(Case("dec", cfg, f"dec {cfg} {fkey} {lst.hex()}", f"dec {cfg} {refs[fkey]} {lst.hex()}", tag=f"params list of {n} ({mix})")))
                if len(lst) < 7300:
                    mc = bytes([1]) + chead(5, 4) + bytes([1]) + chead(2, 32) + bytes(32) + bytes([2]) + chead(5, 1) + ctext("id") + ctext("example.org") + \
                        bytes([3]) + chead(5, 1) + ctext("id") + chead(2, 1) + b"u" + bytes([4]) + lst
                    out.append(np(Case("req", cfg, f"req {cfg} {mc.hex()}", tag=f"MakeCredential with {n} parameters ({mix})")))
            fm = chead(4, n) + b"".join(ctext(rng.choice(["packed", "none", "tpm"]) if n % 2 else "packed") for _ in range(n))
            out.append(np(Case("dec", cfg, f"dec {cfg} {akey} {fm.hex()}", f"dec {cfg} {refs[akey]} {fm.hex()}", tag=f"formats list of {n}")))
    # ---- structure-level mutation: every bounded member across its limit (shared with C12)
    for c in cases_c12(ctx, boost):
        out.append(np(c))
    # ---- the two lossy list readers at and beyond their capacity (shared with C14)
    for c in cases_c14(ctx, boost):
        out.append(np(c))
    # ---- names and icons around their cut (every character width, boundary scalars, special fragments; shared with C13):
    #      the scan for a character boundary ends in `unwrap_unchecked`
    import copy
    cq = copy.copy(ctx)
    cq.tier = "quick"           # the quick-tier family also in C04's thorough tier (C13's own thorough tier has the full one)
    for c in cases_c13(cq, boost):
        out.append(np(c))
    # ---- every public type through cbor_deserialize::<T>: values and random mutations
    for cfg in ctx.cfgs(("000", "111")):
        for c in wire_cases(ctx, cfg, 2 * boost, kinds=("dec", "extra", "mut"), salt=404):
            out.append(np(c))
    return out


# =============================================================================== C19
ARB_TYPED = ["webauthn::PublicKeyCredentialRpEntity", "webauthn::PublicKeyCredentialUserEntity",
             "webauthn::FilteredPublicKeyCredentialParameters", "ctap2::AttestationFormatsPreference",
             "ctap2::get_assertion::HmacSecretInput"]
ARB_WHOLE = ["ctap2::Request", "ctap1::Request", "authenticator::Request"]


def arb_inputs(rng, tier, boost):
    """(tag, bytes) — the property's input families"""
    out = []
    lens = [0, 1, 2, 7, 8, 9, 12, 16, 40, 64, 65, 128, 129, 256, 257, 300, 1024, 4096]
    for L in lens:
        out.append(("all-zero", bytes(L)))
        out.append(("all-0xFF", b"\xff" * L))
    reps = range(256) if tier == "thorough" else [1, 2, 3, 0x41, 0x7f, 0x80, 0xbf, 0xc2, 0xdf, 0xe0, 0xe2, 0xed, 0xef, 0xf0, 0xf4, 0xf5, 0xfe]
    for b in reps:
        for L in ([8, 9, 64, 300, 4096] if tier == "thorough" else [9, 300]):
            out.append(("single byte repeated", bytes([b]) * L))
    scal = [b"a", b"z", "é".encode(), "ß".encode(), "€".encode(), "語".encode(), "𝄞".encode(), "😀".encode()]
    bad = [b"\xc0\x80", b"\xe0\x80\x80", b"\xed\xa0\x80", b"\xf4\x90\x80\x80", b"\xf0\x9f\x98", b"\xe2\x82", b"\xc3",
           b"\x80", b"\xbf", b"\xff", b"\xf8\x88\x80\x80\x80"]

    def text(n, p_bad):
        t = b""
        while len(t) < n:
            t += rng.choice(bad) if rng.random() < p_bad else rng.choice(scal)
        return t

    def word(v):
        return (v & (2 ** 64 - 1)).to_bytes(8, "little")

    for _ in range(60 * boost):
        L = rng.choice([3, 8, 20, 70, 140, 300, 1000, 4096])
        out.append(("random", rng.randbytes(L)))
    for _ in range(120 * boost):
        # length word, then text that is longer than / around the capacities 64, 128, 256
        cap = rng.choice([32, 64, 80, 128, 256])
        n = rng.choice([cap - 1, cap, cap + 1, cap + 2, cap + 3, 2 * cap, 2 ** 64 - 1, 2 ** 32, rng.randrange(0, 400)])
        pre = rng.choice(scal[:2]) * rng.randrange(0, 4)
        body = pre + text(rng.choice([cap + 8, 2 * cap, 10, 400]), rng.choice([0.0, 0.0, 0.05, 0.3]))
        tail = b"".join(rng.choice([bytes([rng.randrange(256)]), word(rng.randrange(0, 300)), text(rng.randrange(0, 90), 0.1)])
                        for _ in range(rng.randrange(0, 12)))
        out.append(("length word + multi-byte text", word(n) + body + tail))
        out.append(("bool + length word + text", bytes([rng.randrange(256)]) + word(n) + body + tail))
    # inputs longer than one CTAP message and longer than 2^16 bytes: long texts of every character width at every alignment
    # (a character straddles any fixed byte offset for one of the prefixes), long byte runs, length words beyond the message size
    for total in (7700, 9000, 20000, 70000):
        for ch in scal[2:]:
            for pre in range(len(ch)):
                out.append(("long multi-byte text", b"a" * pre + ch * (total // len(ch))))
                out.append(("length word + long multi-byte text", word(total) + b"a" * pre + ch * (total // len(ch)) + bytes(16)))
        out.append(("long zero run", bytes(total)))
        out.append(("long 0x01 run", b"\x01" * total))
        for tail in (b"\x1e\x14", b"\xff\xff", b"\x00\x00\x1e\x14", b"\x14\x1e\x00\x00", b"\x03" * 8):
            out.append(("long run with slice lengths at the end", b"\x01" * 64 + rng.randbytes(total) + tail * 6))
    # the length window ends inside a character, and what follows is NOT that character's continuation
    for n in list(range(1, 34)) + [63, 64, 65, 127, 128, 129, 200, 255]:
        for ch in scal[2:]:
            for keep in range(1, len(ch)):
                if keep > n:
                    continue
                for follow in (b"A", b"\xc3A", b"\xff", b"", ch):
                    body = b"a" * (n - keep) + ch[:keep] + follow + b"zz"
                    for lead in (b"", b"\x01"):
                        out.append(("window ends inside a character", lead + word(n) + body + bytes(8)))
    for _ in range(80 * boost):
        # many small draws: bools / counts / selectors / short texts
        parts = []
        for _ in range(rng.randrange(1, 40)):
            parts.append(rng.choice([bytes([rng.randrange(256)]), bytes([rng.randrange(4)]), word(rng.randrange(0, 70)),
                                     rng.randbytes(4), text(rng.randrange(0, 70), 0.1), b"\x01", b"\x03"]))
        out.append(("structured draws", b"".join(parts)[:4096]))
    return out


def cases_c19(ctx, boost):
    out = []
    g = ctx.gen("000")
    rng = g.rng
    feats = ("arbitrary",)
    inputs = arb_inputs(rng, ctx.tier, boost)
    for tag, b in inputs:
        hx = b.hex() or "-"
        for ty in ARB_TYPED:
            # the model's value is the tie (correspondence); the property's oracle is validity (np)
            out.append(np(Case("arb", "000", f"arb {ty} {hx}", tag=f"{ty.split('::')[-1]}: {tag}", feats=feats, oracle_applies=False)))
        for ty in ARB_WHOLE:
            # steer the derived enums to every variant: the selector is the first u32 (little endian)
            out.append(np(Case("arb", "000", f"arb {ty} {hx}", tag=f"{ty}: {tag}", feats=feats)))
            if tag in ("length word + multi-byte text", "structured draws", "random", "long multi-byte text", "length word + long multi-byte text",
                       "long run with slice lengths at the end", "long 0x01 run"):
                nvar = {"ctap2::Request": 11, "ctap1::Request": 3, "authenticator::Request": 2}[ty]
                v = rng.randrange(nvar)
                sel = ((v * 2 ** 32 + nvar - 1) // nvar).to_bytes(4, "little")
                sel2 = ((rng.randrange(11) * 2 ** 32 + 10) // 11).to_bytes(4, "little") if ty == "authenticator::Request" else b""
                end = bytes([rng.randrange(0, 40)]) * rng.randrange(0, 3)          # slice lengths are read from the end
                out.append(np(Case("arb", "000", f"arb {ty} {(sel + sel2 + b + end).hex()}", tag=f"{ty}: variant-steered {tag}", feats=feats)))
    # a trailing text member that takes the rest of the input (`arbitrary_take_rest`): every variant, k bytes for the
    # members before it, then several hundred bytes of well-formed multi-byte text
    ks = range(0, 160) if (ctx.tier == "thorough" or boost > 1) else range(0, 96)
    for v in range(11):
        sel = ((v * 2 ** 32 + 10) // 11).to_bytes(4, "little")
        for k in ks:
            # members before it: all absent / zero with the last flag set; all present; mixed
            fills = [bytes(max(k - 1, 0)) + b"\x01" * min(k, 1), b"\x01" * k, bytes(rng.choice([1, 0xff, 3, 0x81, 0]) for _ in range(k)), b"\xff" * k]
            for fi, fill in enumerate(fills):
                ch = rng.choice(["é", "語", "😀", "ß€"]).encode()
                pre = b"a" * rng.choice([0, 0, 252, 250, 127, 31])
                body = sel + fill + pre + ch * (420 // len(ch))
                out.append(np(Case("arb", "000", f"arb ctap2::Request {body.hex()}", tag="ctap2::Request: variant-steered, members then long multi-byte text", feats=feats)))
                if (k + fi) % 3 == 0:
                    out.append(np(Case("arb", "000", f"arb authenticator::Request ffffffff{body.hex()}",
                                       tag="authenticator::Request: variant-steered, members then long multi-byte text", feats=feats)))
    # ... and the same with texts longer than a CTAP message / than 2^16 bytes
    for v in range(11):
        sel = ((v * 2 ** 32 + 10) // 11).to_bytes(4, "little")
        for k in list(range(0, 24)) + [32, 40, 64]:
            for fill in (bytes(max(k - 1, 0)) + b"\x01" * min(k, 1), b"\x01" * k):
                ch = rng.choice(["é", "語", "😀"]).encode()
                total = rng.choice([7700, 9000, 70000])
                body = sel + fill + b"a" * rng.randrange(len(ch)) + ch * (total // len(ch))
                out.append(np(Case("arb", "000", f"arb ctap2::Request {body.hex()}", tag="ctap2::Request: variant-steered, members then very long multi-byte text", feats=feats)))
    if ctx.tier == "thorough":
        for cfg in ("111",):
            for tag, b in inputs[::3]:
                for ty in ARB_WHOLE:
                    out.append(np(Case("arb", cfg, f"arb {ty} {b.hex() or '-'}", tag=f"{ty}: {tag} (all features)", feats=feats)))
    return out


NOT_YET = {}

PROPS = {
    "C02": {"ns": "C02", "cases": cases_c02, "uses": ["e1", "responseSerialize_spec", "responseSerialize_empty"],
            "level_text": "Proof. Obligation: the six response schemas regenerated from the source equal the specification's "
                          "member tables (key = position + 1, type, optionality) in all 8 configurations (Ob.respRoles_eq), are "
                          "integer-keyed with offset 1, and cannot write null (noNull: every member that may be unset is skipped "
                          "when unset). Theorem message (E1 + C17 framing): for every response kind with a body, every value an "
                          "authenticator can build and every sufficiently large buffer, the output is 0x00 followed by encC of the "
                          "map whose entries are exactly the set members, each once, under its key, with toC of its value — or the "
                          "status byte alone when no member is set; never_null (mutual induction): no null at any depth; "
                          "parameterless: Reset / Selection / Vendor => [0x00]; GetNextAssertion shares GetAssertion's body. Both "
                          "attestation-statement shapes and all four COSE key kinds are constructors of the value universe.",
            "rule": "every response variant × every subset of optional members (2^k when k <= 7 quick / 12 thorough; else empty, "
                    "full, singletons, pairs (sampled in quick), random) × random member values incl. both attestation "
                    "statement shapes and the four COSE key kinds",
            "assumptions": ["make_credential::UnsignedExtensionOutputs cannot be constructed outside the crate: always unset"]},
    "C03": {"ns": "C03", "cases": cases_c03, "uses": ["e1", "canon_toC", "allKeysGt_toC", "canon_cCose", "keyLt_wire", "canon_wireCanon", "deepKeys_toC", "ctapLt_encHead"],
            "level_text": "Proof. E1 (Ctap/Canon.lean): for every schema and every serialisable value the serializer model writes "
                          "exactly encC (toC t v), the shortest-form definite-length encoding of one item of a universe that has "
                          "no tags, floats, undefined or indefinite lengths. G-CANON (canon_toC): if every PAIR of serialisable "
                          "members of every struct of the schema is declared in CTAP2 canonical key order (sortedKeys — the "
                          "property's own sufficiency argument, proved: allKeysGt_toC), then for every subset of present members "
                          "[and G-ORDER (Ctap/KeyOrder.lean, keyLt_wire / canon_wireCanon): that key order IS the CTAP2 rule on "
                          "the encoded key bytes — major type, then length, then bytewise — for shortest-form integer, "
                          "byte-string and text keys, so at every depth the encoded keys are strictly increasing on the wire] "
                          "and every nesting level the item's map keys are strictly increasing (hence distinct); COSE keys 1,3,-1,"
                          "-2,-3 are canonical for all four kinds. Obligations (decide +kernel): sortedKeys holds for all 6 "
                          "response schemas, both authenticator-data extension maps and the 3 serialisable requests, in all 8 "
                          "configurations. These obligations were false on the pinned tree for CtapOptions and Certifications "
                          "under get-info-full: two genuine defects, repaired (known_findings.json). keyLt states the canonical "
                          "order per key kind (numeric for shortest-form integer keys, (length, bytewise) for text keys); the "
                          "correspondence checks the byte-level rule (major, encoded length, bytewise) on the real output with an "
                          "independent checker.",
            "rule": "every serialisable type × every pair of optional members set together (sampled to 120 pairs + all adjacent "
                    "pairs in quick for GetInfo-full) + random values; whole responses through Response::serialize; integer "
                    "thresholds; every real output byte string checked by tools/canoncheck.py",
            "assumptions": ["keyLt on integer keys is numeric order = (length, bytewise) order of shortest-form heads (not proved "
                            "at byte level in Lean; checked at byte level by the independent checker on every output)"]},
    "C05": {"ns": "C05", "cases": cases_c05,
            "uses": ["decHead_reserved", "readArg_nonminimal", "decHead_wrong_major", "bytes_exact", "str_exact", "vec_exact",
                     "uint_exact", "i32_exact", "byteArray_exact", "wrong_major_bytes", "wrong_major_str", "wrong_major_uint",
                     "wrong_major_vec", "wrong_major_struct", "steps_err", "indexed_message", "requiredOk_false", "oneStep_dup",
                     "oneStep_fails", "failsWith_of_decode"],
            "level_text": "Proof (PARTIAL for truncation). three_codes: every rejection of every byte string carries 0x01, 0x12 or "
                          "0x14 (case analysis of the request model over the generated error mapping). bad_command: unassigned / "
                          "unsupported command bytes => 0x01 whatever follows (C11). empty_message => 0x12. missing_required: a "
                          "parameter map readable entry by entry, in any member order, that lacks a required member => missing "
                          "(0x14), never accepted; nested faults propagate outwards with their kind (first fault wins: steps_err, "
                          "over_limit_in_message). duplicate_key => 0x12. nonminimal_head / decHead_reserved: non-minimal, "
                          "indefinite (31) and reserved (28-30) heads are refused by every reader for every major type. Wrong "
                          "major type, over-capacity and out-of-range values => other (G-CAP). NOT PROVED: 'every proper prefix of "
                          "a valid message => 0x12' (G-PREFIX) — enumerated by the correspondence at every byte offset instead.",
            "rule": "all 256 command bytes (alone / + empty map); for every command, seeds × {truncate at every offset, remove "
                    "each member at each depth, duplicate each key (adjacent and at end), widen each head, make each container "
                    "indefinite, replace each value by 7 other types}",
            "assumptions": ["statuses of faults inside the COSE key follow the cosey model (App. A)"]},
    "C06": {"ns": "C06", "cases": cases_c06,
            "level_text": "Proof. G-SKIP (Ctap/SkipThm.lean, skipOne_item): Deserializer::ignore consumes exactly one well-formed "
                          "definite-length item of any kind — integers of any width, strings, arrays, maps, tags, floats 16/32/64, "
                          "simple values — at any nesting depth (mutual structural induction on an Item universe; fuel = input "
                          "length proved sufficient). G-UNK / text_message (Ctap/MsgThm.lean): in a text-keyed struct, entries in "
                          "any order interleaved at any positions with unknown text-keyed members decode to what the known "
                          "entries alone decode to (unknown_skipped), consuming exactly the map; lift carries the equality to "
                          "the enclosing struct. Obligations: the 10 host sites are text-keyed structs with the specification's "
                          "known keys in all 8 configurations, and the six real-world extra names match no key / alias of any "
                          "host. Correspondence: an unknown member at every position of every host of every command, values "
                          "from the full grammar incl. nesting depth 16, compared against the same request without it.",
            "rule": "every text-keyed struct reachable in a request × every insertion position × {shallow random item, item nested "
                    "1/4/16 levels} with real-world and arbitrary unknown names; oracle = decodes exactly like the companion "
                    "message without the extra member",
            "assumptions": ["unknown keys are text strings (integer / byte-string keys are outside the statement)",
                            "stack depth of the recursive ignore() is a runtime fact: exercised, not modelled"]},
    "C12": {"ns": "C12", "cases": cases_c12,
            "level_text": "Proof. G-CAP reader theorems (Ctap/CapThm.lean) for every integer / length below 2^64 / 2^32: Bytes<N>, "
                          "String<N>, ByteArray<N>, u8/u32/usize, i32 (either sign) and Vec<T,N> accept exactly the values within "
                          "the limit and return them unchanged, and refuse the next larger one with a plain CBOR error; instantiated "
                          "at user id 64, rp id 256, parameter type 32, allow list 10, exclude list 16, salt 80 / 32, COSE coordinate "
                          "32, rpIdHash = 32, u8, u32, i32; user icon 128 dropped-not-rejected (C13.user_icon). "
                          "over_limit_in_message lifts a member-level rejection to the whole parameter map after any readable "
                          "prefix (first fault wins). Obligations: 20 member sites × 8 configurations carry exactly these readers.",
            "rule": "every bounded member found by walking the request schemas × {limit-1, limit, limit+1, far beyond; integer "
                    "thresholds up to 2^64-1, both signs for i32} inside an otherwise complete message of each command",
            "assumptions": ["usize = 64 bit"]},
    "C01": {"ns": "C01", "cases": cases_c01,
            "level_text": "Proof. (1) Obligations: the five request schemas regenerated from the source equal the specification's "
                          "parameter tables (key = position + 1, CBOR type, capacity, required/optional, nested text keys) in all "
                          "8 configurations (Ob.reqRoles_eq), and each command byte incl. 0x41 routes to its variant. (2) Theorem "
                          "message (from G-LOOP / indexed_message): for every command and every parameter map given as entries in "
                          "ANY order, each read by its member's reader, decoding yields that command's request with exactly those "
                          "members set and all other optional members absent (member_values). (3) Theorem bidirectional (from "
                          "G-RT): for ClientPin / CredentialManagement / LargeBlobs, decode(cmd||encode v||rest) = v for every "
                          "well-typed v. PARTIAL: for MakeCredential / GetAssertion the per-member ReadsAs facts are supplied by "
                          "G-RT (readsAs_encode) for the exact members and by the C13 / C14 reader theorems for the lossy ones; the "
                          "composition 'whole MC/GA message with lossy members' is instantiated by the correspondence, not by a "
                          "closed Lean term. Correspondence: every subset of optional top-level members of every command (2^7, "
                          "2^7, 2^8, 2^3, 2^5), random nested subsets, boundary values, lossy members, both 0x0A and 0x41.",
            "rule": "every optional-member subset of every parameter command × random well-typed values, plus random messages "
                    "with over-long names/icons, unknown algorithms and rp icon; default + all-features (quick) / all 8 configs",
            "assumptions": ["usize = 64 bit"]},
    "C15": {"ns": "C15", "cases": cases_c15,
            "level_text": "Proof. G-RT (Ctap/RoundTrip.lean, theorem rt): for every schema of the universe that is well-formed "
                          "(wf: distinct keys incl. aliases, UTF-8 keys, consistent string/number tables, null-accepting members "
                          "not of unit type, filter literals agree), every well-typed value and every trailing input, "
                          "decode(encode v ++ r) = (v, r) — by mutual structural induction over Ty/Fields with a loop invariant "
                          "for the visit_map loops, no bound on sizes or nesting. Per-run obligations (decide +kernel): wf holds "
                          "for every bidirectional schema regenerated from the source, in all 8 configurations (3 requests, 3 "
                          "responses, 21 nested types). reencode: encode(decode(encode v0)) = encode v0. The rp icon exception is "
                          "the well-typedness clause 'never-serialised members are unset'. Correspondence: encode→decode and "
                          "decode→encode chains through the real types, all subsets of optional members where <= 6, singletons + "
                          "pairs + full + random otherwise.",
            "rule": "every type with both Serialize and Deserialize × member subsets × boundary/random member values; values "
                    "built through the public API (builders, Default, field assignment) and by decoding reference bytes",
            "assumptions": ["enumerations and COSE keys are values of their Rust types (in the tables / <= 32-byte coordinates)"]},
    "C13": {"ns": "C13", "cases": cases_c13, "miri": True,
            "level_text": "Proof. UTF-8 theory in Lean (Ctap/Utf8Thm.lean): validUtf8 peels one scalar of 1-4 bytes at a time "
                          "(validUtf8_step), each scalar is one boundary byte + <=3 continuation bytes (scalar_shape), hence "
                          "floor_char_boundary with a 3-byte look-back never reaches unwrap_unchecked(None) on well-formed text "
                          "and returns the start of the character containing the index (floorCharBoundary_valid, by strong "
                          "induction, no length bound); truncateStr_valid: no panic at &s[..split] / push_str().unwrap(); "
                          "truncated_spec: the result is a prefix, <= 64 bytes, well-formed, made of whole characters and maximal; "
                          "user icon kept iff <= 128 bytes else absent; rp icon/url accepted and discarded; ill-formed UTF-8 "
                          "rejected. Obligations: the lossy readers sit where the specification says with capacities 64/128 and "
                          "window 3 (6 sites x 8 configurations).",
            "rule": "all character-width patterns (4 chars quick / 6 thorough) at 4 (8) alignments around the 64-byte cut; lengths "
                    "0..300; icons 0..300 incl. 127/128/129; ill-formed bytes at every position; inside MakeCredential",
            "assumptions": ["core::str::from_utf8 accepts exactly Unicode table 3-7 (modelled as validUtf8)"]},
    "C14": {"ns": "C14", "cases": cases_c14,
            "level_text": "Proof. The two filtering visit_seq loops are modelled as folds with push(..).ok() semantics "
                          "(filterFold, attFmtLoop/attFmtFold); list inductions show, for lists of any length, that the result "
                          "is the first two matching entries in order (params_filtered, formats_decode) and that the flag is "
                          "'some entry was unknown'; no error outcome exists in the filter step, so unknown algorithms / types / "
                          "formats can never reject the request. Obligations: the filter parameters regenerated from the source "
                          "(KNOWN_ALGS, the \"public-key\" literals, capacities, format table) equal the specification's at all "
                          "4 sites in all 8 configurations. Correspondence: all lists of length <= 4 (quick) / 6 (thorough) over "
                          "the 4-letter alphabet, long lists to 64, algorithms across and beyond the i32 range, type strings to "
                          "33 bytes, all format lists of length <= 5.",
            "rule": "exhaustive short lists over {ES256, EdDSA, unknown alg, unknown type} and {packed, none, tpm, other}; long "
                    "random lists; alg / type boundary values",
            "assumptions": []},
    "C10": {"ns": "C10", "cases": cases_c10,
            "level_text": "Proof. The dispatcher arms (request variant -> trait method(s) invoked, payload passed, response "
                          "variant named, `?` propagation) are extracted from call_ctap2 / call_ctap1 on every run and "
                          "interpreted by a fixed Lean interpreter; theorems ctap2 / ctap1 hold for every state type, every "
                          "authenticator behaviour (arbitrary state transition + optional error per method) and every request "
                          "variant: exactly one handler runs, once, with the payload iff the command has one, its error is "
                          "returned unchanged, otherwise the same-named response; GetInfo / Version cannot fail. Obligations: "
                          "generated arm tables = specification's as maps, Rpc::call bodies delegate, default large_blobs = "
                          "Err(InvalidCommand), default version = U2F_V2. Correspondence: recording mock through both entry "
                          "points, every variant, all 64 vendor codes, each handler failing with 6 codes.",
            "rule": "every request variant × {direct, Rpc::call} × {large_blobs overridden, default} × {no failure, own handler "
                    "failing with 6 codes, another handler failing}; 64 vendor codes constructed directly and decoded; CTAP1 "
                    "register / authenticate / version",
            "assumptions": ["arm extraction sees method calls of the form self.method(args) / Self::method(); other control flow "
                            "in an arm is only covered by the correspondence"]},
    "C08": {"ns": "C08", "cases": cases_c08,
            "level_text": "Proof. The body of TryFrom<CommandView> for ctap1::Request is translated on every run into a program "
                          "(guards with early returns, the control-byte conversion and its error, the indexed length byte, the "
                          "match-ins arms, the slices each request is built from; anything else in the body is untranslatable); "
                          "obligation ob_program: it equals the specified program; theorem source_is_model (runProgram_spec): "
                          "the interpreter — every indexing, slicing and try_into().unwrap() an explicit outcome — on it is the "
                          "model below. Model of TryFrom<CommandView> for ctap1::Request with the three try_into().unwrap() "
                          "sites and the slice indexing as explicit panic outcomes and the Instruction::Unknown quirk; theorem "
                          "parse_spec: for all class / instruction / P1 bytes and data of any length the model returns (never "
                          "panics) exactly the specification's decision list; class_first and version_any are corollaries. "
                          "Obligation: the control-byte table extracted from the source = {7,3,8} over all 256 bytes. "
                          "iso7816's APDU framing (parse_lengths) is a dependency: modelled, exercised by correspondence over "
                          "4 length encodings and both entry points, not proved.",
            "rule": "254 classes × instruction set × P1 set at a fixed body; all 256 instructions; all 256 P1; data lengths on "
                    "every boundary × {short, extended} × {no Le, Le} × {CommandView, Command<7609>}; random and malformed APDUs",
            "assumptions": ["iso7816 0.1.4 framing behaves as modelled (App. A)"]},
    "C09": {"ns": "C09", "cases": cases_c09,
            "level_text": "Proof. The three arms of ctap1::Response::serialize are translated statement by statement into layout "
                          "lists on every run (obligation ob_layout: equal to the U2F raw-message layouts; theorem "
                          "source_is_model: the layout interpreter on them is the model below). Model of ctap1::Response::serialize as a chain of atomic bounded appends with early "
                          "return; theorem serialize_spec: for every response, prior buffer content and capacity the call "
                          "succeeds iff prior+layout fits and then leaves prior ++ layout (layout from the U2F raw message "
                          "format, big-endian counter by division), otherwise reports failure with prior still a prefix; "
                          "register_public_key: 0x04||x||y without panic for coordinates <= 32 bytes, 65 bytes iff both are 32. "
                          "Correspondence: every capacity 0..=40 around every part boundary of small responses, key handles "
                          "0..=255, certificates to 1024, signatures to 72, counter boundaries, pre-filled buffers.",
            "rule": "register / authenticate / version responses × capacities {0..40 complete for small responses; window ±3 "
                    "around the total; 64, 1500, 7609} × prior {empty, short, half}",
            "assumptions": ["on failure only 'prior is a prefix' is specified; the oracle compares the verdict, the model the bytes"]},
    "C07": {"ns": "C07", "cases": cases_c07,
            "level_text": "Proof. The bodies of AuthenticatorData::serialize and AttestedCredentialData::serialize are translated "
                          "statement by statement into layout lists (slice / byte / big-endian field / fallible 16-bit length / "
                          "optional nested / optional CBOR part; every append must propagate its failure) on every run; "
                          "obligation ob_layout: they equal the specified layouts; theorem source_is_model: the layout "
                          "interpreter on them is the model below. Model of AuthenticatorData::serialize / AttestedCredentialData::serialize as a chain of "
                          "atomic bounded appends (chain_none / chain_some / chain_too_long), with the extension map arriving in "
                          "any chunking; theorem layout: for every rpIdHash, flag byte, counter < 2^32, optional attested "
                          "credential data of any lengths and optional extension bytes the result equals the WebAuthn layout "
                          "(big-endian fields defined by division/remainder in Spec) iff credentialId <= 65535 bytes and the total "
                          "<= 676, and is an error with no data otherwise. Obligations: capacity constant and flag bits from the "
                          "source equal the specification's. Correspondence: 16 flag sets, boundary counters, credential-id "
                          "lengths across the capacity threshold for 3 key lengths x 3 aaguid lengths, 65535/65536/70000, both "
                          "flavours, every subset of extension outputs.",
            "rule": "flag masks 0..15, boundary counters, id lengths crossing the 676-byte frontier (all 0..=700 in thorough), "
                    "aaguid 0/16/17, key 0/77/256, MC and GA flavours, all extension subsets",
            "assumptions": ["rp_id_hash is a &[u8; 32] by type; the theorem does not need the length",
                            "flags are built from the four named constants"]},
    "C17": {"ns": "C17", "cases": cases_c17,
            "level_text": "Proof. Hand model of Response::serialize (resize to capacity, split status byte, chunked bounded "
                          "writer, shrink) with the panic site explicit; theorem responseSerialize_spec: for every body, every "
                          "chunking of it, every capacity >= 1 and every prior buffer content the result is 0x00+body if "
                          "1+|body| <= cap (empty map collapsing to 0x00) and exactly [0x7F] otherwise; prior-independence and "
                          "whole-or-error are corollaries. Obligations: error status = 0x7F, variant switch = specification's "
                          "body-less kinds, in all 8 configurations. Correspondence: every response kind, capacities 1,2,3, a "
                          "window of +-2 around each body size, transport sizes, three prior-content patterns.",
            "rule": "every response variant × {minimal, random, sized} values × capacities {1,2,3, size-2..size+2 where the "
                    "harness has that const-generic instantiation, 64,256,1024,3072,7609} × prior {empty, half, full sentinel}",
            "assumptions": ["capacity >= 1 (the property's hypothesis; capacity 0 would panic in split_first_mut().unwrap())",
                            "the serializer's chunking is abstracted: the theorem holds for every chunking"]},
    "C04": {"ns": "C04", "cases": cases_c04, "miri": True, "uses": ["decode_never_panics", "truncateStr_valid"],
            "level_text": "Proof (partial: the model's part). The decoder model is a total Lean function over the regenerated "
                          "schemas (termination: structural recursion on the schema, element counts and a byte-length fuel "
                          "for the skipper; determinism: functionality) whose result type has an explicit outcome for every "
                          "panic-capable or undefined-behaviour site of ctap-types' own code on the decode path (the unsafe "
                          "unwrap_unchecked in floor_char_boundary, the str slice and the push_str().unwrap() in truncate, the "
                          "switch arms). G-TOTAL (Ctap/NoPanic.lean, mutual induction, decode_never_panics): for every schema "
                          "whose truncating readers use the look-back window 3 and every input of any length, that outcome "
                          "is unreachable, because the text handed to the truncating reader has passed from_utf8 and on "
                          "well-formed text a boundary exists within 3 bytes (truncateStr_valid). Obligations (decide +kernel): "
                          "all 256 command bytes are classified and every parameter-bearing command's regenerated schema — and "
                          "every other regenerated type — is safe in all 8 configurations; window = 3. C04.never_panics / "
                          "ok_or_err: Request::deserialize's model returns a request or an error status for all byte strings. "
                          "NOT provable in the model and left to the correspondence: stack depth, arithmetic wrap and memory "
                          "safety inside the dependencies (cbor-smol, heapless, serde), whose behaviour is modelled, not "
                          "verified. Correspondence: harness built with debug assertions and overflow checks, every case under "
                          "catch_unwind and decoded twice at different addresses (determinism); exhaustive inputs of length "
                          "<= 2 (quick: + length 3 and a slice of length 4 after the six parameter-bearing command bytes; "
                          "thorough: all of length 3 and all of length 4 after those bytes) compared by outcome classes and an "
                          "order-independent digest of (input, outcome) with automatic narrowing to the differing input; "
                          "well-formed messages for every command × truncate / flip / delete / insert at every offset, splice, "
                          "head-byte substitution; nesting to the 7609-byte limit in skipped and typed positions; oversized and "
                          "maximal heads; every bounded member across its limit (C12's cases); every public type's decoder.",
            "rule": "see level; a sweep line counts as one evaluation although it covers 256^n inputs (reported under "
                    "stats); non-trivial = the harness could pose the case",
            "assumptions": ["dependencies behave as modelled (DESIGN.md App. A): their own panics / aborts / stack use are "
                            "only observed by the correspondence, on an 8 MiB main-thread stack, 64-bit host",
                            "Miri (undefined behaviour in executions that do not crash) is run in the thorough tier only"]},
    "C19": {"ns": "C19", "cases": cases_c19, "miri": True, "uses": ["generator_fine", "arbStr_fine", "validUpToF_valid", "runG_fine", "arbEnum_lt"],
            "level_text": "Proof (partial). Model (Ctap/Arb.lean) of the four length-handling helpers of src/arbitrary.rs "
                          "(arbitrary_str / _bytes / _vec / _byte_array) over a model of the arbitrary-1.4.2 primitives they "
                          "call (bytes, peek_bytes, fill_buffer integers, bool, int_in_range, choose, derive on field-less "
                          "enums), with explicit outcomes for every unwrap() and for from_utf8_unchecked on ill-formed bytes. "
                          "G-ARB (Ctap/ArbThm.lean): for every capacity and every byte string, each helper returns "
                          "NotEnoughData or a value within capacity — arbitrary_str's result is well-formed UTF-8 because "
                          "valid_up_to designates a well-formed prefix (validUpToF_valid, via the scalar-peeling lemmas of "
                          "C13); the panic / UB outcomes are unreachable given the clamp `.min(N)` and the loop bound N, both "
                          "read off the source by the translator (obligation Gen.arbShape = Spec.arbShape). generators_ok: "
                          "the five hand-written impls built only from these helpers (rp entity, user entity, filtered "
                          "parameters, attestation-format preference, hmac-secret input; draw lists extracted from the "
                          "source, obligation Gen.arbImpls = Spec.arbImpls) return NotEnoughData or a value whose every text "
                          "is well-formed and every bounded member within capacity. G-ARBTREE (Ctap/ArbTree.lean, "
                          "whole_requests_fine): the generator call trees of ctap2::Request, ctap1::Request and "
                          "authenticator::Request — every derive(Arbitrary) (fields in order; enums: u32 selector, alternative, "
                          "unreachable!()) and every statement of every hand-written impl — are read off the source on every run; "
                          "for any tree with u32-sized capacities and non-empty enums, and every input, no unwrap() / "
                          "unreachable!() / unsafe precondition of ctap-types is reachable, GIVEN that the leaf generators of "
                          "the arbitrary crate (integers, bool, &[u8], &str, foreign derives) do not panic. NOT modelled: those "
                          "leaves, the values of whole requests, the pointer cast in arbitrary_byte_array (layout): the three "
                          "whole-request generators are additionally exercised by the correspondence run (harness built with "
                          "--features arbitrary, debug assertions, catch_unwind: every text validated, Debug-formatted, "
                          "cloned and compared, dispatched through a mock authenticator; thorough: a sample under Miri).",
            "rule": "input families of the property (all-zero, all-0xFF, single-byte-repeated, random, and length-word + "
                    "multi-byte / ill-formed text around the capacities 32..256, structured draw sequences) × 5 modelled "
                    "types (value and remaining length compared with the model) + 3 whole-request generators (validity "
                    "oracle; additionally steered to every enum variant)",
            "assumptions": ["arbitrary 1.4.2 and derive_arbitrary behave as modelled / as observed",
                            "whole-request generation is tested, not proved"]},
    "C16": {"ns": "C16", "cases": cases_c16, "uses": ["ext_encode", "ext_wt", "rt"],
            "level_text": "Proof. G-EXT (Ctap/Extend.lean, mutual induction): if schema t' extends schema t — integer-keyed "
                          "structs only gain optional skipped members after all existing ones, text-keyed structs gain optional "
                          "skipped members anywhere, every existing member keeps key, aliases, type, optionality, reader and "
                          "serialisation mode, byte-string capacities may only grow — then every value of t is written to "
                          "identical bytes under t' with the new members unset (same_bytes), and (with G-RT) the encoding of any "
                          "value of t decodes to that value under t and to its embedding under t' (same_values; ext_wt: the "
                          "embedding of a value an authenticator can hold is one it can hold, so no extra hypothesis). Obligations "
                          "(decide +kernel, regenerated schemas): ext holds for all request, response and extension-output "
                          "roots for all 27 ordered pairs of the 8 configurations (any two configurations meet in their "
                          "intersection: meet_le); std and arbitrary leave every schema and table unchanged; only the three "
                          "wire features gate anything. Correspondence: the same corpus through harness builds of both "
                          "configurations, byte-for-byte (responses, authenticator data, every serialisable type) and "
                          "value-for-value (requests, every deserialisable type) — plus each side against model and oracle.",
            "rule": "quick: the pair (no features, all three); thorough: all 19 strict pairs c ⊂ c'. Per pair: every response "
                    "kind × {minimal, each optional member alone, random subsets}; authenticator data × random extension "
                    "outputs; every request kind × {every subset of optional members (≤ 2^8), random + lossy}; every "
                    "reachable type × random values (encode and decode). A case of the larger configuration is compared to "
                    "its companion of the smaller one (bytes equal / value equal to the embedding)",
            "assumptions": ["std / arbitrary: decided statically by the translator (regenerated schemas and tables identical "
                            "with and without them); the harness is not built with them for this property (C19 builds arbitrary)"]},
    "C18": {"ns": "C18", "cases": cases_c18,
            "level_text": "Proof. Generic table theorems (G-TABLE: lookupStr_zip_range, indexOf_iff) show that a string / number "
                          "table with pairwise distinct entries accepts exactly the listed spellings / discriminants, for every "
                          "string and every unsigned integer below 2^64; per-run obligations (decide) show the tables regenerated "
                          "from the source equal the specification's (7 enumeration sites × 8 configurations, status codes, "
                          "permission and flag bits, control bytes, credential-protection bytes over all 256 values). "
                          "Correspondence: every spelling, every single-character edit / case change / prefix / extension, all 256 "
                          "byte values and threshold integers to 2^64-1 through the real decoder and TryFrom impls.",
            "rule": "every enumeration reachable from a request/response root × {valid spellings, edits, random texts, all "
                    "byte values + thresholds}; tables dumped from the built crate; distinct case lines",
            "assumptions": ["usize = 64 bit", "dependencies behave as modelled (DESIGN.md App. A)"]},
    "C11": {"ns": "C11", "cases": cases_c11,
            "level_text": "Proof. The byte↔operation tables and the operation switch are extracted from the source on every "
                          "run; 12 kernel-checked finite obligations (decide +kernel over all 256 bytes) establish that the "
                          "recognised set, names, round trip, vendor range and command classification equal the specification "
                          "table; 8 theorems lift that to every trailing payload (paramless / vendor / invalid / 0x41≡0x0A). "
                          "Correspondence: all 256 bytes × 7+ payloads through the real Request::deserialize, Operation and "
                          "VendorOperation conversions.",
            "rule": "all 256 command bytes × {Operation::try_from / into_u8, VendorOperation::try_from, "
                    "Request::deserialize with empty / valid / malformed / random payloads}; a case is "
                    "non-trivial when the harness could pose it; distinct = distinct case lines",
            "assumptions": ["usize = 64 bit", "dependencies behave as modelled (DESIGN.md App. A)"]},
}


# =============================================================================== generic wire sweeps
def mutate_bytes(rng, b):
    b = bytearray(b)
    if not b:
        return bytes([rng.randrange(256)])
    k = rng.randrange(6)
    i = rng.randrange(len(b))
    if k == 0:
        b[i] ^= 1 << rng.randrange(8)
    elif k == 1:
        b.insert(i, rng.randrange(256))
    elif k == 2:
        del b[i]
    elif k == 3:
        del b[i:]
    elif k == 4:
        b[i] = rng.choice([0x00, 0x17, 0x18, 0x1f, 0x40, 0x5f, 0x60, 0x7f, 0x80, 0x9f, 0xa0, 0xbf, 0xc0, 0xf4, 0xf5, 0xf6, 0xf7, 0xff])
    else:
        j = rng.randrange(len(b))
        b[i:i] = b[j:j + rng.randrange(1, 6)]
    return bytes(b)


def wire_cases(ctx, cfg, n_per_type, kinds=("enc", "dec", "perm", "extra", "mut"), only=None, salt=0):
    g = ctx.gen(cfg, salt)
    rng = g.rng
    out = []
    for path, key, t in g.all_refs():
        if only and not only(path, key, g.s.res(t)):
            continue
        r = g.s.res(t)
        caps = r["caps"]
        for _ in range(n_per_type):
            v = g.rand_val(t, p_opt=rng.choice([0.15, 0.5, 0.9]))
            if "enc" in kinds and caps["ser"] and g.val_buildable(t, v):
                out.append(Case("enc", cfg, f"enc {cfg} {key} {show(v)}", f"enc {cfg} {path} {show(v)}", tag="value"))
            if not caps["de"]:
                continue
            try:
                item = g.value_item(t, v)
            except (ValueError, TypeError, IndexError):
                continue
            b = casegen.enc_item(item)
            if "dec" in kinds:
                out.append(Case("dec", cfg, f"dec {cfg} {key} {b.hex()}", f"dec {cfg} {path} {b.hex()}", tag="declared order"))
            if item[0] == 'map' and len(item[1]) > 1:
                if "perm" in kinds:
                    ents = list(item[1])
                    rng.shuffle(ents)
                    pb = casegen.enc_item(('map', ents))
                    out.append(Case("dec", cfg, f"dec {cfg} {key} {pb.hex()}", f"dec {cfg} {path} {pb.hex()}", tag="permuted"))
                    cb = casegen.enc_item(('map', casegen.canon_sort(item[1])))
                    out.append(Case("dec", cfg, f"dec {cfg} {key} {cb.hex()}", f"dec {cfg} {path} {cb.hex()}", tag="canonical order"))
            if item[0] == 'map' and "extra" in kinds and "text" in r:
                ents = list(item[1])
                pos = rng.randint(0, len(ents))
                name = rng.choice(["transports", "credBlob", "minPinLength", "credProps", "hmac-secret-mc", "prf", "zz", ""])
                ents.insert(pos, (('text', name.encode()), g.rand_unknown_item(3)))
                eb = casegen.enc_item_ext(('map', ents))
                out.append(Case("dec", cfg, f"dec {cfg} {key} {eb.hex()}", f"dec {cfg} {path} {eb.hex()}", tag="unknown member"))
            if "mut" in kinds:
                for _ in range(3):
                    mb = mutate_bytes(rng, b)
                    out.append(Case("dec", cfg, f"dec {cfg} {key} {mb.hex() or '-'}", f"dec {cfg} {path} {mb.hex() or '-'}", tag="byte mutation", oracle_applies=True))
    return out
