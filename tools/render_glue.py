#!/usr/bin/env python3
"""Generate the harness glue (`harness/src/glue_<cfg>.rs`) from the translator's schema JSON:
per-type dump (value -> positional V) and build (V -> value through the public API) functions,
and the `dec` / `enc` / `req` / `resp` entry points.  Regenerated on every run, so renamed
fields and cfg-gated members follow the source."""
import json
import os
import sys

sys.path.insert(0, os.path.dirname(os.path.abspath(__file__)))
from pymodel import Schema  # noqa: E402


def mangle(key):
    return key.replace("::", "_")


def rust_path(key):
    return "ctap_types::" + key


class Glue:
    def __init__(self, sj):
        self.s = Schema(sj)
        self.types = sj["types"]
        self.out = []

    # ---------------------------------------------------------------- dump
    def dump_expr(self, t, x):
        """x : expression of type &T"""
        if "named" in t:
            return f"dump_{mangle(t['named'])}({x})"
        if "leaf" in t:
            l = t["leaf"]
            if l == "uint":
                return f"V::Nat((*{x}) as u128)"
            if l == "i32":
                return f"V::Int((*{x}) as i128)"
            if l == "bool":
                return f"V::Bool(*{x})"
            if l in ("unit", "icon"):
                return "V::Unit"
            if l in ("bytes", "byteArray"):
                return f"V::Bytes(as_bytes({x}).to_vec())"
            if l == "str":
                return f"V::Text(as_text({x}).as_bytes().to_vec())"
            if l == "coseEcdh":
                return (f"V::Record(vec![Some(V::Bytes(({x}).x.to_vec())), Some(V::Bytes(({x}).y.to_vec()))])")
            if l == "cosePub":
                return f"dump_cose_pub({x})"
            raise ValueError("dump leaf " + l)
        if "vec" in t:
            return f"V::List(({x}).iter().map(|e| {self.dump_expr(t['elem'], 'e')}).collect())"
        raise ValueError("dump " + json.dumps(t))

    def gen_dump(self, key, t):
        rp = rust_path(key)
        fn = f"#[allow(unused_variables, unreachable_patterns)]\npub fn dump_{mangle(key)}(x: &{rp}) -> V {{\n"
        if "leaf" in t and t["leaf"] in ("enumStr", "enumRepr"):
            arms = "".join(f"        {rp}::{v} => V::Nat({i}),\n" for i, v in enumerate(t["variants"]))
            fn += f"    match x {{\n{arms}        _ => V::Nat(999),\n    }}\n"
        elif "leaf" in t and t["leaf"] == "icon":
            fn += "    V::Unit\n"
        elif "leaf" in t and t["leaf"] == "attFmtPref":
            fn += (f"    V::Record(vec![Some(V::List(x.known_formats().iter().map(|f| dump_{mangle(t['elem'])}(f)).collect())), "
                   f"Some(V::Bool(x.includes_unknown_formats()))])\n")
        elif "filtered" in t:
            fn += "    V::List(x.0.iter().map(|k| V::Int(k.alg as i128)).collect())\n"
        elif "untagged" in t:
            arms = "".join(f"        {rp}::{a['rust']}(y) => V::Variant({i}, Box::new({self.dump_expr(a['ty'], 'y')})),\n"
                           for i, a in enumerate(t["untagged"]))
            fn += f"    match x {{\n{arms}        _ => V::Variant(999, Box::new(V::Unit)),\n    }}\n"
        elif "fields" in t:
            slots = []
            for f in t["fields"]:
                if f["rust"] not in t["rust"]["pub_fields"]:
                    slots.append("None /* private */")
                elif self.s.is_opt_field(t, f):
                    slots.append(f"x.{f['rust']}.as_ref().map(|y| {self.dump_expr(f['ty'], 'y')})")
                else:
                    slots.append(f"Some({self.dump_expr(f['ty'], '&x.' + f['rust'])})")
            fn += "    V::Record(vec![\n" + "".join(f"        {s},\n" for s in slots) + "    ])\n"
        else:
            raise ValueError("gen_dump " + key)
        fn += "}\n"
        self.out.append(fn)

    # ---------------------------------------------------------------- build
    def build_expr(self, t, v):
        """v : expression of type &V ; result: expression of the Rust value"""
        if "named" in t:
            return f"build_{mangle(t['named'])}({v})"
        if "leaf" in t:
            l = t["leaf"]
            if l == "uint":
                return f"(({v}).nat() as _)"
            if l == "i32":
                return f"(({v}).int() as i32)"
            if l == "bool":
                return f"({v}).boolean()"
            if l == "unit":
                return "()"
            if l == "bytes":
                if t.get("cap") is None:
                    return f"serde_bytes::Bytes::new(leak_bytes(({v}).bytes()))"
                return f"ctap_types::Bytes::from_slice(({v}).bytes()).expect(\"harness: bytes over capacity\")"
            if l == "byteArray":
                if t.get("ref"):
                    return f"leak_byte_array::<{t['n']}>(({v}).bytes())"
                return f"serde_bytes::ByteArray::new(<[u8; {t['n']}]>::try_from(({v}).bytes()).expect(\"harness: byte array length\"))"
            if l == "str":
                if t.get("cap") is None:
                    return f"leak_str(({v}).text())"
                return f"ctap_types::String::try_from(({v}).text()).expect(\"harness: string over capacity\")"
            if l == "coseEcdh":
                return f"build_cose_ecdh({v})"
            if l == "cosePub":
                return f"build_cose_pub({v})"
            raise ValueError("build leaf " + l)
        if "vec" in t:
            return ("{ let mut out = ctap_types::Vec::new(); for e in (" + v + ").list() { out.push("
                    + self.build_expr(t["elem"], "e") + ").map_err(drop).expect(\"harness: vec over capacity\"); } out }")
        raise ValueError("build " + json.dumps(t))

    def field_build(self, t, f, slot):
        """expression for the Rust field value from `slot : &Option<V>`"""
        fty = f["ty"]
        if f["mode"]["m"] in ("trunc", "skipLong"):
            fty = {"leaf": "str", "cap": f["mode"]["cap"]}
        if self.s.is_opt_field(t, f):
            return f"({slot}).as_ref().map(|y| {self.build_expr(fty, 'y')})"
        return self.build_expr(fty, f"({slot}).as_ref().expect(\"harness: required slot unset\")")

    def gen_build(self, key, t):
        rp = rust_path(key)
        lt = "<'static>" if t["rust"]["lifetime"] else ""
        fn = f"#[allow(unused_variables, unused_mut, unreachable_code)]\npub fn build_{mangle(key)}(v: &V) -> {rp}{lt} {{\n"
        if "leaf" in t and t["leaf"] in ("enumStr", "enumRepr"):
            arms = "".join(f"        {i} => {rp}::{vn},\n" for i, vn in enumerate(t["variants"]))
            fn += f"    match v.nat() {{\n{arms}        _ => panic!(\"harness: bad variant index\"),\n    }}\n"
        elif "leaf" in t and t["leaf"] == "icon":
            fn += f"    {rp}\n"
        elif "leaf" in t and t["leaf"] == "attFmtPref":
            fn += "    panic!(\"harness: AttestationFormatsPreference cannot be built through the public API\")\n"
        elif "filtered" in t:
            fn += (f"    let mut out = ctap_types::Vec::new();\n"
                   f"    for e in v.list() {{ out.push(ctap_types::webauthn::KnownPublicKeyCredentialParameters {{ alg: e.int() as i32 }}).map_err(drop).expect(\"harness: vec over capacity\"); }}\n"
                   f"    {rp}(out)\n")
        elif "untagged" in t:
            arms = "".join(f"        {i} => {rp}::{a['rust']}({self.build_expr(a['ty'], 'inner')}),\n"
                           for i, a in enumerate(t["untagged"]))
            fn += f"    let (i, inner) = v.variant();\n    match i {{\n{arms}        _ => panic!(\"harness: bad variant index\"),\n    }}\n"
        elif "fields" in t:
            r = t["rust"]
            fields = t["fields"]
            fn += "    let s = v.record();\n"
            pub = [f for f in fields if f["rust"] in r["pub_fields"]]
            idx = {f["rust"]: i for i, f in enumerate(fields)}
            if not r["non_exhaustive"] and len(pub) == len(fields):
                inits = "".join(f"        {f['rust']}: {self.field_build(t, f, 's[%d]' % idx[f['rust']])},\n" for f in fields)
                fn += f"    {rp} {{\n{inits}    }}\n"
            else:
                done = set()
                if r["builder"]:
                    inits = "".join(
                        f"        {b}: {self.field_build(t, fields[idx[b]], 's[%d]' % idx[b])},\n" for b in r["builder"])
                    fn += f"    let mut t = {rp}Builder {{\n{inits}    }}.build();\n"
                    done = set(r["builder"])
                elif r["default"]:
                    fn += f"    let mut t = <{rp}>::default();\n"
                elif t["caps"]["de"]:
                    mv = self.s.min_value({"named": key})
                    mb = self.s.ref_encode({"named": key}, mv)
                    lit = ", ".join(str(b) for b in mb)
                    fn += f"    static MIN: &[u8] = &[{lit}];\n"
                    fn += f"    let mut t: {rp}{lt} = cbor_smol::cbor_deserialize(MIN).expect(\"harness: minimal encoding rejected\");\n"
                else:
                    fn += "    panic!(\"harness: type cannot be built through the public API\");\n"
                    fn += "}\n"
                    self.out.append(fn)
                    return
                for f in pub:
                    if f["rust"] in done:
                        continue
                    fn += f"    t.{f['rust']} = {self.field_build(t, f, 's[%d]' % idx[f['rust']])};\n"
                fn += "    t\n"
        else:
            raise ValueError("gen_build " + key)
        fn += "}\n"
        self.out.append(fn)

    # ---------------------------------------------------------------- entry points
    def render(self, sj, tables):
        hdr = ("// GENERATED by /verif/tools/render_glue.py from /repo (cfg %s). Do not edit.\n"
               "#![allow(clippy::all, dead_code, unused_imports)]\n"
               "use crate::support::*;\nuse crate::val::V;\n\n" % sj["cfg"])
        # private types cannot be named from outside the crate: no glue for them (nor for their users)
        self.types = {k: t for k, t in self.types.items() if t["rust"].get("pub", True)}
        for key, t in self.types.items():
            self.gen_dump(key, t)
            self.gen_build(key, t)
        # dec
        dec = "pub fn dec_type(ty: &str, bytes: &[u8]) -> Option<Result<V, cbor_smol::Error>> {\n    match ty {\n"
        for key, t in self.types.items():
            if t["caps"]["de"]:
                dec += (f"        \"{key}\" => {{ let r: Result<{rust_path(key)}, _> = cbor_smol::cbor_deserialize(bytes); "
                        f"Some(r.map(|v| dump_{mangle(key)}(&v))) }}\n")
        dec += "        _ => None,\n    }\n}\n"
        enc = ("pub fn enc_type(ty: &str, v: &V, buf: &mut [u8]) -> Option<Result<Vec<u8>, cbor_smol::Error>> {\n    match ty {\n")
        for key, t in self.types.items():
            if t["caps"]["ser"]:
                enc += (f"        \"{key}\" => {{ let x = build_{mangle(key)}(v); "
                        f"Some(cbor_smol::cbor_serialize(&x, buf).map(|s| s.to_vec())) }}\n")
        enc += "        _ => None,\n    }\n}\n"
        # request dump
        req = ("#[allow(unreachable_patterns)]\npub fn dump_request(r: &ctap_types::ctap2::Request) -> (&'static str, Option<V>) {\n    match r {\n")
        for variant, payload in tables["request_variants"]:
            if payload is None:
                req += f"        ctap_types::ctap2::Request::{variant} => (\"{variant}\", None),\n"
            elif payload == "vendor":
                req += f"        ctap_types::ctap2::Request::{variant}(op) => (\"{variant}\", Some(V::Nat(u8::from(*op) as u128))),\n"
            else:
                req += f"        ctap_types::ctap2::Request::{variant}(x) => (\"{variant}\", Some(dump_{mangle(payload)}(x))),\n"
        req += "        _ => (\"?\", None),\n    }\n}\n"
        resp = "pub fn build_response(variant: &str, v: Option<&V>) -> Option<ctap_types::ctap2::Response> {\n    match variant {\n"
        for variant, payload in tables["response_variants"]:
            if payload is None:
                resp += f"        \"{variant}\" => Some(ctap_types::ctap2::Response::{variant}),\n"
            else:
                resp += (f"        \"{variant}\" => Some(ctap_types::ctap2::Response::{variant}(build_{mangle(payload)}(v?))),\n")
        resp += "        _ => None,\n    }\n}\n"
        tb = "pub fn table(name: &str) -> Option<Vec<(&'static str, u64)>> {\n    match name {\n"
        tb += "        \"status\" => Some(vec![" + ", ".join(
            f"(\"{n}\", ctap_types::ctap2::Error::{n} as u64)" for n, _ in tables["status_names"]) + "]),\n"
        for bname, path in (("Permissions", "ctap_types::ctap2::client_pin::Permissions"),
                            ("AuthenticatorDataFlags", "ctap_types::ctap2::AuthenticatorDataFlags")):
            tb += f"        \"{bname}\" => Some(vec![" + ", ".join(
                f"(\"{n}\", {path}::{n}.bits() as u64)" for n, _ in tables["bitflags"].get(bname, [])) + "]),\n"
        tb += "        _ => None,\n    }\n}\n"
        from pymodel import show as _show
        mr = "pub fn min_response(variant: &str) -> Option<ctap_types::ctap2::Response> {\n    match variant {\n"
        for variant, payload in tables["response_variants"]:
            if payload is None:
                mr += f"        \"{variant}\" => build_response(\"{variant}\", None),\n"
            else:
                mv = _show(self.s.min_value({"named": payload}))
                mr += f"        \"{variant}\" => build_response(\"{variant}\", V::parse(\"{mv}\").as_ref()),\n"
        mr += "        _ => None,\n    }\n}\n"
        # `Default::default()` of every response payload that has one, dumped (the values a caller gets for free)
        dv = "pub fn default_response_value(variant: &str) -> Option<V> {\n    match variant {\n"
        for variant, payload in tables["response_variants"]:
            if payload is not None and self.s.res({"named": payload}).get("rust", {}).get("default"):
                dv += (f"        \"{variant}\" => Some(dump_{mangle(payload)}(&<{rust_path(payload)} as Default>::default())),\n")
        dv += "        _ => None,\n    }\n}\n"
        ad = mr + dv
        meth = {"MakeCredential": "make_credential", "GetAssertion": "get_assertion", "ClientPin": "client_pin",
                "CredentialManagement": "credential_management", "LargeBlobs": "large_blobs"}
        for variant, payload in tables["request_variants"]:
            if payload and payload != "vendor" and variant in meth:
                ad += (f"pub fn dump_payload_{meth[variant]}(x: &{rust_path(payload)}) -> V {{ dump_{mangle(payload)}(x) }}\n")
        for fl in ("MC", "GA"):
            k = sj["roles"].get("adExt" + fl)
            if k:
                ad += f"pub type AdExt{fl} = {rust_path(k)};\npub fn build_adext_{fl.lower()}(v: &V) -> AdExt{fl} {{ build_{mangle(k)}(v) }}\n"
        return hdr + "\n".join(self.out) + "\n" + ad + "\n" + dec + "\n" + enc + "\n" + req + "\n" + resp + "\n" + tb


def main():
    data = json.load(open(sys.argv[1]))
    outdir = sys.argv[2]
    for cfg, sj in sorted(data["schemas"].items()):
        g = Glue(sj)
        src = g.render(sj, dict(sj["variants"], status_names=data["tables"]["status_codes"],
                                 bitflags=data["tables"]["bitflags"]))
        path = os.path.join(outdir, f"glue_{cfg}.rs")
        old = open(path).read() if os.path.exists(path) else None
        if old != src:
            with open(path, "w") as f:
                f.write(src)


if __name__ == "__main__":
    main()
