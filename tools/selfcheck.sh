#!/bin/sh
# selfcheck.sh — run before committing: /repo clean, baseline schema = what the translator produces
# from the clean tree, MANIFEST and every evidence file valid and free of violations.
cd /verif || exit 1
[ -z "$(git -C /repo status --porcelain)" ] || { echo "FAIL: /repo has uncommitted changes"; exit 1; }
python3 tools/prepare.py >/dev/null 2>&1
python3 - <<'PY' || exit 1
import json,sys
a=json.load(open('/verif/build/schema.json')); b=json.load(open('/verif/tools/baseline_schema.json'))
if json.dumps(a,sort_keys=True)!=json.dumps(b,sort_keys=True):
    print("FAIL: tools/baseline_schema.json differs from the translation of the clean tree (cp build/schema.json tools/baseline_schema.json)"); sys.exit(1)
PY
(cd lean && lake build Ctap Spec Gen Props driver 2>&1 | grep -E "^error" | head -5 | grep . && { echo "FAIL: lake build"; exit 1; } || true) || exit 1
python3 tools/mkmanifest.py >/dev/null || { echo "FAIL: mkmanifest"; exit 1; }
python3-vt - <<'PY' || exit 1
import json,jsonschema,glob,sys
jsonschema.validate(json.load(open('MANIFEST.json')),json.load(open('/root/.vp/MANIFEST.schema.json')))
sc=json.load(open('/root/.vp/EVIDENCE.schema.json'))
bad=0
for f in sorted(glob.glob('evidence/*.json')):
    e=json.load(open(f)); jsonschema.validate(e,sc)
    if e['violations'] or e['coverage']['discharged']<1 or e['coverage'].get('pipeline_problems'):
        print("FAIL: evidence not from a clean passing run:",f); bad=1
sys.exit(bad)
PY
echo "selfcheck ok"
if [ "${1:-}" = "full" ]; then
  for p in C01 C02 C03 C04 C05 C06 C07 C08 C09 C10 C11 C12 C13 C14 C15 C16 C17 C18 C19; do
    ./check $p 2>&1 | tail -1 | grep -v "^OK" && { echo "FAIL: $p"; exit 1; }
  done
  echo "all quick checks ok"
fi
