#!/usr/bin/env python3
"""Apply every seeded change under /verif/seeded to /repo in turn, run its property's check, undo
the change, and record in the seed's meta.json what the check said.  Never commits in /repo."""
import json, os, subprocess, sys, glob, re

ROOT = os.path.dirname(os.path.dirname(os.path.abspath(__file__)))
only = sys.argv[1:]
rows = []
for d in sorted(x for x in glob.glob(os.path.join(ROOT, "seeded", "*")) if os.path.isdir(x)):
    name = os.path.basename(d)
    if only and not any(name.startswith(o) for o in only):
        continue
    meta = json.load(open(os.path.join(d, "meta.json")))
    pid = meta["property"]
    if subprocess.run(["git", "-C", "/repo", "status", "--porcelain"], capture_output=True, text=True).stdout.strip():
        sys.exit("/repo is not clean")
    r = subprocess.run([os.path.join(ROOT, "tools", "seedtest.sh"), d, pid], capture_output=True, text=True)
    out = r.stdout
    m = re.search(r"VIOLATION property=(\S+) replay=(\S+)( no-failing-input-found)?", out)
    if m:
        verdict = "detected: proof/tie broken, no failing input found" if m.group(3) else "detected with a failing input"
        detail = ""
        try:
            rp = json.load(open(m.group(2)))
            detail = "; ".join(b["stage"] for b in rp["broken"])
            if rp["cases"]:
                c = rp["cases"][0]
                detail += f" | e.g. {c['hline'][:100]} -> impl {str(c['impl'])[:60]} expected {str(c['oracle'])[:60]}"
        except Exception:
            pass
    elif "OK property" in out:
        verdict, detail = "MISSED", ""
    else:
        verdict, detail = "error: " + out[-200:], ""
    meta["check_result"] = {"check": f"./check {pid} (quick)", "verdict": verdict, "detail": detail}
    json.dump(meta, open(os.path.join(d, "meta.json"), "w"), indent=1)
    rows.append((name, pid, verdict, detail))
    print(name, pid, verdict, "|", detail[:160], flush=True)
json.dump([{"seed": n, "property": p, "verdict": v, "detail": dd} for n, p, v, dd in rows],
          open(os.path.join(ROOT, "seeded", "MATRIX.json" if not only else "MATRIX.partial.json"), "w"), indent=1)
