#!/usr/bin/env python3
"""Type-directed case generators for the correspondence check.

CBOR items (wire side) are Python tuples:
  ('u', n) ('neg', n)  [value -1-n]  ('bytes', b) ('text', b) ('arr', [items]) ('map', [(k, v)])
  ('tag', t, item) ('simple', n) ('f16', bits) ('f32', bits) ('f64', bits) ('raw', bytes)
  ('head', major, n, width)   -- a head forced to a given width (non-minimal), width in {0,1,2,4,8}
"""
import os
import random
import sys

sys.path.insert(0, os.path.dirname(os.path.abspath(__file__)))
from pymodel import Schema, head, show  # noqa: E402


def forced_head(major, n, width):
    m = major << 5
    if width == 0:
        return bytes([m | n])
    ai = {1: 24, 2: 25, 4: 26, 8: 27}[width]
    return bytes([m | ai]) + n.to_bytes(width, 'big')


def enc_item(it):
    k = it[0]
    if k == 'u':
        return head(0, it[1])
    if k == 'neg':
        return head(1, it[1])
    if k == 'bytes':
        return head(2, len(it[1])) + it[1]
    if k == 'text':
        return head(3, len(it[1])) + it[1]
    if k == 'arr':
        return head(4, len(it[1])) + b"".join(enc_item(x) for x in it[1])
    if k == 'map':
        return head(5, len(it[1])) + b"".join(enc_item(a) + enc_item(b) for a, b in it[1])
    if k == 'tag':
        return head(6, it[1]) + enc_item(it[2])
    if k == 'simple':
        n = it[1]
        return bytes([0xe0 | n]) if n < 24 else bytes([0xf8, n])
    if k == 'f16':
        return bytes([0xf9]) + it[1].to_bytes(2, 'big')
    if k == 'f32':
        return bytes([0xfa]) + it[1].to_bytes(4, 'big')
    if k == 'f64':
        return bytes([0xfb]) + it[1].to_bytes(8, 'big')
    if k == 'raw':
        return it[1]
    raise ValueError(it)


FALSE, TRUE, NULL = ('simple', 20), ('simple', 21), ('simple', 22)


def canon_sort(entries):
    return sorted(entries, key=lambda kv: (len(enc_item(kv[0])), enc_item(kv[0])))


def int_item(i):
    return ('u', i) if i >= 0 else ('neg', -1 - i)


UTF8_SAMPLES = ["a", "é", "€", "😀", "z", "ß", "語", "𝄞"]


DICT_STRINGS = ["data:", "http://", "https://", "\u200d", "\u200c", "\ufeff", "\u0301", " ", "\t", "\x00", "\u202e", "null",
                "\U0001f468\u200d\U0001f469", ".",
                # code points a Unicode-aware helper might single out, and the first / last scalar of every encoded width
                "\ufffd", "\x7f", "\u0080", "\u07ff", "\u0800", "\uffff", "\U00010000", "\U000fffff", "\U00100000", "\U0010ffff",
                "\ud7ff", "\ue000", "\u2028", "\u00a0", "\u00ad", "\ufe0f", "\u034f"]
DICT_INTS = []


def set_dictionary(d):
    """literals found in the source (see gen.py `_t_dictionary`) join the built-in ones"""
    for x in (d or {}).get("strings", []):
        if x not in DICT_STRINGS:
            DICT_STRINGS.append(x)
    for x in (d or {}).get("ints", []):
        if x not in DICT_INTS:
            DICT_INTS.append(x)


def rand_utf8(rng, nbytes):
    if nbytes and rng.random() < 0.3:
        # a dictionary fragment at the start, at the end, or both — within the requested length
        frag = rng.choice(DICT_STRINGS).encode()
        if len(frag) <= nbytes:
            rest = _plain_utf8(rng, nbytes - len(frag))
            where = rng.randrange(3)
            if where == 0:
                return frag + rest
            if where == 1:
                return rest + frag
            frag2 = rng.choice(DICT_STRINGS).encode()
            if len(frag) + len(frag2) <= nbytes:
                return frag + _plain_utf8(rng, nbytes - len(frag) - len(frag2)) + frag2
            return frag + rest
    return _plain_utf8(rng, nbytes)


def _plain_utf8(rng, nbytes):
    out = b""
    while len(out) < nbytes:
        c = rng.choice(UTF8_SAMPLES).encode()
        if len(out) + len(c) > nbytes:
            c = b"a"
        out += c
    return out


BOUNDARY_INTS = [0, 1, 23, 24, 255, 256, 65535, 65536, 0xFFFFFFFF, 0x100000000, 0xFFFFFFFFFFFFFFFF]


class CaseGen:
    def __init__(self, schema_json, seed):
        self.s = Schema(schema_json)
        self.cfg = self.s.cfg
        self.rng = random.Random(seed)

    # ---------------------------------------------------------------- type navigation
    def role_root(self, role):
        kind, name = role.split(":")
        key = self.s.roles[{"req": "req", "resp": "resp", "adext": "adExt"}[kind] + name]
        return {"named": key}

    def child(self, t, i):
        t = self.s.res(t)
        if "vec" in t or "filtered" in t:
            return t["elem"]
        if "untagged" in t:
            return t["untagged"][i]["ty"]
        return t["fields"][i]["ty"]

    def all_refs(self):
        """every (role path, rust type key, Ty) reachable from the roles; first path wins per key"""
        seen = {}
        order = []

        def visit(path, t):
            r = self.s.res(t)
            key = t.get("named")
            if key is not None and key not in seen:
                seen[key] = path
                order.append((path, key, t))
            elif key is not None:
                return
            if "vec" in r or "filtered" in r:
                visit(path + "/0", r["elem"])
            elif "untagged" in r:
                for i, a in enumerate(r["untagged"]):
                    visit(f"{path}/{i}", a["ty"])
            elif "fields" in r:
                for i, f in enumerate(r["fields"]):
                    visit(f"{path}/{i}", f["ty"])

        for role, key in sorted(self.s.roles.items()):
            for pre, kind in (("req", "req"), ("resp", "resp"), ("adExt", "adext")):
                if role.startswith(pre):
                    visit(f"{kind}:{role[len(pre):]}", {"named": key})
        return order

    # ---------------------------------------------------------------- well-typed Rust-side values
    def rand_len(self, cap, hard_max=40):
        rng = self.rng
        if cap is None:
            return rng.choice([0, 1, 16, 32, rng.randint(0, hard_max)])
        return min(cap, rng.choice([0, 1, max(cap - 1, 0), cap, rng.randint(0, cap)]))

    def rand_uint(self, w):
        mx = {"u8": 0xFF, "u32": 0xFFFFFFFF, "u64": 0xFFFFFFFFFFFFFFFF}[w]
        c = [x for x in BOUNDARY_INTS if x <= mx] + [mx - 1, mx, self.rng.randint(0, mx)]
        if DICT_INTS and self.rng.random() < 0.2:
            c = [x for x in DICT_INTS if x <= mx] or c
        return self.rng.choice(c)

    def rand_val(self, t, p_opt=0.5):
        """a value the authenticator could hold (in the image of the Rust types)"""
        rng = self.rng
        t = self.s.res(t)
        if "leaf" in t:
            l = t["leaf"]
            if l == "uint":
                return ('n', self.rand_uint(t["w"]))
            if l == "i32":
                return ('i', rng.choice([0, 1, -1, -7, -8, 23, 24, -24, -25, 255, 256, -256, -257, 65535, 65536,
                                         2 ** 31 - 1, -2 ** 31, rng.randint(-2 ** 31, 2 ** 31 - 1)]))
            if l == "bool":
                return ('b', rng.random() < 0.5)
            if l in ("unit", "icon"):
                return ('u',)
            if l == "bytes":
                return ('x', rng.randbytes(self.rand_len(t["cap"])))
            if l == "byteArray":
                return ('x', rng.randbytes(t["n"]))
            if l == "str":
                return ('s', rand_utf8(rng, self.rand_len(t["cap"])))
            if l == "enumStr":
                return ('n', rng.randrange(len(t["ser"])))
            if l == "enumRepr":
                return ('n', rng.randrange(len(t["discs"])))
            if l == "coseEcdh":
                return ('r', [('x', rng.randbytes(rng.choice([32, 32, 32, 0, 1, 31]))),
                              ('x', rng.randbytes(rng.choice([32, 32, 32, 0, 1, 31])))])
            if l == "cosePub":
                k = rng.randrange(4)
                x = ('x', rng.randbytes(32)) if k < 3 else None
                y = ('x', rng.randbytes(32)) if k < 2 else None
                return ('v', k, ('r', [x, y]))
            if l == "attFmtPref":
                n = rng.randint(0, t["cap"])
                return ('r', [('l', [('n', rng.randrange(len(t["de"]))) for _ in range(n)]), ('b', rng.random() < 0.5)])
            raise ValueError(l)
        if "vec" in t:
            n = rng.choice([0, 1, t["vec"], rng.randint(0, t["vec"])])
            return ('l', [self.rand_val(t["elem"], p_opt) for _ in range(n)])
        if "filtered" in t:
            n = rng.randint(0, t["filtered"])
            return ('l', [('i', rng.choice(t["known"])) for _ in range(n)])
        if "untagged" in t:
            i = rng.randrange(len(t["untagged"]))
            return ('v', i, self.rand_val(t["untagged"][i]["ty"], p_opt))
        slots = []
        for f in t["fields"]:
            if not self.s.is_opt_field(t, f) or rng.random() < p_opt:
                if f["rust"] not in t["rust"]["pub_fields"]:
                    slots.append(None)
                    continue
                fty = f["ty"]
                if f["mode"]["m"] in ("trunc", "skipLong"):
                    fty = {"leaf": "str", "cap": f["mode"]["cap"]}
                if self.s.res(fty).get("leaf") == "icon" and f["ser"] == "never":
                    slots.append(None if rng.random() < 0.5 else ('u',))
                    continue
                slots.append(self.rand_val(fty, p_opt))
            else:
                slots.append(None)
        return ('r', slots)

    def buildable(self, t):
        """can the harness construct every value of this type through the public API?"""
        r = self.s.res(t)
        if "leaf" in r:
            return r["leaf"] != "attFmtPref"
        if "vec" in r or "filtered" in r:
            return self.buildable(r["elem"])
        if "untagged" in r:
            return all(self.buildable(a["ty"]) for a in r["untagged"])
        ru = r["rust"]
        if ru["non_exhaustive"] or len(ru["pub_fields"]) != len(ru["all_fields"]):
            if not (ru["builder"] or ru["default"] or r["caps"]["de"]):
                return False
        return True

    def val_buildable(self, t, v):
        """values whose construction needs an unbuildable nested type set are skipped"""
        r = self.s.res(t)
        if not self.buildable(t):
            return False
        if "vec" in r:
            return all(self.val_buildable(r["elem"], x) for x in v[1])
        if "untagged" in r:
            return self.val_buildable(r["untagged"][v[1]]["ty"], v[2])
        if "fields" in r:
            for f, slot in zip(r["fields"], v[1]):
                if slot is not None and not self.val_buildable(f["ty"], slot):
                    return False
        return True

    # ---------------------------------------------------------------- wire-side items
    def value_item(self, t, v):
        """canonical item for a Rust-side value (declaration order, as the encoder emits)"""
        t = self.s.res(t)
        if "leaf" in t:
            l = t["leaf"]
            if l == "uint":
                return ('u', v[1])
            if l == "i32":
                return int_item(v[1])
            if l == "bool":
                return TRUE if v[1] else FALSE
            if l == "unit":
                return NULL
            if l in ("bytes", "byteArray"):
                return ('bytes', v[1])
            if l == "str":
                return ('text', v[1])
            if l == "icon":
                return ('text', b"http://icon.example/i.png")
            if l == "enumStr":
                return ('text', t["ser"][v[1]].encode())
            if l == "enumRepr":
                return ('u', t["discs"][v[1]])
            if l == "coseEcdh":
                return ('map', [(('u', 1), ('u', 2)), (('u', 3), ('neg', 24)), (('neg', 0), ('u', 1)),
                                (('neg', 1), ('bytes', v[1][0][1])), (('neg', 2), ('bytes', v[1][1][1]))])
            if l == "attFmtPref":
                known = [t["de"][x[1]][0] for x in v[1][0][1]]
                unk = []
                if v[1][1][1]:
                    # an unknown format: another registered one, or a near miss of a known spelling
                    base = self.rng.choice([d[0] for d in t["de"]])
                    unk = [('text', self.rng.choice(["tpm", "android-key", base.upper(), base.capitalize(), base + "2", base[:-1],
                                                     " " + base, base + "\x00", "com.example.authenticator.attestation.v2",
                                                     "x" * 32, "x" * 33, "y" * 64, "z" * 300, ""]).encode())]
                ents = [('text', k.encode()) for k in known]
                ents[self.rng.randint(0, len(ents)):0] = unk
                return ('arr', ents)
            raise ValueError(l)
        if "vec" in t:
            return ('arr', [self.value_item(t["elem"], x) for x in v[1]])
        if "filtered" in t:
            return ('arr', [self.value_item(t["elem"], ('r', [a, ('s', t["deLit"].encode())])) for a in v[1]])
        if "untagged" in t:
            return self.value_item(t["untagged"][v[1]]["ty"], v[2])
        ents = []
        for i, (f, slot) in enumerate(zip(t["fields"], v[1])):
            if slot is None:
                continue
            key = ('u', t["indexed"] + i) if "indexed" in t else ('text', f["key"].encode())
            fty = f["ty"]
            ents.append((key, self.value_item(fty, slot)))
        return ('map', ents)

    def wire_item(self, t, v, lossy=0.3):
        """like value_item, but as a platform might send it: over-long names / icons, parameter lists
        with unknown entries, rp icon present — the documented lossy members"""
        rng = self.rng
        r = self.s.res(t)
        if "filtered" in r and rng.random() < lossy:
            ents = [self.value_item(r["elem"], ('r', [a, ('s', r["deLit"].encode())])) for a in v[1]]
            for _ in range(rng.randint(1, 4)):
                alg = rng.choice([-257, -35, -36, -37, -65535, 1, 0, -9, -19, -6] + [sg * d for d in DICT_INTS for sg in (1, -1) if d < 2 ** 31 and sg * d not in r["known"]])
                ty = rng.choice(["public-key", "public-key", "webauthn.get", ""])
                ents.insert(rng.randint(0, len(ents)), ('map', [(('text', b"alg"), int_item(alg)), (('text', b"type"), ('text', ty.encode()))]))
            if rng.random() < 0.5:
                # more known entries than the list can hold (repeats), in any position: the surplus is dropped
                for _ in range(rng.randint(1, 3)):
                    alg = rng.choice(r["known"])
                    ents.insert(rng.randint(0, len(ents)), ('map', [(('text', b"alg"), int_item(alg)), (('text', b"type"), ('text', r["deLit"].encode()))]))
            return ('arr', ents)
        if "vec" in r:
            return ('arr', [self.wire_item(r["elem"], x, lossy) for x in v[1]])
        if "fields" in r:
            ents = []
            for i, (f, slot) in enumerate(zip(r["fields"], v[1])):
                key = ('u', r["indexed"] + i) if "indexed" in r else ('text', f["key"].encode())
                m = f["mode"]["m"]
                if slot is None:
                    if f["ser"] == "never" and rng.random() < lossy:
                        ents.append((('text', rng.choice([f["key"]] + f["aliases"]).encode()), ('text', rand_utf8(rng, rng.choice([0, 10, 128, 129, 300])))))
                    elif m == "skipLong" and rng.random() < lossy:
                        ents.append((key, ('text', rand_utf8(rng, f["mode"]["cap"] + rng.choice([1, 2, 50])))))
                    continue
                if m == "trunc" and rng.random() < lossy:
                    ents.append((key, ('text', rand_utf8(rng, f["mode"]["cap"] + rng.choice([-1, 0, 1, 2, 3, 40])))))
                    continue
                ents.append((key, self.wire_item(f["ty"], slot, lossy)))
            return ('map', ents)
        return self.value_item(t, v)

    def rand_unknown_item(self, depth=3):
        rng = self.rng
        c = rng.randrange(12 if depth > 0 else 8)
        if c == 0:
            return ('u', rng.choice(BOUNDARY_INTS))
        if c == 1:
            return ('neg', rng.choice(BOUNDARY_INTS))
        if c == 2:
            return ('bytes', rng.randbytes(rng.choice([0, 1, 23, 24, 300])))
        if c == 3:
            return ('text', rand_utf8(rng, rng.choice([0, 1, 23, 24, 300])))
        if c == 4:
            return rng.choice([FALSE, TRUE, NULL, ('simple', 23), ('simple', 0), ('simple', 32), ('simple', 255)])
        if c == 5:
            return rng.choice([('f16', 0x3c00), ('f32', 0x3f800000), ('f64', 0x3ff0000000000000)])
        if c == 6:
            return ('head', 0, rng.choice([0, 5, 23]), rng.choice([1, 2, 4, 8]))   # non-minimal int: skipper accepts
        if c == 7:
            return ('bytes', b"")
        if c == 8:
            return ('arr', [self.rand_unknown_item(depth - 1) for _ in range(rng.randint(0, 4))])
        if c == 9:
            return ('map', [(self.rand_unknown_item(0), self.rand_unknown_item(depth - 1)) for _ in range(rng.randint(0, 3))])
        if c == 10:
            return ('tag', rng.choice([0, 1, 24, 55799, 2 ** 32]), self.rand_unknown_item(depth - 1))
        return ('arr', [])


def enc_item_ext(it):
    """enc_item plus forced-width heads"""
    if it[0] == 'head':
        return forced_head(it[1], it[2], it[3])
    k = it[0]
    if k == 'arr':
        return head(4, len(it[1])) + b"".join(enc_item_ext(x) for x in it[1])
    if k == 'map':
        return head(5, len(it[1])) + b"".join(enc_item_ext(a) + enc_item_ext(b) for a, b in it[1])
    if k == 'tag':
        return head(6, it[1]) + enc_item_ext(it[2])
    return enc_item(it)
