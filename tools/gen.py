#!/usr/bin/env python3
"""Translator: AST dump of /repo (tools `extract`) -> model-level schema data.

  resolve(ast)            -> Model  (cfg-independent index of the crate)
  Model.schema(features)  -> {"types": {rust_path: TyJSON}, "roles": {...}, "caps": {...}}
  Model.tables()          -> command tables, enum tables, dispatch arms, constants, fingerprints

Everything here is *untrusted*: what it emits is exercised by the correspondence check.
A construct that the wire format depends on and that cannot be translated raises
`Untranslatable(name, why)`; the caller treats that as "the tie no longer checks".
"""
import hashlib
import json
import re
import sys

WIRE_FEATURES = ["get-info-full", "large-blobs", "third-party-payment"]


class Untranslatable(Exception):
    def __init__(self, where, why):
        super().__init__(f"{where}: {why}")
        self.where = where
        self.why = why


def cfg_id(features):
    return "".join("1" if f in features else "0" for f in WIRE_FEATURES)


ALL_CFGS = []
for _g in (0, 1):
    for _l in (0, 1):
        for _t in (0, 1):
            ALL_CFGS.append(frozenset(f for f, b in zip(WIRE_FEATURES, (_g, _l, _t)) if b))


# ----------------------------------------------------------------------------- cfg evaluation
def eval_cfg_meta(m, features):
    """m is the nested-meta JSON of the *argument* of cfg(...)"""
    p = m["p"]
    if p == "feature":
        return m["v"] in features
    if p == "not":
        return not eval_cfg_meta(m["l"][0], features)
    if p == "all":
        return all(eval_cfg_meta(x, features) for x in m["l"])
    if p == "any":
        return any(eval_cfg_meta(x, features) for x in m["l"])
    if p == "test":
        return False
    if p == "debug_assertions":
        return True
    raise Untranslatable("cfg", f"unknown cfg predicate {m}")


def effective_attrs(attrs, features):
    """expand cfg_attr, return (enabled, attrs_without_cfg)"""
    out = []
    enabled = True
    for a in attrs:
        if a["p"] == "cfg":
            if not eval_cfg_meta(a["l"][0], features):
                enabled = False
        elif a["p"] == "cfg_attr":
            if "l" in a and eval_cfg_meta(a["l"][0], features):
                out.extend(a["l"][1:])
        else:
            out.append(a)
    return enabled, out


def cfg_mentions(attrs):
    """feature names mentioned in cfg / cfg_attr of these attrs"""
    names = set()

    def walk(m):
        if m.get("p") == "feature":
            names.add(m["v"])
        for x in m.get("l", []):
            walk(x)

    for a in attrs:
        if a["p"] in ("cfg", "cfg_attr"):
            walk(a)
    return names


def serde_args(attrs, path="serde"):
    """flatten all #[serde(...)] arguments into a list of (key, value-or-None)"""
    out = []
    for a in attrs:
        if a["p"] == path:
            if "l" not in a:
                raise Untranslatable("attr", f"unparsed {path} attribute {a}")
            for x in a["l"]:
                out.append((x["p"], x.get("v")))
    return out


def derives(attrs):
    d = set()
    for a in attrs:
        if a["p"] == "derive":
            for x in a.get("l", []):
                d.add(x["p"].split("::")[-1])
    return d


# ----------------------------------------------------------------------------- helpers
def camel_case(name):
    parts = name.split("_")
    return parts[0] + "".join(p[:1].upper() + p[1:] for p in parts[1:])


RENAME_RULES = {
    "camelCase": camel_case,
    "snake_case": lambda s: s,
    "lowercase": lambda s: s,
}

INT_RE = re.compile(r"^(0x[0-9a-fA-F_]+|0b[01_]+|0o[0-7_]+|[0-9][0-9_]*)(u8|u16|u32|u64|usize|i8|i16|i32|i64|isize)?$")


def parse_int_lit(tok):
    m = INT_RE.match(tok)
    if not m:
        return None
    return int(m.group(1).replace("_", ""), 0)


def norm_tokens(s):
    return " ".join(s.split())


def fingerprint(s):
    return hashlib.sha256(norm_tokens(s or "").encode()).hexdigest()[:16]


LOG_RX = re.compile(r"\b(?:debug_now|debug|info_now|info|trace_now|trace|warn_now|warn|error_now|error) ! "
                    r"\((?:[^()]|\((?:[^()]|\([^()]*\))*\))*\) ;? ?")


USE_AS_RX = re.compile(r"\buse ((?:\w+ :: )*\w+) as (\w+) ; ")


def inline_local_aliases(body):
    """`use Path as Alias;` inside a function body: substitute and drop"""
    for m in list(USE_AS_RX.finditer(body)):
        path, alias = m.group(1), m.group(2)
        body = body.replace(m.group(0), "")
        body = re.sub(r"(?<![\w:] )(?<![\w])%s\b" % re.escape(alias), path, body)
    return body


LOG_UNSAFE = []        # (snippet) of log lines whose arguments are more than names (filled per Model)
LOG_SAFE_METHODS = {"len", "is_some", "is_none", "is_empty", "as_ref", "as_slice", "as_str", "as_bytes", "bits", "err", "ok",
                    "is_ok", "is_err", "capacity", "copied", "cloned", "clone", "iter", "count"}


def log_args_safe(args):
    """may the arguments of a log line be ignored?  Only if evaluating them can neither panic nor do
    anything: literals, names, field paths, references, and a few pure accessor calls.  Indexing,
    slicing, arithmetic, other calls, macros and `?` are not ignorable (they are evaluated when a
    log-* feature is on)."""
    t = re.sub(r'"(?:[^"\\]|\\.)*"', '""', args)
    if re.search(r"[\[\]{}?!+\-*/%<>|^]|\bas\b|\bif\b|\bmatch\b|\bunsafe\b", t.replace("&", " ").replace("* ", " ").replace("->", " ")):
        # `*x` deref of a plain name is fine, everything else that matched is not
        if re.search(r"[\[\]{}?!+\-/%<>|^]|\bas\b|\bif\b|\bmatch\b|\bunsafe\b", t) or re.search(r"\w \* \w|\d \*|\* \d", t):
            return False
    for m in re.finditer(r"(\w+) \(([^()]*)\)", t):
        if m.group(1) not in LOG_SAFE_METHODS or m.group(2).strip():
            return False
    if re.search(r"\(\s*\(", t):
        return False
    return True


def _strip_log(body):
    out, pos = "", 0
    for m in LOG_RX.finditer(body):
        inner = m.group(0)
        args = inner[inner.index("(") + 1:inner.rindex(")")]
        if log_args_safe(args):
            out += body[pos:m.start()]
        else:
            LOG_UNSAFE.append(norm_tokens(inner)[:160])
            out += body[pos:m.end()]
        pos = m.end()
    return out + body[pos:]


def strip_logging(x):
    """logging macro invocations whose arguments are plain names carry no behaviour any property
    speaks about: drop them from every function / arm body before anything is read (so they can be
    added, removed or reworded freely).  Log lines with richer arguments stay (see `log_args_safe`)."""
    if isinstance(x, dict):
        if x.get("kind") == "fn" and isinstance(x.get("body"), str) and USE_AS_RX.search(x["body"]):
            aliases = [(m.group(1), m.group(2)) for m in USE_AS_RX.finditer(x["body"])]
            for mt in x.get("matches", []):
                for arm in mt.get("arms", []):
                    for key in ("pat", "body"):
                        if isinstance(arm.get(key), str):
                            for path, alias in aliases:
                                arm[key] = re.sub(r"(?<![\w])%s\b" % re.escape(alias), path, arm[key])
        for k, v in list(x.items()):
            if k == "body" and isinstance(v, str):
                x[k] = inline_local_aliases(_strip_log(v))
            else:
                strip_logging(v)
    elif isinstance(x, list):
        for v in x:
            strip_logging(v)


class Model:
    def __init__(self, ast):
        del LOG_UNSAFE[:]
        strip_logging(ast)
        self.logging_unsafe = sorted(set(LOG_UNSAFE))
        self.ast = ast
        self.items = []  # (file, item)
        for f, v in sorted(ast["files"].items()):
            if "parse_error" in v:
                raise Untranslatable(f, "syn parse error: " + v["parse_error"])
            for it in v["items"]:
                self.items.append((f, it))
        self.by_name = {}
        for f, it in self.items:
            if it["kind"] in ("struct", "enum", "type", "const", "trait"):
                self.by_name.setdefault(it["name"], []).append(it)
        self.compute_cmodules()
        self.impls = [it for _, it in self.items if it["kind"] == "impl"]
        self.macros = [it for _, it in self.items if it["kind"] == "macro"]
        self.fns = [it for _, it in self.items if it["kind"] == "fn"]

    # ------------------------------------------------------------------ string recognisers
    REC_VOCAB = {"if", "else", "return", "let", "match", "Ok", "Err", "Self", "Some", "None", "iter", "into_iter", "copied", "cloned",
                 "find", "find_map", "map", "ok_or", "ok_or_else", "then_some", "then", "from", "into", "as_str", "str", "position",
                 "get", "Error", "TryFromStrError", "Into", "From", "static", "eq", "ne", "true", "false", "ref", "mut", "T", "Copy"}

    def recogniser_verdict(self, body, it, features, depth=0, sig=""):
        """'' when a `TryFrom<&str>` body the translator cannot read as a table still consists only of equality tests against
        spellings and of plain plumbing (if-chains, a lookup through the emitting direction over a list of variants, a
        small helper): it falls to the correspondence tier.  'recognising table: ' otherwise."""
        txt = re.sub(r'"(?:[^"\\]|\\.)*"', ' ', body)
        if re.search(r"(?<![A-Za-z_])[0-9]", txt):
            return "recognising table: "
        name = it["name"]
        variants = set(self.variant_names(it, features))
        bound = set(re.findall(r"\|\s*&?\s*(?:mut\s+)?([a-z_][a-z0-9_]*)\s*\|", txt)) | set(re.findall(r"\blet\s+(?:mut\s+)?([a-z_][a-z0-9_]*)\b", txt)) | \
            set(re.findall(r"[(,]\s*(?:mut\s+)?([a-z_][a-z0-9_]*)\s*:", sig)) | {"s", "value", "identifier", "name", "string", "text", "v", "_"}
        for ident in set(re.findall(r"[A-Za-z_][A-Za-z0-9_]*", txt)) - self.REC_VOCAB - bound - variants - {name}:
            if re.fullmatch(r"[A-Z][A-Z0-9_]*", ident):
                continue                                    # a constant: a spelling or a list of variants
            helpers = [f for f in self.fns if f["name"] == ident] + \
                      [f for imp in self.impls for f in imp.get("items", []) if f.get("kind") == "fn" and f.get("name") == ident]
            if helpers and depth < 2 and all(self.recogniser_verdict(f.get("body") or "", it, features, depth + 1, f.get("sig", "")) == "" for f in helpers):
                continue
            return "recognising table: "
        return ""

    # ------------------------------------------------------------------ the filter predicate
    PRED_VOCAB = {"if", "else", "return", "let", "match", "Err", "Ok", "Self", "Error", "UnknownPKCredentialParam", "UnknownType", "UnknownAlg",
                  "PublicKeyCredentialParameters", "KnownPublicKeyCredentialParameters", "value", "alg", "key_type", "KNOWN_ALGS",
                  "contains", "iter", "any", "as_str", "true", "false", "matches", "ref", "mut", "ES256", "ED_DSA", "COUNT_KNOWN_ALGS"}

    def predicate_verdict(self, body, depth=0, sig=""):
        """'' when a body the translator cannot read exactly is still made only of plain comparisons of the type string
        with the literal and of the algorithm with the known list (rewritten, destructured, through a constant or a small
        helper) — it then falls to the correspondence tier like any refactored body; 'recognising predicate: ' when it
        brings in anything else (a hash, a case-folding compare, a normalisation, another literal), which sampling
        cannot vouch for"""
        txt = re.sub(r'"(?:[^"\\]|\\.)*"', ' S ', body)
        if len(re.findall(r'"(?:[^"\\]|\\.)*"', body)) > 1 or \
                [n for n in re.findall(r"(?<![A-Za-z_0-9])[0-9][0-9A-Za-z_]*", txt.replace(" S ", " ")) if n not in ("0", "1")]:
            return "recognising predicate: "
        bound = set(re.findall(r"\|\s*(?:&\s*)?([a-z_][a-z0-9_]*)\s*\|", txt)) | set(re.findall(r"\blet\s+(?:mut\s+)?([a-z_][a-z0-9_]*)\b", txt)) | \
            set(re.findall(r"[(,]\s*(?:mut\s+)?([a-z_][a-z0-9_]*)\s*:", sig)) | set(re.findall(r"\bfor\s+([a-z_][a-z0-9_]*)\s+in\b", txt))
        loopv = {"while", "loop", "break", "for", "in", "len", "bool", "i32", "usize", "const", "fn", "pub", "self"}
        for ident in set(re.findall(r"[A-Za-z_][A-Za-z0-9_]*", txt)) - self.PRED_VOCAB - loopv - bound - {"S", "_"}:
            cands = self.by_name.get(ident, [])
            if cands and all(c["kind"] == "const" and re.fullmatch(r'\s*"(?:[^"\\]|\\.)*"\s*', c.get("expr") or "") for c in cands):
                continue                                    # a string constant standing for the literal
            helpers = [f for f in self.fns if f["name"] == ident] + \
                      [f for imp in self.impls for f in imp.get("items", []) if f.get("kind") == "fn" and f.get("name") == ident]
            if helpers and depth < 2 and all(self.predicate_verdict(f.get("body") or "", depth + 1, f.get("sig", "")) == "" for f in helpers):
                continue                                    # a small helper made of the same vocabulary
            return "recognising predicate: "
        return ""

    # ------------------------------------------------------------------ configuration space
    CFG_KNOWN = {'feature="get-info-full"', 'feature="large-blobs"', 'feature="third-party-payment"', 'feature="arbitrary"', "test"}

    def foreign_cfg_atoms(self):
        """every predicate atom of every `#[cfg(..)]`, `#[cfg_attr(.., ..)]` and `cfg!(..)` outside test modules that is not
        one of the three wire features / `arbitrary` / `test`"""
        atoms = set()

        def pred(m):
            if m.get("p") in ("not", "any", "all"):
                for x in m.get("l", []):
                    pred(x)
            elif "v" in m and m.get("v") is not None:
                atoms.add(f'{m["p"]}="{m["v"]}"')
            else:
                atoms.add(m["p"])

        def walk(x):
            if isinstance(x, dict):
                for a in x.get("attrs", []) or []:
                    if isinstance(a, dict) and a.get("p") == "cfg":
                        for y in a.get("l", []):
                            pred(y)
                    elif isinstance(a, dict) and a.get("p") == "cfg_attr" and a.get("l"):
                        pred(a["l"][0])
                for v in x.values():
                    walk(v)
            elif isinstance(x, list):
                for v in x:
                    walk(v)
            elif isinstance(x, str) and "cfg" in x:
                txt = x.replace(" ", "")
                for m in re.finditer(r"cfg(?:_attr)?!?\(", txt):
                    depth, j = 1, m.end()
                    while j < len(txt) and depth:
                        depth += txt[j] == "("
                        depth -= txt[j] == ")"
                        j += 1
                    inner = txt[m.end():j - 1]
                    if "cfg_attr" in m.group(0):
                        # only the predicate (up to the first top-level comma)
                        d = 0
                        for k, ch in enumerate(inner):
                            d += ch == "("
                            d -= ch == ")"
                            if ch == "," and d == 0:
                                inner = inner[:k]
                                break
                    for a in re.finditer(r'([A-Za-z_][A-Za-z0-9_]*)(?:="([^"]*)")?', inner):
                        if a.group(1) in ("not", "any", "all"):
                            continue
                        atoms.add(a.group(1) + (f'="{a.group(2)}"' if a.group(2) is not None else ""))
        for _, it in self.items:
            walk(it)
        return atoms - self.CFG_KNOWN

    # ------------------------------------------------------------------ re-exports
    def compute_cmodules(self):
        """canonical (publicly reachable) module of every item: an item of a private module that its
        parent re-exports with `pub use` is known to the outside — and to the specification, the
        harness and the baseline — under the parent's path"""
        mods = {}
        for _, it in self.items:
            if it["kind"] == "mod":
                mods[(it["module"], it["name"])] = (it.get("vis") or "").strip()
        private = {k for k, v in mods.items() if not v.startswith("pub") or "crate" in v or "super" in v}

        def resolve(path, base):
            segs = path.split("::")
            if segs[0] == "crate":
                return "::".join(segs[1:])
            cur = base
            while segs and segs[0] in ("self", "super"):
                if segs[0] == "super":
                    cur = "::".join(cur.split("::")[:-1])
                segs = segs[1:]
            if path.split("::")[0] in ("self", "super"):
                return (cur + "::" + "::".join(segs)).strip(":")
            if (base, segs[0]) in mods:
                return (base + "::" + "::".join(segs)).strip(":")
            return None            # an external crate or an unresolvable path

        reexp = {}                  # (source module, name or "*") -> re-exporting module
        for _, it in self.items:
            if it["kind"] == "use" and (it.get("vis") or "").strip() == "pub":
                for u in it["paths"]:
                    full = resolve(u["path"], it["module"])
                    if full is None:
                        continue
                    if u["glob"]:
                        reexp[(full, "*")] = it["module"]
                    elif u["alias"] is None or u["alias"] == full.split("::")[-1]:
                        reexp[("::".join(full.split("::")[:-1]), full.split("::")[-1])] = it["module"]
        for _, it in self.items:
            if "name" not in it or "module" not in it:
                continue
            m = it["module"]
            for _ in range(6):
                par, last = "::".join(m.split("::")[:-1]), m.split("::")[-1]
                if m and (par, last) in private and ((m, it["name"]) in reexp or (m, "*") in reexp):
                    m = reexp.get((m, it["name"]), reexp.get((m, "*")))
                else:
                    break
            it["cmodule"] = m

    @staticmethod
    def key_of(it):
        return it.get("cmodule", it["module"]) + "::" + it["name"]

    # ------------------------------------------------------------------ name resolution
    def lookup(self, path, module, kinds, features):
        """resolve a (possibly qualified) path to an item of one of `kinds` enabled in cfg"""
        segs = [s for s in path.split("::")]
        name = segs[-1]
        quals = [s for s in segs[:-1] if s not in ("crate", "self")]
        cands = []
        for it in self.by_name.get(name, []):
            if it["kind"] not in kinds:
                continue
            en, _ = effective_attrs(it.get("attrs", []), features)
            if en:
                cands.append(it)
        if not cands:
            return None
        mod = module
        q = list(quals)
        while q and q[0] == "super":
            mod = "::".join(mod.split("::")[:-1])
            q.pop(0)
        if q or (quals and quals[0] == "super"):
            suffix = "::".join(q)
            want = (mod + "::" + suffix).strip(":") if quals and quals[0] == "super" else None
            sel = []
            for it in cands:
                for m in {it["module"], it.get("cmodule", it["module"])}:
                    if want is not None:
                        if m == want:
                            sel.append(it)
                            break
                    elif m == suffix or m.endswith("::" + suffix) or (mod + "::" + suffix).strip(":") == m:
                        sel.append(it)
                        break
            if len(sel) == 1:
                return sel[0]
            if len(sel) > 1:
                exact = [it for it in sel if (mod + "::" + suffix).strip(":") in (it["module"], it.get("cmodule"))]
                if len(exact) == 1:
                    return exact[0]
            if not sel:
                return None
            raise Untranslatable(path, f"ambiguous path in {module}")
        same = [it for it in cands if module in (it["module"], it.get("cmodule"))]
        if len(same) == 1:
            return same[0]
        # walk up parents
        m = module
        while m:
            m = "::".join(m.split("::")[:-1])
            up = [it for it in cands if m in (it["module"], it.get("cmodule"))]
            if len(up) == 1:
                return up[0]
        if len(cands) == 1:
            return cands[0]
        raise Untranslatable(path, f"ambiguous name in {module}: {[c['module'] for c in cands]}")

    # ------------------------------------------------------------------ const evaluation
    def const_value(self, expr, module, features, owner=None, depth=0):
        if depth > 20:
            raise Untranslatable(expr, "const recursion")
        # `if cfg!(feature = "x") { A } else { B }`
        cm = re.fullmatch(r"\s*if cfg ! \(\s*(not \()?\s*feature = \"([\w-]+)\"\s*\)?\s*\) \{(.*)\} else \{(.*)\}\s*", expr)
        if cm:
            on = (cm.group(2) in features) != bool(cm.group(1))
            return self.const_value(cm.group(3) if on else cm.group(4), module, features, owner, depth + 1)
        # `ARRAY_CONST.len()`
        lm = re.fullmatch(r"\s*((?:\w+\s*::\s*)*\w+)\s*\.\s*len\s*\(\s*\)\s*", expr)
        if lm:
            it = self.lookup(lm.group(1).replace(" ", ""), module, ("const",), features)
            if it is not None:
                e = it["expr"].strip()
                if e.startswith("[") and e.endswith("]"):
                    inner = e[1:-1]
                    if ";" in inner:            # [x; N]
                        return self.const_value(inner.rsplit(";", 1)[1], it["module"], features, owner, depth + 1)
                    return len([x for x in inner.split(",") if x.strip()])
                if it["ty"].get("k") == "array":
                    return self.const_value(it["ty"]["len"], it["module"], features, owner, depth + 1)
            raise Untranslatable(expr, "length of a non-array constant")
        toks = expr.replace("{", " ( ").replace("}", " ) ").replace("(", " ( ").replace(")", " ) ").split()
        out = []
        i = 0
        while i < len(toks):
            t = toks[i]
            v = parse_int_lit(t)
            if v is not None:
                out.append(str(v))
            elif t in ("+", "-", "*", "/", "(", ")", "<<", ">>", "|", "&", "%"):
                out.append("//" if t == "/" else t)
            elif t == "as":
                i += 1  # drop the cast target
            elif re.match(r"^[A-Za-z_][A-Za-z0-9_]*$", t) or "::" in t:
                # path: gather a :: b :: C
                path = t
                while i + 2 < len(toks) and toks[i + 1] == "::":
                    path += "::" + toks[i + 2]
                    i += 2
                out.append(str(self.named_const(path, module, features, owner, depth + 1)))
            elif t == "::":
                raise Untranslatable(expr, "unexpected ::")
            else:
                raise Untranslatable(expr, f"cannot evaluate token {t!r}")
            i += 1
        try:
            return int(eval(" ".join(out), {"__builtins__": {}}, {}))
        except Exception as e:  # noqa
            raise Untranslatable(expr, f"const eval failed: {e}")

    def named_const(self, path, module, features, owner=None, depth=0):
        segs = path.split("::")
        name = segs[-1]
        # associated const: Self::X / Type::X
        if len(segs) >= 2 and (segs[-2] == "Self" or segs[-2][:1].isupper()):
            ty = owner if segs[-2] == "Self" else segs[-2]
            for imp in self.impls:
                if imp["trait"] is None and imp["self_ty"].split("<")[0].strip() == ty:
                    for it in imp["items"]:
                        if it["kind"] == "const" and it["name"] == name:
                            en, _ = effective_attrs(it.get("attrs", []), features)
                            if en:
                                return self.const_or_str(it, imp["module"], features, ty, depth)
            raise Untranslatable(path, "associated const not found")
        it = self.lookup(path, module, ("const",), features)
        if it is None:
            raise Untranslatable(path, f"const not found (module {module})")
        return self.const_or_str(it, it["module"], features, owner, depth)

    def const_or_str(self, it, module, features, owner, depth):
        e = it["expr"].strip()
        if e.startswith('"') or e.startswith('b"'):
            return e
        return self.const_value(e, module, features, owner, depth)

    def str_const(self, path, module, features, owner=None):
        """resolve an expression that should be a string literal or a const naming one"""
        e = path.strip()
        if e.startswith('"'):
            return json.loads(e)
        v = self.named_const(e.replace(" ", ""), module, features, owner)
        if isinstance(v, str) and v.startswith('"'):
            return json.loads(v)
        raise Untranslatable(path, "not a string constant")

    def const_arg(self, arg, module, features):
        """a generic argument that should be a const (syn may have parsed it as a type path)"""
        if arg["k"] == "const":
            return self.const_value(arg["expr"], module, features)
        if arg["k"] == "path" and not arg["args"]:
            return self.named_const(arg["path"], module, features)
        raise Untranslatable(json.dumps(arg), "not a const generic argument")

    # ------------------------------------------------------------------ types
    def ty_of(self, t, module, features, stack=()):
        k = t["k"]
        if k == "ref":
            r = dict(self.ty_of(t["inner"], module, features, stack))
            r["ref"] = True
            return r
        if k == "tuple":
            if not t["elems"]:
                return {"leaf": "unit"}
            raise Untranslatable("tuple", "non-unit tuple in wire type")
        if k != "path":
            raise Untranslatable(json.dumps(t), "unsupported type form in wire type")
        name, path, args = t["name"], t["path"], t["args"]
        prim = {"u8": "u8", "u32": "u32", "u64": "u64", "usize": "u64"}
        if not args and path in prim:
            return {"leaf": "uint", "w": prim[path]}
        if path == "i32":
            return {"leaf": "i32"}
        if path == "bool":
            return {"leaf": "bool"}
        if path == "str":
            return {"leaf": "str", "cap": None}
        if path in ("u16", "i8", "i16", "i64", "u128", "i128", "f32", "f64", "char"):
            raise Untranslatable(path, "primitive not modelled")
        if name == "Bytes":
            if "serde_bytes" in path.split("::"):
                return {"leaf": "bytes", "cap": None}
            if len(args) == 1:
                return {"leaf": "bytes", "cap": self.const_arg(args[0], module, features)}
        if name == "ByteArray" and len(args) == 1:
            return {"leaf": "byteArray", "n": self.const_arg(args[0], module, features)}
        if name == "String" and len(args) == 1:
            return {"leaf": "str", "cap": self.const_arg(args[0], module, features)}
        if name == "Vec" and len(args) == 2:
            return {"vec": self.const_arg(args[1], module, features),
                    "elem": self.ty_of(args[0], module, features, stack)}
        if name == "Option":
            raise Untranslatable("Option", "Option outside a struct field")
        it = self.lookup(path, module, ("struct", "enum", "type"), features)
        if it is None:
            ext = {"EcdhEsHkdf256PublicKey": {"leaf": "coseEcdh"}, "PublicKey": {"leaf": "cosePub"}}
            if name in ext:
                return ext[name]
            raise Untranslatable(path, f"unknown type (in {module})")
        key = self.key_of(it)
        if key in stack:
            raise Untranslatable(key, "recursive type")
        if it["kind"] == "type":
            return self.ty_of(it["ty"], it["module"], features, stack + (key,))
        return {"named": key}

    def named_ty(self, key, features):
        """Ty JSON of a crate struct/enum by rust path"""
        mod, name = key.rsplit("::", 1) if "::" in key else ("", key)
        it = None
        for c in self.by_name.get(name, []):
            if c.get("cmodule", c["module"]) == mod and c["kind"] in ("struct", "enum"):
                en, _ = effective_attrs(c.get("attrs", []), features)
                if en:
                    it = c
        if it is None:
            raise Untranslatable(key, "type not present in this configuration")
        mod = it["module"]          # names inside the item resolve where it is defined
        en, attrs = effective_attrs(it["attrs"], features)
        d = derives(attrs)
        sargs = serde_args(attrs)
        # a derive replaced by (or shadowed by) a hand-written impl is outside what the translator reads
        derived_any = any(x in d for x in ("Serialize", "Deserialize", "SerializeIndexed", "DeserializeIndexed",
                                            "Serialize_repr", "Deserialize_repr"))
        if derived_any:
            for tr in ("Serialize", "Deserialize"):
                if self.manual_impl(tr, name, mod) is not None:
                    raise Untranslatable(key, f"hand-written {tr} impl on a type that also derives its serde representation")
        if it["kind"] == "struct":
            if "SerializeIndexed" in d or "DeserializeIndexed" in d:
                return self.indexed_ty(it, attrs, features, d)
            if "Serialize" in d or "Deserialize" in d:
                return self.text_ty(it, attrs, features, d)
            return self.custom_ty(it, features)
        # enums
        sd = dict(sargs)
        if "Serialize_repr" in d or "Deserialize_repr" in d:
            reprs = [x for a in attrs if a["p"] == "repr" for x in a.get("l", [])]
            if [r["p"] for r in reprs] != ["u8"]:
                raise Untranslatable(key, f"serde_repr with repr {reprs}")
            discs = []
            for v in it["variants"]:
                ven, _ = effective_attrs(v["attrs"], features)
                if not ven:
                    continue
                if v["disc"] is None:
                    raise Untranslatable(key, "repr enum variant without explicit discriminant")
                discs.append(self.const_value(v["disc"], mod, features))
            return {"leaf": "enumRepr", "discs": discs, "variants": self.variant_names(it, features),
                    "caps": {"ser": "Serialize_repr" in d, "de": "Deserialize_repr" in d}}
        if sd.get("into") == "&str" or sd.get("try_from") == "&str":
            for k_ in ("into", "try_from"):
                if k_ in sd and sd[k_] != "&str":
                    raise Untranslatable(key, f"serde({k_} = {sd[k_]!r}): only the borrowed-str representation is modelled")
            ser, de = self.str_enum_tables(it, features)
            return {"leaf": "enumStr", "ser": ser, "de": de, "variants": self.variant_names(it, features),
                    "caps": {"ser": "Serialize" in d, "de": "Deserialize" in d}}
        if "untagged" in sd:
            alts = []
            for v in it["variants"]:
                ven, _ = effective_attrs(v["attrs"], features)
                if not ven:
                    continue
                if len(v["fields"]) != 1:
                    raise Untranslatable(key, "untagged variant must have one field")
                alts.append({"rust": v["name"], "ty": self.ty_of(v["fields"][0]["ty"], mod, features)})
            return {"untagged": alts, "caps": {"ser": "Serialize" in d, "de": "Deserialize" in d}}
        raise Untranslatable(key, "enum without a modelled serde representation")

    def variant_names(self, it, features):
        out = []
        for v in it["variants"]:
            ven, _ = effective_attrs(v["attrs"], features)
            if ven:
                out.append(v["name"])
        return out

    def str_enum_tables(self, it, features):
        name, mod = it["name"], it["module"]
        variants = self.variant_names(it, features)
        ser = [None] * len(variants)
        de = []
        for imp in self.impls:
            tr = (imp["trait"] or "").replace(" ", "")
            st = imp["self_ty"].replace(" ", "")
            if tr == f"From<{name}>" and st == "&str" and imp["module"] == mod:
                m = self.single_match(imp, "from", owner=name)
                for arm in m["arms"]:
                    if not effective_attrs(arm.get("attrs", []), features)[0]:
                        continue
                    v = arm["pat"].replace(" ", "").split("::")[-1]
                    if v not in variants:
                        raise Untranslatable(name, f"From<{name}> for &str: odd arm {arm['pat']}")
                    ser[variants.index(v)] = self.str_const(arm["body"], mod, features, owner=name)
            if tr == "TryFrom<&str>" and st == name and imp["module"] == mod:
                try:
                    m = self.single_match(imp, "try_from", owner=name)
                    for arm in m["arms"]:
                        if not effective_attrs(arm.get("attrs", []), features)[0]:
                            continue
                        pat = arm["pat"].replace(" ", "")
                        if pat == "_":
                            break
                        body = arm["body"].replace(" ", "")
                        mm = re.match(r"^Ok\((?:Self|%s)::(\w+)\)$" % name, body)
                        if not mm or mm.group(1) not in variants or arm["guard"]:
                            raise Untranslatable(name, f"TryFrom<&str>: odd arm {arm}")
                        de.append([self.str_const(pat, mod, features, owner=name), variants.index(mm.group(1))])
                except Untranslatable as e:
                    # the direction that decides which spellings are *accepted*: unreadable and made of more than plain
                    # equality tests (a case fold, a trim, a prefix strip, a hash) is what no sampling can vouch for
                    body = ""
                    for f in imp["items"]:
                        if f["kind"] == "fn" and f["name"] == "try_from":
                            body = f.get("body") or ""
                    raise Untranslatable(name, self.recogniser_verdict(body, it, features) + str(e))
        if any(s is None for s in ser):
            raise Untranslatable(name, "From<Enum> for &str table incomplete")
        seen, uniq = set(), []
        for k_, i_ in de:               # a repeated pattern can never match: first occurrence wins
            if k_ not in seen:
                seen.add(k_)
                uniq.append([k_, i_])
        de = sorted(uniq, key=lambda x: (x[1], x[0]))    # arms with distinct patterns commute
        return ser, de

    def single_match(self, imp, fn_name, owner=None):
        for f in imp["items"]:
            if f["kind"] == "fn" and f["name"] == fn_name:
                if not f["matches"]:
                    # a conversion that only delegates to an inherent helper (`value.as_str()`, `Self::from_code(x)`)
                    dm = re.fullmatch(r"\{ (?:\w+|Self) (?:\.|::) (\w+) \((?:\w*)\) \}", (f.get("body") or "").strip())
                    if dm:
                        cands = [g for i2 in self.impls if i2["trait"] is None and i2["module"] == imp["module"]
                                 and (owner is None or i2["self_ty"].replace(" ", "").split("<")[0] == owner)
                                 for g in i2["items"] if g["kind"] == "fn" and g["name"] == dm.group(1) and g.get("matches")]
                        if len(cands) == 1:
                            return cands[0]["matches"][0]
                    raise Untranslatable(imp["self_ty"], f"{fn_name}: no match expression")
                if owner is not None and fn_name == "try_from":
                    # the match must be the whole body and scrutinise the parameter itself: a statement in front of it
                    # (trimming, case folding, a prefix strip) changes what is accepted without touching any arm
                    pm = re.search(r"\(\s*(?:mut\s+)?([A-Za-z_][A-Za-z0-9_]*)\s*:", f.get("sig", ""))
                    pn = pm.group(1) if pm else None
                    b = (f.get("body") or "").strip()
                    if pn is None or not re.match(r"\{ (?:Ok \( )?match %s \{" % re.escape(pn), b):
                        raise Untranslatable(imp["self_ty"], f"{fn_name}: the match is not the whole body / not on the parameter itself")
                return f["matches"][0]
        raise Untranslatable(imp["self_ty"], f"fn {fn_name} not found")

    def fields_of(self, it, features):
        out = []
        for f in it["fields"]:
            en, attrs = effective_attrs(f["attrs"], features)
            if en:
                out.append((f, attrs))
        return out

    def indexed_ty(self, it, attrs, features, d):
        key = self.key_of(it)
        off = 0
        for a in attrs:
            if a["p"] in ("serde_indexed", "serde"):
                for x in a.get("l", []):
                    if x["p"] == "offset":
                        off = int(x["v"])
                    else:
                        raise Untranslatable(key, f"serde-indexed container attribute {x['p']}")
        fs = []
        for f, fattrs in self.fields_of(it, features):
            sa = serde_args(fattrs)
            skip = None
            for k, v in sa:
                if k == "skip_serializing_if":
                    skip = v
                else:
                    raise Untranslatable(key + "." + f["name"], f"serde-indexed field attribute {k}")
            ty = f["ty"]
            if skip is not None:
                if skip.replace(" ", "") != "Option::is_none":
                    raise Untranslatable(key + "." + f["name"], f"skip_serializing_if = {skip}")
                if not (ty["k"] == "path" and ty["name"] == "Option" and len(ty["args"]) == 1):
                    raise Untranslatable(key + "." + f["name"], "skip_serializing_if on non-Option")
                inner = self.ty_of(ty["args"][0], it["module"], features)
                fs.append({"rust": f["name"], "key": "", "aliases": [], "required": False,
                           "mode": {"m": "plain"}, "ser": "skipNone", "ty": inner})
            else:
                if ty["k"] == "path" and ty["name"] == "Option":
                    # would be read through deserialize_option and written as null when unset
                    inner = self.ty_of(ty["args"][0], it["module"], features)
                    fs.append({"rust": f["name"], "key": "", "aliases": [], "required": True,
                               "mode": {"m": "nullable"}, "ser": "always", "ty": inner})
                else:
                    fs.append({"rust": f["name"], "key": "", "aliases": [], "required": True,
                               "mode": {"m": "plain"}, "ser": "always",
                               "ty": self.ty_of(ty, it["module"], features)})
        return {"indexed": off, "fields": fs,
                "caps": {"ser": "SerializeIndexed" in d, "de": "DeserializeIndexed" in d}}

    def text_ty(self, it, attrs, features, d):
        key = self.key_of(it)
        rename_all = None
        for k, v in serde_args(attrs):
            if k == "rename_all":
                if v not in RENAME_RULES:
                    raise Untranslatable(key, f"rename_all = {v}")
                rename_all = RENAME_RULES[v]
            elif k in ("deny_unknown_fields", "default", "transparent", "tag", "content", "from",
                       "into", "try_from", "remote", "bound", "rename", "rename_all_fields"):
                raise Untranslatable(key, f"serde container attribute {k} not modelled")
            else:
                raise Untranslatable(key, f"serde container attribute {k}")
        if it.get("tuple") or it.get("unit"):
            raise Untranslatable(key, "tuple/unit struct with serde derive")
        fs = []
        for f, fattrs in self.fields_of(it, features):
            sa = serde_args(fattrs)
            name = f["name"]
            wire = rename_all(name) if rename_all else name
            aliases = []
            has_default = False
            ser = "always"
            dw = None
            for k, v in sa:
                if k == "rename":
                    wire = v
                elif k == "alias":
                    aliases.append(v)
                elif k == "default":
                    if v is not None:
                        raise Untranslatable(key + "." + name, "default = path")
                    has_default = True
                elif k == "skip_serializing_if":
                    if v.replace(" ", "") != "Option::is_none":
                        raise Untranslatable(key + "." + name, f"skip_serializing_if = {v}")
                    ser = "skipNone"
                elif k == "skip_serializing":
                    ser = "never"
                elif k == "deserialize_with":
                    dw = v
                else:
                    raise Untranslatable(key + "." + name, f"serde field attribute {k}")
            ty = f["ty"]
            is_opt = ty["k"] == "path" and ty["name"] == "Option" and len(ty["args"]) == 1
            if dw is not None:
                if not is_opt:
                    raise Untranslatable(key + "." + name, "deserialize_with on non-Option")
                inner = self.ty_of(ty["args"][0], it["module"], features)
                if inner.get("leaf") != "str" or inner.get("cap") is None:
                    raise Untranslatable(key + "." + name, "deserialize_with on non-String")
                cap = inner["cap"]
                fn = dw.split("::")[-1]
                if fn == "deserialize_from_str_and_truncate":
                    mode = {"m": "trunc", "cap": cap, "win": self.truncate_window()}
                elif fn == "deserialize_from_str_and_skip_if_too_long":
                    mode = {"m": "skipLong", "cap": cap}
                else:
                    raise Untranslatable(key + "." + name, f"deserialize_with = {dw}")
                fs.append({"rust": name, "key": wire, "aliases": aliases, "required": not has_default,
                           "mode": mode, "ser": ser, "ty": {"leaf": "str", "cap": None}})
            elif is_opt:
                inner = self.ty_of(ty["args"][0], it["module"], features)
                fs.append({"rust": name, "key": wire, "aliases": aliases, "required": False,
                           "mode": {"m": "nullable"}, "ser": ser, "ty": inner})
            else:
                fs.append({"rust": name, "key": wire, "aliases": aliases, "required": not has_default,
                           "mode": {"m": "plain"}, "ser": ser,
                           "ty": self.ty_of(ty, it["module"], features)})
        return {"text": True, "fields": fs, "caps": {"ser": "Serialize" in d, "de": "Deserialize" in d}}

    # ------------------------------------------------------------------ hand-modelled types
    def find_fn(self, name, module=None):
        for f in self.fns:
            if f["name"] == name and (module is None or f.get("module") == module):
                return f
        for f in self.fns:          # moved into a (private) sub-module
            if f["name"] == name and module is not None and (f.get("module") or "").startswith(module + "::"):
                return f
        return None

    STR_HELPERS = {
        "deserialize_from_str_and_skip_if_too_long":
            "{ let s : & 'de str = Deserialize :: deserialize (deserializer) ? ; match s . parse :: < String < L > > () "
            "{ Ok (string) => Ok (Some (string)) , Err (_err) => { Ok (None) } } }",
        "deserialize_from_str_and_truncate":
            "{ let s : Option < & str > = serde :: Deserialize :: deserialize (deserializer) ? ; Ok (s . map (truncate)) }",
        "truncate":
            "{ let split = floor_char_boundary (s , L) ; let mut truncated = String :: new () ; "
            "truncated . push_str (& s [.. split]) . unwrap () ; truncated }",
        "floor_char_boundary":
            "{ if index >= s . len () { s . len () } else { let lower_bound = index . saturating_sub (%WIN%) ; "
            "let new_index = s . as_bytes () [lower_bound ..= index] . iter () . rposition (| b | is_utf8_char_boundary (* b)) ; "
            "unsafe { lower_bound + new_index . unwrap_unchecked () } } }",
        "is_utf8_char_boundary": "{ (b as i8) >= - 0x40 }",
    }

    def check_str_helpers(self):
        """the five string helpers behind the lossy readers must be the bodies the model describes
        (modulo local names and logging); the look-back window is a parameter"""
        for name, tmpl in self.STR_HELPERS.items():
            f = self.find_fn(name, "webauthn")
            if f is None:
                raise Untranslatable(name, "function not found")
            body = re.sub(r"\b(?:debug_now|debug|info_now|info|trace|warn|error|error_now) ! \((?:[^()]|\([^()]*\))*\) ; ", "", f["body"])
            if name == "floor_char_boundary":
                m = re.search(r"saturating_sub \(\s*(\w+)\s*\)", body)
                tmpl = tmpl.replace("%WIN%", m.group(1) if m else "?")
            if self.alpha(body) != self.alpha(tmpl):
                raise Untranslatable(name, "body is not the one the model describes")
        imp = self.manual_impl("Deserialize", "Icon", "webauthn")
        b = " ".join(f.get("body") or "" for f in (imp["items"] if imp else []) if f["kind"] == "fn")
        if self.alpha(b) != self.alpha("{ let _s : & 'de str = Deserialize :: deserialize (deserializer) ? ; Ok (Self) }"):
            raise Untranslatable("Icon::deserialize", "body is not `read a borrowed str, discard it`")
        imp = self.manual_impl("Serialize", "FilteredPublicKeyCredentialParameters", "webauthn")
        b = " ".join(f.get("body") or "" for f in (imp["items"] if imp else []) if f["kind"] == "fn")
        if self.alpha(b) != self.alpha("{ use serde :: ser :: SerializeSeq ; let mut seq = serializer . serialize_seq (Some (self . 0 . len ())) ? ; "
                                       "for element in & self . 0 { let el : PublicKeyCredentialParameters = element . clone () . into () ; "
                                       "seq . serialize_element (& el) ? } seq . end () }"):
            raise Untranslatable("FilteredPublicKeyCredentialParameters::serialize", "body is not `one entry per element, in order`")

    def truncate_window(self):
        f = self.find_fn("floor_char_boundary")
        if f is None:
            raise Untranslatable("floor_char_boundary", "function not found")
        m = re.search(r"saturating_sub \(\s*(\w+)\s*\)", f["body"])
        if not m:
            raise Untranslatable("floor_char_boundary", "window expression not recognised")
        v = parse_int_lit(m.group(1))
        if v is None:
            raise Untranslatable("floor_char_boundary", "window is not a literal")
        return v

    def manual_impl(self, trait, name, module=None):
        for imp in self.impls:
            tr = (imp["trait"] or "").replace(" ", "")
            if tr.split("<")[0].split("::")[-1] == trait and imp["self_ty"].split("<")[0].strip().split("::")[-1].strip() == name:
                if module is None or imp["module"] == module:
                    return imp
        return None

    def custom_ty(self, it, features):
        key = self.key_of(it)
        name = it["name"]
        has_de = self.manual_impl("Deserialize", name) is not None
        has_ser = self.manual_impl("Serialize", name) is not None
        if name == "Icon" and has_de:
            return {"leaf": "icon", "caps": {"ser": False, "de": True}}
        if name == "FilteredPublicKeyCredentialParameters" and has_de:
            fields = self.fields_of(it, features)
            if len(fields) != 1:
                raise Untranslatable(key, "expected a one-field tuple struct")
            vt = self.arb_resolve(fields[0][0]["ty"], it["module"], features)
            if vt.get("name") != "Vec" or len(vt["args"]) != 2:
                raise Untranslatable(key, "expected Vec<Known.., N>")
            cap = self.const_arg(vt["args"][1], it["module"], features)
            known_expr = None
            for c in self.by_name.get("KNOWN_ALGS", []):
                known_expr = c["expr"]
            if known_expr is None:
                raise Untranslatable("KNOWN_ALGS", "not found")
            inner = known_expr.strip()
            if not (inner.startswith("[") and inner.endswith("]")):
                raise Untranslatable("KNOWN_ALGS", "not an array literal")
            known = [self.const_value(x.strip(), it["module"], features)
                     for x in inner[1:-1].split(",") if x.strip()]
            # literals in TryFrom<PublicKeyCredentialParameters> and From<Known..>
            de_lit = ser_lit = None
            for imp in sorted(self.impls, key=lambda i_: not (i_["trait"] or "").replace(" ", "").startswith("TryFrom<PublicKeyCredentialParameters>")):
                tr = (imp["trait"] or "").replace(" ", "")
                st = imp["self_ty"].replace(" ", "")
                if tr == "TryFrom<PublicKeyCredentialParameters>" and st == "KnownPublicKeyCredentialParameters":
                    body = imp["items"][-1]["body"] if imp["items"] else ""
                    for f in imp["items"]:
                        if f["kind"] == "fn" and f["name"] == "try_from":
                            body = f["body"]
                    m = re.search(r'key_type != ("(?:[^"\\]|\\.)*")', body)
                    if not m or "KNOWN_ALGS . contains" not in body:
                        raise Untranslatable(st, self.predicate_verdict(body, 0, " ".join(f.get("sig", "") for f in imp["items"] if f["kind"] == "fn")) + "try_from body not recognised")
                    de_lit = json.loads(m.group(1))
                    # the predicate *is* the table of what is kept: the whole body, not a fragment of it, must be the
                    # two plain comparisons (a tag / hash compare, a normalisation in front, a third branch are not)
                    sig = ""
                    for f in imp["items"]:
                        if f["kind"] == "fn" and f["name"] == "try_from":
                            sig = f.get("sig", "")
                    pm = re.search(r"\(\s*(?:mut\s+)?([A-Za-z_][A-Za-z0-9_]*)\s*:", sig)
                    pn = pm.group(1) if pm else "value"
                    nb = re.sub(r"\b%s\b" % re.escape(pn), "value", body).replace(" ", "")
                    nb = nb.replace("Self::Error::", "UnknownPKCredentialParam::")
                    L = m.group(1).replace(" ", "")
                    forms = [
                        '{ifvalue.key_type!=%s{Err(UnknownPKCredentialParam::UnknownType)}elseifKNOWN_ALGS.contains(&value.alg){Ok(Self{alg:value.alg})}else{Err(UnknownPKCredentialParam::UnknownAlg)}}' % L,
                        '{ifvalue.key_type!=%s{returnErr(UnknownPKCredentialParam::UnknownType);}ifKNOWN_ALGS.contains(&value.alg){Ok(Self{alg:value.alg})}else{Err(UnknownPKCredentialParam::UnknownAlg)}}' % L,
                        '{ifvalue.key_type!=%s{returnErr(UnknownPKCredentialParam::UnknownType);}if!KNOWN_ALGS.contains(&value.alg){returnErr(UnknownPKCredentialParam::UnknownAlg);}Ok(Self{alg:value.alg})}' % L,
                    ]
                    if nb not in forms:
                        raise Untranslatable(st, self.predicate_verdict(body) + "try_from is more than `key_type != literal` and `KNOWN_ALGS.contains(&alg)`")
                if tr == "From<KnownPublicKeyCredentialParameters>" and st == "PublicKeyCredentialParameters":
                    for f in imp["items"]:
                        if f["kind"] == "fn" and f["name"] == "from":
                            m = re.search(r'key_type : String :: from \(\s*("(?:[^"\\]|\\.)*")\s*\)', f["body"])
                            if not m:
                                raise Untranslatable(st, "from body not recognised")
                            ser_lit = json.loads(m.group(1))
            if de_lit is None or ser_lit is None:
                raise Untranslatable(key, "filter literals not found")
            # which element type does the hand-written visit_seq parse?
            dimp = self.manual_impl("Deserialize", name, it["module"])
            dbody = " ".join(f.get("body") or "" for f in dimp["items"] if f["kind"] == "fn")
            m = re.search(r"next_element :: < ([^>]+) >", dbody)
            if not m or m.group(1).strip() != "PublicKeyCredentialParameters":
                raise Untranslatable(key, "visit_seq does not read PublicKeyCredentialParameters entries: "
                                          + (m.group(1) if m else "no next_element::<T>() found"))
            why = self.lossy_loop_shape(dbody, need=("try_into", ))
            if why or not ("continue" in dbody or re.search(r"if let Ok \(\w+\) =", dbody) or "match" in dbody):
                raise Untranslatable(key, "visit_seq body is not the filter-and-push(..).ok() loop the model describes: "
                                     + (why or "no skip of unknown entries"))
            elem_key = None
            for c in self.by_name.get("PublicKeyCredentialParameters", []):
                if c["kind"] == "struct":
                    elem_key = self.key_of(c)
            elem = self.named_ty(elem_key, features)
            rust = [f["rust"] for f in elem.get("fields", [])]
            if rust != ["alg", "key_type"]:
                raise Untranslatable(elem_key, f"expected fields [alg, key_type], found {rust}")
            return {"filtered": cap, "known": known, "deLit": de_lit, "serLit": ser_lit,
                    "elem": {"named": elem_key}, "caps": {"ser": has_ser, "de": has_de}}
        if name == "AttestationFormatsPreference" and has_de:
            cap = None
            for f, _ in self.fields_of(it, features):
                if f["ty"]["name"] == "Vec":
                    cap = self.const_arg(f["ty"]["args"][1], it["module"], features)
                    et = self.ty_of(f["ty"]["args"][0], it["module"], features)
            if cap is None:
                raise Untranslatable(key, "known_formats field not found")
            dimp = self.manual_impl("Deserialize", name, it["module"])
            dbody = " ".join(f.get("body") or "" for f in dimp["items"] if f["kind"] == "fn")
            why = self.lossy_loop_shape(dbody, need=("try_from", "unknown = true"))
            if not re.search(r"next_element :: < & str >", dbody) or why:
                raise Untranslatable(key, "visit_seq body is not the known/unknown format loop the model describes: "
                                     + (why or "element type is not &str"))
            ety = self.named_ty(et["named"], features)
            return {"leaf": "attFmtPref", "de": ety["de"], "cap": cap, "elem": et["named"],
                    "caps": {"ser": False, "de": True}}
        raise Untranslatable(key, "struct without serde derive and no hand model")

    @staticmethod
    def lossy_loop_shape(dbody, need=()):
        """the hand-written `visit_seq` loops the model describes: `while let Some(..) = seq.next_element()?`
        reading every element, pushing with the error discarded, nothing that can panic or leave
        the loop early.  Returns None when the body is of that shape (whatever the spelling:
        if-let / match / let-else, `.ok()` / `let _ =`), else what is wrong."""
        i = dbody.find("fn visit_seq")
        if i < 0:
            return "no visit_seq"
        j = dbody.find("deserializer . deserialize", i)
        body = dbody[i:j if j > 0 else None]
        toks = body.split()
        if not re.search(r"while let Some \(\s*\w+\s*\) = \w+ \. next_element", body):
            return "no `while let Some(x) = seq.next_element()` loop"
        if toks.count("?") != 1:
            return "fallible calls other than next_element()?"
        for w in ("unwrap", "expect", "extend", "extend_from_slice", "break", "return", "panic", "unreachable", "insert",
                  "truncate", "pop", "clear", "remove", "unsafe", "take", "skip", "size_hint", "capacity", "is_full", "len",
                  "+=", "-=", "*=", "+", "*", "/", "<<", ">>", "as", "loop", "for"):
            if w in toks:
                return f"`{w}` in the loop"
        if not (re.search(r"push \(\s*\w+\s*\) \. ok \(\)", body) or re.search(r"let _ = [\w .]*push \(\s*\w+\s*\)", body)):
            return "push without discarding its error"
        for n in need:
            if n not in body:
                return f"`{n}` not found"
        return None

    # ------------------------------------------------------------------ whole schema
    def all_wire_types(self, features, errors=None, baseline_types=None):
        """every crate struct/enum with a serde representation, keyed by rust path.  With `errors`
        given, a type the translator cannot read is replaced by the pinned tree's description
        (when there is one) and recorded under errors["type:<key>"]."""
        out = {}
        for _, it in self.items:
            if it["kind"] not in ("struct", "enum"):
                continue
            en, attrs = effective_attrs(it["attrs"], features)
            if not en:
                continue
            key = self.key_of(it)
            d = derives(attrs)
            serdeish = d & {"Serialize", "Deserialize", "SerializeIndexed", "DeserializeIndexed",
                            "Serialize_repr", "Deserialize_repr"}
            manual = (self.manual_impl("Deserialize", it["name"], it["module"])
                      or self.manual_impl("Serialize", it["name"], it["module"]))
            if not serdeish and not manual:
                continue
            try:
                out[key] = self.named_ty(key, features)
            except Untranslatable as e:
                if errors is None or baseline_types is None or key not in baseline_types:
                    raise
                errors["type:" + key] = str(e)
                out[key] = baseline_types[key]
                continue
            has_default = "Default" in d or self.manual_impl("Default", it["name"], it["module"]) is not None
            builder = None
            for c in self.by_name.get(it["name"] + "Builder", []):
                if c["kind"] == "struct" and c["module"] == it["module"]:
                    builder = [f["name"] for f, _ in self.fields_of(c, features)]
            out[key]["rust"] = {
                "pub": it.get("vis", "pub").strip() == "pub",
                "non_exhaustive": any(a["p"] == "non_exhaustive" for a in attrs),
                "default": has_default,
                "builder": builder,
                "lifetime": "'" in it.get("generics", ""),
                "kind": it["kind"],
                "pub_fields": [f["name"] for f, _ in self.fields_of(it, features) if f["vis"].strip() == "pub"]
                if it["kind"] == "struct" else [],
                "all_fields": [f["name"] for f, _ in self.fields_of(it, features)] if it["kind"] == "struct" else [],
            }
        return out

    def enum_payloads(self, enum_name, module, features):
        """variant -> payload type (resolved Ty JSON or None)"""
        for c in self.by_name.get(enum_name, []):
            if c["kind"] == "enum" and c["module"] == module:
                res = []
                for v in c["variants"]:
                    en, _ = effective_attrs(v["attrs"], features)
                    if not en:
                        continue
                    if len(v["fields"]) == 0:
                        res.append((v["name"], None))
                    else:
                        try:
                            res.append((v["name"], self.ty_of(v["fields"][0]["ty"], module, features)))
                        except Untranslatable:
                            res.append((v["name"], {"opaque": True}))
                return res
        raise Untranslatable(enum_name, "enum not found")

    def roles(self, features):
        r = {}
        for vname, ty in self.enum_payloads("Request", "ctap2", features):
            if ty and "named" in ty:
                r["req" + vname] = ty["named"]
        for vname, ty in self.enum_payloads("Response", "ctap2", features):
            if ty and "named" in ty and vname != "GetNextAssertion":
                r["resp" + vname] = ty["named"]
        # authenticator data extension types through the two aliases
        for flavour, mod in (("MC", "ctap2::make_credential"), ("GA", "ctap2::get_assertion")):
            for c in self.by_name.get("AuthenticatorData", []):
                if c["kind"] == "type" and c["module"] == mod:
                    args = c["ty"]["args"]
                    if len(args) == 2:
                        r["adExt" + flavour] = self.ty_of(args[1], mod, features)["named"]
        return r

    def schema(self, features, errors=None, baseline=None):
        bt = baseline["schemas"][cfg_id(features)]["types"] if baseline and cfg_id(features) in baseline.get("schemas", {}) else None
        types = self.all_wire_types(features, errors, bt)
        roles = {k: v for k, v in self.roles(features).items() if v in types}

        def variants(enum):
            out = []
            for vname, ty in self.enum_payloads(enum, "ctap2", features):
                if ty is None:
                    out.append([vname, None])
                elif "named" in ty and ty["named"] in types:
                    out.append([vname, ty["named"]])
                else:
                    out.append([vname, "vendor"])
            return out

        return {"cfg": cfg_id(features), "features": sorted(features), "types": types, "roles": roles,
                "variants": {"request_variants": variants("Request"), "response_variants": variants("Response")}}

    # ------------------------------------------------------------------ tables
    def tables(self, errors=None, baseline=None):
        """all tables.  With `errors` given, each group of tables is computed on its own; a group the
        translator cannot read is recorded under errors[<aspect>] and filled from the pinned
        tree's tables, so that properties which do not depend on it are still decided."""
        feats = frozenset()
        t = {}
        groups = [("op", self._t_op), ("resp", self._t_resp), ("status", self._t_status), ("bitflags", self._t_bitflags),
                  ("dispatch", self._t_dispatch), ("consts", self._t_consts), ("strhelpers", self._t_strhelpers), ("fingerprints", self._t_fingerprints),
                  ("gating", self._t_gating), ("dictionary", self._t_dictionary), ("layouts", self._t_layouts), ("u2fprog", self._t_u2fprog), ("arb", self._t_arb), ("arbtree", self._t_arbtree)]
        for aspect, fn in groups:
            part = {}
            try:
                fn(part, feats)
            except Untranslatable as e:
                if errors is None or baseline is None:
                    raise
                errors[aspect] = str(e)
                part = {}
            t.update(part)
        if errors is not None:
            dbg = sorted({(it.get("module", "") + "::" + it.get("name", "?")) for _, top in self.items
                          for it in ([top] + list(top.get("items", []) if top["kind"] in ("impl", "trait") else []))
                          if it.get("kind") == "fn" and re.search(r"debug_assert|debug_assertions", it.get("body") or "")})
            if dbg:
                errors["profile"] = "behaviour may depend on the build profile (debug_assert! / cfg(debug_assertions)) in: " + ", ".join(dbg)[:400]
        if errors is not None:
            # the configuration space the checks build is {3 wire features} x {arbitrary}; anything else a `cfg` mentions
            # is either a configuration the check can also build (std, log-*, the profile) or one it cannot (targets ...)
            foreign = self.foreign_cfg_atoms()
            std = sorted(a for a in foreign if a == 'feature="std"')
            logf = sorted(a for a in foreign if a.startswith('feature="log-'))
            rest = sorted(a for a in foreign if a not in std and a not in logf and a != "debug_assertions")
            if std:
                errors["cfg:std"] = "code gated on the `std` feature (the cases are also run in a build with it)"
            if logf:
                self.logging_unsafe = sorted(set(self.logging_unsafe) | {"cfg(" + a + ")" for a in logf})
            if "debug_assertions" in foreign and "profile" not in errors:
                errors["profile"] = "behaviour may depend on the build profile: cfg(debug_assertions)"
            if rest:
                errors["cfgspace"] = "code gated on a configuration no check can build here: " + ", ".join(rest)[:400]
        if errors is not None and self.logging_unsafe:
            errors["logging"] = "log lines whose arguments are evaluated code (active with the log-* features): " + \
                                " | ".join(self.logging_unsafe)[:600]
        if baseline is not None:
            for k, v in baseline.get("tables", {}).items():
                t.setdefault(k, v)
            if t.get("consts", {}).get("truncate_window") is None:
                t["consts"]["truncate_window"] = baseline["tables"]["consts"]["truncate_window"]
        return t

    def _t_op(self, t, feats):
        # Operation byte tables
        op_enum = [c for c in self.by_name.get("Operation", []) if c["kind"] == "enum"][0]
        t["operations"] = [v["name"] for v in op_enum["variants"]]
        for imp in self.impls:
            tr = (imp["trait"] or "").replace(" ", "")
            st = imp["self_ty"].replace(" ", "")
            if tr == "TryFrom<u8>" and st == "Operation":
                t["op_try_from"] = self.byte_arms(self.single_match(imp, "try_from"), imp["module"], "Operation")
            if tr == "From<Operation>" and st == "u8":
                arms = []
                for arm in self.single_match(imp, "from")["arms"]:
                    pat = arm["pat"].replace(" ", "")
                    v = parse_int_lit(arm["body"].strip())
                    if v is None and not pat.startswith("Vendor(") and "Vendor(" not in pat:
                        try:
                            v = self.const_value(arm["body"].strip(), imp["module"], feats, owner="Operation")
                        except Untranslatable:
                            v = None
                    if v is not None:
                        arms.append({"variant": pat.split("::")[-1], "byte": v})
                    elif pat.startswith("Vendor("):
                        arms.append({"variant": "Vendor", "byte": None})
                    else:
                        raise Untranslatable("From<Operation> for u8", f"odd arm {arm}")
                t["op_into"] = arms
            if tr == "TryFrom<u8>" and st == "VendorOperation":
                t["vendor_try_from"] = self.byte_arms(self.single_match(imp, "try_from"), imp["module"], "VendorOperation")
            if tr == "TryFrom<u8>" and st == "ControlByte":
                t["control_byte"] = self.byte_arms(self.single_match(imp, "try_from"), imp["module"], "ControlByte")
            if tr == "TryFrom<u8>" and st == "CredentialProtectionPolicy":
                t["cred_protect_try_from"] = self.byte_arms(self.single_match(imp, "try_from"), imp["module"], "CredentialProtectionPolicy")
            if tr == "From<CtapMappingError>" and st == "Error":
                fn = [f for f in imp["items"] if f["kind"] == "fn" and f["name"] == "from"][0]
                t["mapping_error"] = self.mapping_error(fn)
        # the inherent `Operation::into_u8` must be the `From<Operation> for u8` table, not a second one
        for imp in self.impls:
            if imp["trait"] is None and imp["self_ty"].strip() == "Operation":
                for f in imp["items"]:
                    if f["kind"] == "fn" and f["name"] == "into_u8":
                        if f["body"].replace(" ", "") not in ("{self.into()}", "{u8::from(self)}", "{<u8asFrom<Self>>::from(self)}"):
                            raise Untranslatable("Operation::into_u8", "does not delegate to From<Operation> for u8")
        # Request::deserialize switch
        for imp in self.impls:
            if imp["trait"] is None and imp["self_ty"].replace(" ", "").startswith("Request<") and imp["module"] == "ctap2":
                for f in imp["items"]:
                    if f["kind"] == "fn" and f["name"] == "deserialize":
                        t["op_switch"] = self.op_switch(f)
                        t["fp_request_deserialize"] = fingerprint(f["body"])

    def _t_resp(self, t, feats):
        for imp in self.impls:
            if imp["trait"] is None and imp["self_ty"].strip() == "Response" and imp["module"] == "ctap2":
                for f in imp["items"]:
                    if f["kind"] == "fn" and f["name"] == "serialize":
                        t["resp_switch"] = self.resp_switch(f)
                        t["fp_response_serialize"] = fingerprint(f["body"])
                        m = re.search(r"\* \w+ = Error :: (\w+) as u8", f["body"])
                        if not m:
                            raise Untranslatable("Response::serialize", "failure status assignment not recognised")
                        t["resp_error_variant"] = m.group(1)

    def _t_status(self, t, feats):
        # status codes
        for c in self.by_name.get("Error", []):
            if c["kind"] == "enum" and c["module"] == "ctap2":
                t["status_codes"] = [[v["name"], self.const_value(v["disc"], "ctap2", feats)] for v in c["variants"]]
        # explicit-discriminant enums
        for ename in ("ControlByte",):
            for c in self.by_name.get(ename, []):
                if c["kind"] == "enum":
                    t["enum_" + ename] = [[v["name"], self.const_value(v["disc"], c["module"], feats)] for v in c["variants"]]

    def _t_bitflags(self, t, feats):
        t["bitflags"] = {}
        for m in self.macros:
            if m["path"].strip() == "bitflags":
                mm = re.search(r"struct (\w+) : (\w+) \{(.*)\}", m["tokens"])
                if not mm:
                    raise Untranslatable("bitflags", "macro body not recognised")
                flags = []
                for c in mm.group(3).split(";"):
                    c = c.strip()
                    if not c:
                        continue
                    c = re.sub(r"# \[\s*doc\s*=\s*\"(?:[^\"\\]|\\.)*\"\s*\]\s*", "", c).strip()
                    cm = re.match(r"const (\w+) = (.*)$", c)
                    if not cm:
                        raise Untranslatable("bitflags", f"odd flag {c}")
                    flags.append([cm.group(1), self.const_value(cm.group(2), m["module"], feats)])
                t["bitflags"][mm.group(1)] = flags

    def _t_dispatch(self, t, feats):
        t["dispatch2"] = self.dispatch("ctap2", "Authenticator", "call_ctap2")
        t["dispatch1"] = self.dispatch("ctap1", "Authenticator", "call_ctap1")
        t["rpc2"] = self.rpc_delegate("ctap2")
        t["rpc1"] = self.rpc_delegate("ctap1")
        t["large_blobs_default"] = self.default_method("ctap2", "Authenticator", "large_blobs")
        t["version_default"] = self.default_method("ctap1", "Authenticator", "version")
        lb = t["large_blobs_default"]
        m = re.search(r"Err \(\s*Error :: (\w+)\s*\)\s*\}$", lb)
        t["large_blobs_default_error"] = m.group(1) if (m and "self ." not in lb and "Ok (" not in lb) else None
        m = re.search(r'b"((?:[^"\\]|\\.)*)"', t["version_default"])
        if not m:
            # `*U2F_V2` / `U2F_V2`: a named byte-string constant
            nm = re.fullmatch(r"\{ \*?\s*((?:\w+ :: )*\w+) \}", t["version_default"].strip())
            if nm:
                for c in self.by_name.get(nm.group(1).split(" :: ")[-1], []):
                    if c["kind"] == "const":
                        m = re.search(r'b"((?:[^"\\]|\\.)*)"', c["expr"])
        t["version_default_bytes"] = m.group(1) if m else None
        t["rpc2_delegates"] = bool(re.fullmatch(r"\{ self \. call_ctap2 \(request\) \}", t["rpc2"]))
        t["rpc1_delegates"] = bool(re.fullmatch(r"\{ self \. call_ctap1 \(request\) \}", t["rpc1"]))

    def _t_consts(self, t, feats):
        consts = {}
        for cname in ("AUTHENTICATOR_DATA_LENGTH", "THEORETICAL_MAX_MESSAGE_SIZE", "MAX_CREDENTIAL_COUNT_IN_LIST",
                      "COUNT_KNOWN_ALGS", "NO_ERROR", "ASN1_SIGNATURE_LENGTH", "COSE_KEY_LENGTH", "PACKET_SIZE",
                      "MAX_CREDENTIAL_ID_LENGTH", "ES256", "ED_DSA"):
            try:
                consts[cname] = self.named_const(cname, "sizes", feats)
            except Untranslatable:
                try:
                    mod = [c["module"] for c in self.by_name.get(cname, [])][0]
                    consts[cname] = self.named_const(cname, mod, feats)
                except Exception:
                    consts[cname] = None
        consts["LARGE_BLOB_MAX_FRAGMENT_LENGTH"] = {
            cfg_id(f): self.named_const("LARGE_BLOB_MAX_FRAGMENT_LENGTH", "sizes", f) for f in ALL_CFGS}
        consts["VENDOR_FIRST"] = self.named_const("VendorOperation::FIRST", "operation", feats)
        consts["VENDOR_LAST"] = self.named_const("VendorOperation::LAST", "operation", feats)
        try:
            consts["truncate_window"] = self.truncate_window()
        except Untranslatable:
            consts["truncate_window"] = None        # reported by the `strhelpers` group
        missing = [k for k, v in consts.items() if v is None and k in ("AUTHENTICATOR_DATA_LENGTH", "THEORETICAL_MAX_MESSAGE_SIZE",
                   "MAX_CREDENTIAL_COUNT_IN_LIST", "COUNT_KNOWN_ALGS", "NO_ERROR", "ASN1_SIGNATURE_LENGTH")]
        if missing:
            raise Untranslatable("constants", "cannot evaluate " + ", ".join(missing))
        t["consts"] = consts

    def _t_strhelpers(self, t, feats):
        self.check_str_helpers()
        self.truncate_window()
        t["str_helpers_ok"] = True

    def _t_fingerprints(self, t, feats):
        # fingerprints of hand-modelled functions
        fps = {}
        for fname in ("floor_char_boundary", "truncate", "is_utf8_char_boundary",
                      "deserialize_from_str_and_truncate", "deserialize_from_str_and_skip_if_too_long",
                      "arbitrary_str", "arbitrary_bytes", "arbitrary_vec", "arbitrary_byte_array",
                      "arbitrary_option", "arbitrary_key"):
            f = self.find_fn(fname)
            fps[fname] = fingerprint(f["body"]) if f else None
        for imp in self.impls:
            tr = (imp["trait"] or "").replace(" ", "")
            st = imp["self_ty"].replace(" ", "")
            for f in imp["items"]:
                if f["kind"] == "fn" and f.get("body"):
                    if (tr, st, f["name"]) in (
                        ("", "AuthenticatorData<'a,A,E>", "serialize"),
                        ("super::SerializeAttestedCredentialData", "AttestedCredentialData<'a>", "serialize"),
                        ("TryFrom<iso7816::command::CommandView<'a>>", "Request<'a>", "try_from"),
                        ("", "Response", "serialize"), ("", "Response", "new"),
                        ("Deserialize<'de>", "FilteredPublicKeyCredentialParameters", "deserialize"),
                        ("Deserialize<'de>", "AttestationFormatsPreference", "deserialize"),
                        ("Deserialize<'de>", "Icon", "deserialize"),
                    ) or (tr.startswith("Arbitrary")):
                        fps[f"{imp['module']}::{st}::{tr}::{f['name']}"] = fingerprint(f["body"])
        t["fingerprints"] = fps

    def _t_dictionary(self, t, feats):
        """string / char / integer literals of every function body: fed to the case generators as a fuzzing
        dictionary, so that a value the code treats specially is among the values tried"""
        strs, ints = set(), set()
        def scan(body):
            for m in re.finditer(r'b?"((?:[^"\\]|\\.)*)"', body):
                try:
                    v = bytes(m.group(1), "utf-8").decode("unicode_escape") if "\\u{" not in m.group(1) else \
                        re.sub(r"\\u\{([0-9a-fA-F]+)\}", lambda k: chr(int(k.group(1), 16)), m.group(1))
                except Exception:
                    continue
                if 0 < len(v) <= 24 and "{" not in v:
                    strs.add(v)
            for m in re.finditer(r"'(\\u\{([0-9a-fA-F]+)\}|\\.|[^'\\])'", body):
                ch = m.group(1)
                try:
                    strs.add(chr(int(m.group(2), 16)) if m.group(2) else bytes(ch, "utf-8").decode("unicode_escape"))
                except Exception:
                    pass
            for m in re.finditer(r"(?<![\w.])(0x[0-9a-fA-F_]+|\d[\d_]*)(?:u8|u16|u32|u64|usize|i32|i64)?(?![\w.])", body):
                v = parse_int_lit(m.group(1))
                if v is not None and v < 2 ** 64:
                    ints.add(v)
        for _, top in self.items:
            for it in [top] + list(top.get("items", []) if top["kind"] in ("impl", "trait") else []):
                if it.get("kind") == "fn" and it.get("body"):
                    scan(it["body"])
        t["dictionary"] = {"strings": sorted(strs)[:200], "ints": sorted(ints)[:200]}

    def _t_gating(self, t, feats):
        # features gating anything other than derives / the arbitrary module
        gated = set()
        for _, it in self.items:
            if it["kind"] in ("struct", "enum"):
                for a in it.get("attrs", []):
                    if a["p"] == "cfg":
                        gated |= cfg_mentions([a])
                    if a["p"] == "cfg_attr":
                        inner = a.get("l", [])[1:]
                        if any(x["p"] != "derive" for x in inner):
                            gated |= cfg_mentions([a])
                for f in it.get("fields", []) + [fl for v in it.get("variants", []) for fl in v.get("fields", [])]:
                    gated |= cfg_mentions(f.get("attrs", []))
                for v in it.get("variants", []):
                    gated |= cfg_mentions(v.get("attrs", []))
            if it["kind"] == "const":
                gated |= cfg_mentions(it.get("attrs", []))
        t["wire_gating_features"] = sorted(gated)

    # ------------------------------------------------------------------ straight-line serialisers (C07, C09)
    LAYOUT_FIELDS = {"rp_id_hash", "flags", "sign_count", "attested_credential_data", "extensions", "aaguid", "credential_id",
                     "credential_public_key", "header_byte", "public_key", "key_handle", "attestation_certificate", "signature",
                     "user_presence", "count", "version"}

    @staticmethod
    def split_statements(body):
        """statements of a `{ .. }` block (token string without spaces): split at depth-0 `;` and
        after a depth-0 `if .. { .. }` block"""
        assert body[0] == "{" and body[-1] == "}", body[:40]
        body = body[1:-1]
        out, depth, cur = [], 0, ""
        for i, ch in enumerate(body):
            cur += ch
            if ch in "({[":
                depth += 1
            elif ch in ")}]":
                depth -= 1
                if depth == 0 and ch == "}" and cur.startswith("if") and not body[i + 1:i + 5].startswith("else"):
                    out.append(cur)
                    cur = ""
            elif ch == ";" and depth == 0:
                out.append(cur[:-1])
                cur = ""
        if cur:
            out.append(cur)
        return [x for x in out if x]

    def layout_of(self, where, body, buf, recv, bound=None, last_may_lack_q=False, tail=None):
        """translate a straight-line serialiser body into layout steps.  `buf` = the buffer
        variable, `recv` = the value whose members are written (`self`, `reg`, ..)."""
        ERR = r"(?:\.map_err\((?:\|_\|Error::Other|drop)\))?"
        steps = []
        lens = dict(bound or {})
        stmts = self.split_statements(body)
        for k, st in enumerate(stmts):
            is_last = k == len(stmts) - 1
            if tail is not None and is_last:
                if st != tail:
                    raise Untranslatable(where, f"unexpected final expression {st[:60]}")
                continue
            m = re.fullmatch(r"letmut%s=SerializedAuthenticatorData::new\(\)" % buf, st)
            if m:
                if steps:
                    raise Untranslatable(where, "buffer re-initialised")
                continue
            m = re.fullmatch(r"let(\w+)=u16::try_from\(%s\.(\w+)\.len\(\)\)\.map_err\(\|_\|Error::Other\)\?" % recv, st)
            if m:
                lens[m.group(1)] = m.group(2)
                continue
            m = re.fullmatch(r"%s\.(extend_from_slice|push)\((.*?)\)%s(\??)" % (buf, ERR), st)
            if m:
                if not m.group(3) and not (is_last and last_may_lack_q):
                    raise Untranslatable(where, f"append whose failure is not propagated: {st[:60]}")
                kind, e = m.group(1), m.group(2)
                mm = re.fullmatch(r"&?%s\.(\w+)" % recv, e)
                if kind == "extend_from_slice" and mm:
                    steps.append({"k": "slice", "f": mm.group(1)})
                elif kind == "extend_from_slice" and e in lens.values() and False:
                    pass
                elif kind == "extend_from_slice" and re.fullmatch(r"\w+", e) and e in (bound or {}):
                    steps.append({"k": "slice", "f": bound[e]})
                elif kind == "extend_from_slice" and (mm := re.fullmatch(r"&%s\.(\w+)\.to_be_bytes\(\)" % recv, e)):
                    steps.append({"k": "be", "f": mm.group(1), "w": None})
                elif kind == "extend_from_slice" and (mm := re.fullmatch(r"&(\w+)\.to_be_bytes\(\)", e)) and mm.group(1) in lens:
                    steps.append({"k": "lenBE16", "f": lens[mm.group(1)]})
                elif kind == "push" and (mm := re.fullmatch(r"%s\.(\w+)" % recv, e)):
                    steps.append({"k": "byte", "f": mm.group(1)})
                elif kind == "push" and (mm := re.fullmatch(r"%s\.(\w+)\.bits\(\)" % recv, e)):
                    steps.append({"k": "byte", "f": mm.group(1)})
                elif kind == "push" and (mm := re.fullmatch(r"%s\.(\w+)\.len\(\)asu8" % recv, e)):
                    steps.append({"k": "len8", "f": mm.group(1)})
                else:
                    raise Untranslatable(where, f"appended expression not recognised: {e[:60]}")
                continue
            m = re.fullmatch(r"ifletSome\((\w+)\)=&%s\.(\w+)\{(\w+)\.serialize\(&mut%s\)\?;\}" % (recv, buf), st)
            if m and m.group(1) == m.group(3):
                steps.append({"k": "optNested", "f": m.group(2)})
                continue
            m = re.fullmatch(r"ifletSome\((\w+)\)=%s\.(\w+)\.as_ref\(\)\{cbor_smol::cbor_serialize_to\((\w+),&mut%s\)"
                             r"\.map_err\(\|_\|Error::Other\)\?;\}" % (recv, buf), st)
            if m and m.group(1) == m.group(3):
                steps.append({"k": "optCbor", "f": m.group(2)})
                continue
            raise Untranslatable(where, f"statement not recognised: {st[:80]}")
        for s_ in steps:
            if s_["f"] not in self.LAYOUT_FIELDS:
                raise Untranslatable(where, f"member {s_['f']} is not one the layout model knows")
        return steps

    def int_width(self, struct_name, module, field, feats):
        it = self.lookup(struct_name, module, ("struct",), feats)
        if it is None:
            raise Untranslatable(struct_name, "struct not found")
        for f, _ in self.fields_of(it, feats):
            if f["name"] == field:
                w = {"u8": 1, "u16": 2, "u32": 4, "u64": 8}.get(f["ty"].get("name"))
                if w is None:
                    raise Untranslatable(struct_name + "." + field, "not a fixed-width unsigned integer")
                return w
        raise Untranslatable(struct_name + "." + field, "field not found")

    def _t_layouts(self, t, feats):
        lay = {}
        for imp in self.impls:
            tr = (imp["trait"] or "").replace(" ", "")
            st = imp["self_ty"].replace(" ", "")
            for f in imp["items"]:
                if f["kind"] != "fn" or f["name"] != "serialize" or not f.get("body"):
                    continue
                body = f["body"].replace(" ", "")
                sig = f["sig"].replace(" ", "")
                if tr == "" and st == "AuthenticatorData<'a,A,E>" and imp["module"] == "ctap2":
                    bm = re.search(r"letmut(\w+)=SerializedAuthenticatorData::new\(\)", body)
                    if not bm:
                        raise Untranslatable("AuthenticatorData::serialize", "buffer initialisation not found")
                    steps = self.layout_of("AuthenticatorData::serialize", body, bm.group(1), "self", tail=f"Ok({bm.group(1)})")
                    for s_ in steps:
                        if s_["k"] == "be":
                            s_["w"] = self.int_width("AuthenticatorData", "ctap2", s_["f"], feats)
                    lay["authData"] = steps
                if tr == "super::SerializeAttestedCredentialData" and st == "AttestedCredentialData<'a>":
                    bm = re.search(r"\(&self,(\w+):&mut", sig)
                    if not bm:
                        raise Untranslatable("AttestedCredentialData::serialize", "buffer parameter not found")
                    lay["attested"] = self.layout_of("AttestedCredentialData::serialize", body, bm.group(1), "self", tail="Ok(())")
                if tr == "" and st == "Response" and imp["module"] == "ctap1":
                    mt = f["matches"][0] if f.get("matches") else None
                    if mt is None or mt["scrutinee"].strip() != "self" or body.count("match") != 1 or \
                            not body.startswith("{matchself{") or not body.endswith("}}"):
                        raise Untranslatable("ctap1::Response::serialize", "expected the body to be a single `match self`")
                    bm = re.search(r"\(&self,(\w+):&mut", sig)
                    if not bm:
                        raise Untranslatable("ctap1::Response::serialize", "buffer parameter not found")
                    u2fbuf = bm.group(1)
                    for arm in mt["arms"]:
                        pat = arm["pat"].replace(" ", "")
                        mm = re.fullmatch(r"(?:Response|Self)::(\w+)\((\w+)\)", pat)
                        if not mm or arm.get("guard"):
                            raise Untranslatable("ctap1::Response::serialize", f"arm pattern {pat}")
                        variant, var = mm.group(1), mm.group(2)
                        ab = arm["body"].replace(" ", "")
                        if not ab.startswith("{"):
                            ab = "{" + ab + "}"
                        steps = self.layout_of("ctap1::Response::serialize/" + variant, ab, u2fbuf, var,
                                               bound={var: "version"} if variant == "Version" else None, last_may_lack_q=True)
                        sname = {"Register": ("register", "Response"), "Authenticate": ("authenticate", "Response")}.get(variant)
                        for s_ in steps:
                            if s_["k"] == "be":
                                s_["w"] = self.int_width(sname[1], "ctap1::" + sname[0], s_["f"], feats) if sname else None
                        lay["u2f" + variant] = steps
        # `register::Response::new`: 0x04 ‖ x ‖ y pushed with unwrap(), the other members passed through
        newfn = None
        for imp in self.impls:
            if imp["trait"] is None and imp["self_ty"].strip() == "Response" and imp["module"] == "ctap1::register":
                for f in imp["items"]:
                    if f["kind"] == "fn" and f["name"] == "new":
                        newfn = f
        tmpl = ("{ let mut public_key_bytes = Bytes :: new () ; public_key_bytes . push (0x04) . unwrap () ; "
                "public_key_bytes . extend_from_slice (& public_key . x) . unwrap () ; "
                "public_key_bytes . extend_from_slice (& public_key . y) . unwrap () ; "
                "Self { header_byte , public_key : public_key_bytes , key_handle , attestation_certificate , signature , } }")
        if newfn is None or self.alpha(newfn["body"]).replace(",}", "}") != self.alpha(tmpl).replace(",}", "}"):
            raise Untranslatable("ctap1::register::Response::new", "body is not `0x04 ‖ x ‖ y, other members passed through`")
        pk = [f for f, _ in self.fields_of(self.lookup("Response", "ctap1::register", ("struct",), feats), feats) if f["name"] == "public_key"]
        if not pk or self.const_arg(pk[0]["ty"]["args"][0], "ctap1::register", feats) != 65:
            raise Untranslatable("ctap1::register::Response", "public_key is not Bytes<65>")
        for need in ("authData", "attested", "u2fRegister", "u2fAuthenticate", "u2fVersion"):
            if need not in lay:
                raise Untranslatable("layouts", need + " serialiser not found")
        t["layouts"] = lay

    # ------------------------------------------------------------------ the U2F APDU parser as a program (C08)
    U2F_ERRS = {"ClassNotSupported": "classNotSupported", "IncorrectDataParameter": "incorrectDataParameter",
                "InstructionNotSupportedOrInvalid": "instructionNotSupportedOrInvalid"}
    U2F_PRELUDE = ["letcla=apdu.class().into_inner()",
                   "letins=matchapdu.instruction(){iso7816::Instruction::Unknown(ins)=>ins,_ins=>0,}",
                   "letp1=apdu.p1", "let_p2=apdu.p2"]

    def u2f_num(self, tok):
        v = parse_int_lit(tok)
        if v is None:
            try:
                v = self.const_value(tok, "ctap1", frozenset())
            except Untranslatable:
                v = None
        return v

    def u2f_cond(self, where, c):
        for rx, f in ((r"cla!=(\w+)", lambda n: {"k": "claNe", "n": n}), (r"ins==(\w+)", lambda n: {"k": "insEq", "n": n}),
                      (r"request\.len\(\)!=(\w+)", lambda n: {"k": "lenNe", "n": n}),
                      (r"request\.len\(\)<(\w+)", lambda n: {"k": "lenLt", "n": n})):
            m = re.fullmatch(rx, c)
            if m:
                v = self.u2f_num(m.group(1))
                if v is None:
                    raise Untranslatable(where, f"condition operand {m.group(1)}")
                return f(v)
        m = re.fullmatch(r"request\.len\(\)!=(\w+)\+key_handle_length", c)
        if m and self.u2f_num(m.group(1)) is not None:
            return {"k": "lenNeBasePlusVar", "n": self.u2f_num(m.group(1))}
        raise Untranslatable(where, f"condition not recognised: {c[:60]}")

    def u2f_slice(self, where, e):
        m = re.fullmatch(r"\(&request\[(\w*)\.\.(\w*)\]\)\.try_into\(\)\.unwrap\(\)", e)
        if m:
            lo = self.u2f_num(m.group(1)) if m.group(1) else 0
            hi = self.u2f_num(m.group(2)) if m.group(2) else None
            if lo is None or (m.group(2) and hi is None):
                raise Untranslatable(where, "slice bound " + e)
            return {"k": "arr32", "lo": lo, "hi": hi}
        m = re.fullmatch(r"&request\[(\w+)\.\.\]", e)
        if m and self.u2f_num(m.group(1)) is not None:
            return {"k": "tail", "lo": self.u2f_num(m.group(1))}
        raise Untranslatable(where, f"slice expression not recognised: {e[:60]}")

    def u2f_final(self, where, e):
        if e == "Ok(Request::Version)":
            return {"k": "version"}
        m = re.fullmatch(r"Err\(Error::(\w+)\)", e)
        if m and m.group(1) in self.U2F_ERRS:
            return {"k": "err", "e": self.U2F_ERRS[m.group(1)]}
        m = re.fullmatch(r"Ok\(Request::Register\(Register\{challenge:(.*?),app_id:(.*?),?\}\)\)", e)
        if m:
            return {"k": "register", "c": self.u2f_slice(where, m.group(1)), "a": self.u2f_slice(where, m.group(2))}
        m = re.fullmatch(r"Ok\(Request::Authenticate\(Authenticate\{control_byte,challenge:(.*?),app_id:(.*?),key_handle:(.*?),?\}\)\)", e)
        if m:
            return {"k": "authenticate", "c": self.u2f_slice(where, m.group(1)), "a": self.u2f_slice(where, m.group(2)),
                    "kh": self.u2f_slice(where, m.group(3))}
        raise Untranslatable(where, f"result expression not recognised: {e[:80]}")

    def u2f_steps(self, where, stmts):
        steps = []
        for st in stmts:
            if st == "":
                continue
            m = re.fullmatch(r"if(.*?)\{returnErr\(Error::(\w+)\);\}", st)
            if m and m.group(2) in self.U2F_ERRS:
                steps.append({"k": "guardErr", "c": self.u2f_cond(where, m.group(1)), "e": self.U2F_ERRS[m.group(2)]})
                continue
            m = re.fullmatch(r"if(.*?)\{returnOk\(Request::Version\);\}", st)
            if m:
                steps.append({"k": "guardVersion", "c": self.u2f_cond(where, m.group(1))})
                continue
            if st == "letcontrol_byte=ControlByte::try_from(p1)?":
                steps.append({"k": "control"})
                continue
            m = re.fullmatch(r"letkey_handle_length=request\[(\w+)\]asusize", st)
            if m and self.u2f_num(m.group(1)) is not None:
                steps.append({"k": "bindIdx", "i": self.u2f_num(m.group(1))})
                continue
            raise Untranslatable(where, f"statement not recognised: {st[:80]}")
        return steps

    def _t_u2fprog(self, t, feats):
        where = "ctap1::Request::try_from"
        fn = None
        for imp in self.impls:
            tr = (imp["trait"] or "").replace(" ", "")
            if tr == "TryFrom<iso7816::command::CommandView<'a>>" and imp["self_ty"].replace(" ", "") == "Request<'a>" \
                    and imp["module"] == "ctap1":
                fn = [f for f in imp["items"] if f["kind"] == "fn" and f["name"] == "try_from"][0]
        if fn is None:
            raise Untranslatable(where, "impl not found")
        rv = re.search(r"let (\w+) = apdu \. data \(\)", fn["body"])
        if rv and rv.group(1) != "request":
            # the name of the local holding the APDU data is irrelevant
            if re.search(r"\brequest\b", fn["body"]):
                raise Untranslatable(where, "both `request` and another name for the APDU data are in use")
            fn = json.loads(json.dumps(fn).replace(f"\\b{rv.group(1)}\\b", "request")) if False else \
                json.loads(re.sub(r"(?<![A-Za-z0-9_])%s(?![A-Za-z0-9_])" % re.escape(rv.group(1)), "request", json.dumps(fn)))
        body = fn["body"].replace(" ", "")
        stmts = [x for x in self.split_statements(body) if x]
        if stmts[:4] != self.U2F_PRELUDE:
            raise Untranslatable(where, "prelude (cla / ins / p1 bindings) not of the recognised shape")
        rest = stmts[4:]
        if "letrequest=apdu.data()" not in rest or not rest[-1].startswith("matchins{"):
            raise Untranslatable(where, "expected `let request = apdu.data();` and a final `match ins`")
        k = rest.index("letrequest=apdu.data()")
        pre = rest[:k] + rest[k + 1:-1]
        mt = [m for m in fn["matches"] if m["scrutinee"].strip() == "ins"]
        if len(mt) != 1 or body.count("matchins{") != 1:
            raise Untranslatable(where, "expected exactly one `match ins`")
        arms, default = [], None
        for arm in mt[0]["arms"]:
            pat = arm["pat"].strip()
            ab = arm["body"].replace(" ", "")
            if arm.get("guard"):
                raise Untranslatable(where, "guarded arm")
            if ab.startswith("{"):
                ss = [x for x in self.split_statements(ab) if x]
                steps, fin = self.u2f_steps(where, ss[:-1]), self.u2f_final(where, ss[-1])
            else:
                steps, fin = [], self.u2f_final(where, ab)
            if pat == "_":
                if steps:
                    raise Untranslatable(where, "default arm with statements")
                default = fin
            else:
                v = parse_int_lit(pat)
                if v is None or default is not None:
                    raise Untranslatable(where, f"arm pattern {pat}")
                arms.append({"ins": v, "steps": steps, "final": fin})
        if default is None:
            raise Untranslatable(where, "no default arm")
        t["u2f_program"] = {"pre": self.u2f_steps(where, pre), "arms": arms, "default": default}
        # the error `ControlByte::try_from(p1)?` propagates
        errs = set()
        for imp in self.impls:
            if (imp["trait"] or "").replace(" ", "") == "TryFrom<u8>" and imp["self_ty"].strip() == "ControlByte":
                for arm in self.single_match(imp, "try_from")["arms"]:
                    b = arm["body"].replace(" ", "")
                    while b.startswith("{") and b.endswith("}"):
                        b = b[1:-1]
                    mm = re.fullmatch(r"Err\((?:Error|Self::Error)::(\w+)\)", b)
                    if mm:
                        errs.add(mm.group(1))
                    elif not b.startswith("Ok("):
                        raise Untranslatable("ControlByte::try_from", f"arm body {b[:40]}")
        if len(errs) != 1 or next(iter(errs)) not in self.U2F_ERRS:
            raise Untranslatable("ControlByte::try_from", f"error arms {sorted(errs)}")
        t["control_byte_err"] = self.U2F_ERRS[next(iter(errs))]

    # ------------------------------------------------------------------ whole-request generator trees (C19)
    ARB_PRIMS = {"bool", "u8", "u16", "u32", "u64", "usize", "i8", "i16", "i32", "i64", "str", "Bytes"}

    def arb_impl_of(self, name, module=None):
        full = (module + "::" if module else "") + name
        for i in self.impls:
            if i["module"] == "arbitrary" and (i["trait"] or "").replace(" ", "").startswith("Arbitrary<"):
                st = i["self_ty"].replace(" ", "").split("<")[0]
                if st == full or full.endswith("::" + st) or (module is None and st.split("::")[-1] == name):
                    return i
        return None

    def arb_gen_of_type(self, ty, module, feats, depth=0):
        """generator tree of `<T as Arbitrary>::arbitrary` for a field / payload type"""
        if depth > 12:
            raise Untranslatable("arbitrary", "generator tree too deep")
        if ty["k"] == "ref":
            inner = ty["inner"]
            if inner["k"] == "slice" or (inner["k"] == "path" and inner["name"] in ("str", "Bytes")):
                return {"k": "ext", "n": "&" + (inner.get("name") or "[u8]")}
            return self.arb_gen_of_type(inner, module, feats, depth + 1)
        if ty["k"] == "tuple" and not ty["elems"]:
            return {"k": "struct", "fs": []}
        if ty["k"] != "path":
            raise Untranslatable("arbitrary", f"type form {ty['k']} in a derived generator")
        ty = self.arb_resolve(ty, module, feats)
        name = ty["name"]
        if name == "Option":
            return {"k": "opt", "g": self.arb_gen_of_type(ty["args"][0], module, feats, depth + 1)}
        if name in self.ARB_PRIMS:
            return {"k": "ext", "n": name}
        it = self.lookup(ty["path"], module, ("struct", "enum"), feats)
        if it is None:
            # a foreign type: its impl lives outside ctap-types
            return {"k": "ext", "n": name}
        return self.arb_tree_of_item(it, feats, depth + 1)

    def arb_tree_of_item(self, it, feats, depth=0):
        name, mod = it["name"], it["module"]
        imp = self.arb_impl_of(name, mod)
        en, attrs = effective_attrs(it["attrs"], feats)
        if imp is not None:
            return self.arb_tree_of_impl(it, imp, feats, depth)
        if "Arbitrary" not in derives(attrs):
            # bitflags-generated and similar types: their impl is generated outside this crate's sources
            return {"k": "ext", "n": name}
        if it["kind"] == "struct":
            return {"k": "struct", "fs": [self.arb_gen_of_type(f["ty"], mod, feats, depth + 1) for f, _ in self.fields_of(it, feats)]}
        alts = []
        for v in it["variants"]:
            ven, _ = effective_attrs(v["attrs"], feats)
            if not ven:
                continue
            alts.append({"k": "struct", "fs": [self.arb_gen_of_type(f["ty"], mod, feats, depth + 1) for f in v["fields"]]})
        return {"k": "enum", "alts": alts}

    def arb_tree_of_impl(self, it, imp, feats, depth):
        """a hand-written `Arbitrary` impl of src/arbitrary.rs, statement by statement"""
        name, mod = it["name"], it["module"]
        where = "arbitrary::" + name
        fn = [f for f in imp["items"] if f["kind"] == "fn" and f["name"] == "arbitrary"]
        if len(fn) != 1:
            raise Untranslatable(where, "no fn arbitrary")
        stmts = [x for x in self.split_statements(fn[0]["body"].replace(" ", "")) if x]
        fields = [f for f, _ in self.fields_of(it, feats)]
        fidx = {f["name"]: i for i, f in enumerate(fields)}
        lets = []
        for st in stmts[:-1]:
            mm = re.fullmatch(r"let(\w+)=(.*)", st)
            if not mm:
                raise Untranslatable(where, "statement not a let: " + st[:60])
            lets.append((mm.group(1), mm.group(2)))
        last = stmts[-1]
        if it.get("tuple"):
            mm = re.fullmatch(r"Ok\(Self\((\w+)\)\)", last)
            binding = {mm.group(1): 0} if mm else None
        else:
            mm = re.fullmatch(r"Ok\(Self\{([\w,:]*)\}\)", last)
            binding = None
            if mm:
                binding = {}
                for part in mm.group(1).strip(",").split(","):
                    fld, _, var = part.partition(":")
                    binding[var or fld] = fidx.get(fld)
        if not binding or any(v is None for v in binding.values()) or sorted(binding.values()) != list(range(len(fields))) \
                or set(binding) != {n for n, _ in lets}:
            raise Untranslatable(where, "constructor expression / lets not recognised")
        out = []
        for var, expr in lets:
            ty = self.arb_resolve(fields[binding[var]]["ty"], mod, feats)
            rawty = fields[binding[var]]["ty"]
            inner = None
            if ty["k"] == "path" and ty["name"] == "Option":
                inner = ty["args"][0]
                if inner["k"] == "path":
                    inner = self.arb_resolve(inner, mod, feats)

            def capof(t_):
                return self.const_arg(t_["args"][-1], mod, feats)

            def vec_of(t_):
                return {"k": "vec", "cap": capof(t_), "g": self.arb_gen_of_type(t_["args"][0], mod, feats, depth + 1)}

            if expr in ("u.arbitrary()?", "Arbitrary::arbitrary(u)?"):
                g = self.arb_gen_of_type(rawty, mod, feats, depth + 1)
            elif expr == "arbitrary_str(u)?" and ty.get("name") == "String":
                g = {"k": "str", "cap": capof(ty)}
            elif expr == "arbitrary_bytes(u)?" and ty.get("name") == "Bytes":
                g = {"k": "bytes", "cap": capof(ty)}
            elif expr == "arbitrary_vec(u)?" and ty.get("name") == "Vec":
                g = vec_of(ty)
            elif expr == "arbitrary_key(u)?":
                g = {"k": "struct", "fs": [{"k": "bytes", "cap": 32}, {"k": "bytes", "cap": 32}]}
            elif expr == "ifbool::arbitrary(u)?{Some(arbitrary_str(u)?)}else{None}" and inner is not None and inner.get("name") == "String":
                g = {"k": "opt", "g": {"k": "str", "cap": capof(inner)}}
            elif expr == "ifbool::arbitrary(u)?{Some(serde_bytes::Bytes::new(u.arbitrary()?))}else{None}":
                g = {"k": "opt", "g": {"k": "ext", "n": "&[u8]"}}
            elif expr == "serde_bytes::Bytes::new(u.arbitrary()?)":
                g = {"k": "ext", "n": "&[u8]"}
            elif expr == "arbitrary_option(u,arbitrary_key)?":
                g = {"k": "opt", "g": {"k": "struct", "fs": [{"k": "bytes", "cap": 32}, {"k": "bytes", "cap": 32}]}}
            elif expr == "arbitrary_option(u,arbitrary_vec)?" and inner is not None and inner.get("name") == "Vec":
                g = {"k": "opt", "g": vec_of(inner)}
            elif expr == "arbitrary_option(u,arbitrary_byte_array)?" and inner is not None and inner["k"] == "ref" \
                    and inner["inner"].get("name") == "ByteArray":
                g = {"k": "opt", "g": {"k": "byteArray", "n": self.const_arg(inner["inner"]["args"][0], mod, feats)}}
            elif (mm := re.fullmatch(r"u\.bytes\((\w+)\)\?\.try_into\(\)\.unwrap\(\)", expr)):
                n = parse_int_lit(mm.group(1))
                want = rawty["inner"] if rawty["k"] == "ref" else rawty
                if want.get("k") == "path":
                    want = self.arb_resolve(want, mod, feats)
                if n is None:
                    try:
                        n = self.const_value(mm.group(1), "arbitrary", feats)
                    except Untranslatable:
                        n = None
                wl = None
                if want.get("k") == "array":
                    try:
                        wl = self.const_value(want["len"], mod, feats)
                    except Untranslatable:
                        wl = None
                if n is None or wl != n:
                    raise Untranslatable(where, f"{var}: u.bytes({mm.group(1)}) does not match the member's array length")
                g = {"k": "bytesArr", "n": n}
            elif (mm := re.fullmatch(r"\*u\.choose\(&(?:\w+::)*(\w+)\)\?", expr)):
                tb = self.by_name.get(mm.group(1), [])
                if not tb:
                    raise Untranslatable(where, "table of `choose` not found")
                vals = [x for x in tb[0]["expr"].strip("[] ").split(",") if x.strip()]
                g = {"k": "choose", "len": len(vals)}
            else:
                raise Untranslatable(where, f"draw not recognised: {var} = {expr[:80]}")
            out.append(g)
        return {"k": "struct", "fs": out}

    def _t_arbtree(self, t, feats):
        feats = frozenset({"arbitrary", "std"})
        roots = {}
        for label, path, mod in (("ctap2::Request", "Request", "ctap2"), ("ctap1::Request", "Request", "ctap1"),
                                 ("authenticator::Request", "Request", "authenticator")):
            it = self.lookup(path, mod, ("enum",), feats)
            if it is None:
                raise Untranslatable(label, "not found")
            roots[label] = self.arb_tree_of_item(it, feats)
        t["arb_trees"] = roots

    def _t_arb(self, t, feats):
        t["arb"] = self.arb_tables()

    # ------------------------------------------------------------------ src/arbitrary.rs (C19)
    # recognised helper bodies (token form as printed by proc-macro2; compared modulo the names of
    # local bindings, see `alpha`)
    ARB_STR = ("{ let n = usize :: arbitrary (u) ? %CLAMP% ; match core :: str :: from_utf8 (u . peek_bytes (n) . ok_or (Error :: NotEnoughData) ?) "
               "{ Ok (s) => { u . bytes (n) ? ; Ok (s . try_into () . unwrap ()) } Err (e) => { let i = e . valid_up_to () ; "
               "let valid = u . bytes (i) ? ; let s = unsafe { core :: str :: from_utf8_unchecked (valid) } ; "
               "Ok (s . try_into () . unwrap ()) } } }")
    ARB_BYTES = "{ let n = usize :: arbitrary (u) ? %CLAMP% ; Ok (Bytes :: from_slice (u . bytes (n) ?) . unwrap ()) }"
    ARB_VEC = ("{ let mut vec = Vec :: new () ; u . arbitrary_loop (Some (0) , Some (%MAX% . try_into () . unwrap ()) , "
               "| u | { vec . push (u . arbitrary () ?) . unwrap () ; Ok (ControlFlow :: Continue (())) }) ? ; Ok (vec) }")
    ARB_BYTE_ARRAY = ("{ let bytes : & [u8 ; N] = u . bytes (N) ? . try_into () . unwrap () ; "
                      "Ok (unsafe { & * (bytes as * const [u8 ; N] as * const ByteArray < N >) }) }")
    ARB_OPTION = "{ if bool :: arbitrary (u) ? { f (u) . map (Some) } else { Ok (None) } }"
    ARB_KEY = "{ let x = arbitrary_bytes (u) ? ; let y = arbitrary_bytes (u) ? ; Ok (EcdhEsHkdf256PublicKey { x , y }) }"

    @staticmethod
    def alpha(body):
        """normal form modulo renaming of local bindings (let / closure parameter / Ok-Err-Some
        binder), then without white space"""
        names = []
        for m in re.finditer(r"\blet \(\s*&?\s*(\w+) , (\w+)\s*\)|\blet (?:mut )?(?!Ok\b|Err\b|Some\b|None\b)(\w+)\b|\| (\w+) \||"
                             r"\b(?:Ok|Err|Some) \((\w+)\) =|\bfor (\w+) in\b", body):
            for n in m.groups():
                if n and n not in names and n != "_" and n != "u":
                    names.append(n)
        for k, n in enumerate(names):
            body = re.sub(r"\b%s\b" % re.escape(n), f"_v{k}", body)
        return body.replace(" ", "")

    ARB_MODELLED = [("webauthn", "PublicKeyCredentialRpEntity"), ("webauthn", "PublicKeyCredentialUserEntity"),
                    ("webauthn", "FilteredPublicKeyCredentialParameters"), ("ctap2", "AttestationFormatsPreference"),
                    ("ctap2::get_assertion", "HmacSecretInput")]

    def arb_resolve(self, ty, module, feats, depth=0):
        """follow crate type aliases (`type SaltEnc = Bytes<80>`) so that draws are classified by the real type"""
        if depth > 8 or ty.get("k") != "path":
            return ty
        if ty["name"] in ("String", "Bytes", "Vec", "Option", "bool", "u32", "EcdhEsHkdf256PublicKey"):
            return ty
        al = self.lookup(ty["path"], module, ("type",), feats)
        if al is not None and not ty.get("args"):
            return self.arb_resolve(al["ty"], al["module"], feats, depth + 1)
        return ty

    def arb_tables(self):
        """shape parameters of the generator helpers and the draw lists of the hand-written
        `Arbitrary` impls that are modelled; anything unrecognised is Untranslatable"""
        feats = frozenset({"arbitrary", "std"})

        def body(name):
            f = self.find_fn(name, "arbitrary")
            if f is None:
                raise Untranslatable("arbitrary::" + name, "function not found")
            return self.alpha(f["body"]), f["sig"].replace(" ", "")

        shape = {}
        b, sig = body("arbitrary_str")
        if "->Result<String<N>>" not in sig:
            raise Untranslatable("arbitrary_str", "signature changed")
        A = self.alpha
        if b == A(self.ARB_STR.replace("%CLAMP%", ". min (N)")):
            shape["str_clamp"] = True
        elif b == A(self.ARB_STR.replace("%CLAMP%", "")):
            shape["str_clamp"] = False
        else:
            raise Untranslatable("arbitrary_str", "body not of a recognised shape")
        b, sig = body("arbitrary_bytes")
        if "->Result<Bytes<N>>" not in sig:
            raise Untranslatable("arbitrary_bytes", "signature changed")
        if b == A(self.ARB_BYTES.replace("%CLAMP%", ". min (N)")):
            shape["bytes_clamp"] = True
        elif b == A(self.ARB_BYTES.replace("%CLAMP%", "")):
            shape["bytes_clamp"] = False
        else:
            raise Untranslatable("arbitrary_bytes", "body not of a recognised shape")
        b, sig = body("arbitrary_vec")
        if "->Result<Vec<T,N>>" not in sig:
            raise Untranslatable("arbitrary_vec", "signature changed")
        m = None
        if b == A(self.ARB_VEC.replace("%MAX%", "N")):
            m = 0
        if m is None:
            mm = re.fullmatch(re.escape(A(self.ARB_VEC)).replace(re.escape("%MAX%"), r"\(N\+(\d+)\)"), b)
            if mm:
                m = int(mm.group(1))
        if m is None:
            raise Untranslatable("arbitrary_vec", "body not of a recognised shape")
        shape["vec_max_extra"] = m
        for name, exp in (("arbitrary_byte_array", self.ARB_BYTE_ARRAY), ("arbitrary_option", self.ARB_OPTION),
                          ("arbitrary_key", self.ARB_KEY)):
            b, _ = body(name)
            if b != A(exp):
                raise Untranslatable(name, "body not of the recognised shape")

        def split_stmts(bd):
            assert bd[0] == "{" and bd[-1] == "}"
            bd = bd[1:-1]
            out, depth, cur = [], 0, ""
            for ch in bd:
                if ch in "({[":
                    depth += 1
                elif ch in ")}]":
                    depth -= 1
                if ch == ";" and depth == 0:
                    out.append(cur)
                    cur = ""
                else:
                    cur += ch
            if cur:
                out.append(cur)
            return out

        def cap_of(ty, module):
            return self.const_arg(ty["args"][-1], module, feats)

        impls = []
        for module, name in self.ARB_MODELLED:
            imp = None
            for i in self.impls:
                if i["module"] == "arbitrary" and (i["trait"] or "").replace(" ", "").startswith("Arbitrary<") and \
                        i["self_ty"].replace(" ", "").split("<")[0].split("::")[-1] == name:
                    imp = i
            it = self.lookup(name, module, ("struct",), feats)
            if imp is None or it is None:
                raise Untranslatable("arbitrary::" + name, "hand-written Arbitrary impl not found")
            fn = [f for f in imp["items"] if f["kind"] == "fn" and f["name"] == "arbitrary"]
            if len(fn) != 1:
                raise Untranslatable("arbitrary::" + name, "no fn arbitrary")
            stmts = split_stmts(fn[0]["body"].replace(" ", ""))
            fields = [f for f, _ in self.fields_of(it, feats)]
            fidx = {f["name"]: i for i, f in enumerate(fields)}
            draws = []
            lets = {}
            for st in stmts[:-1]:
                mm = re.fullmatch(r"let(\w+)=(.*)", st)
                if not mm:
                    raise Untranslatable("arbitrary::" + name, "statement not a let: " + st[:60])
                lets[mm.group(1)] = mm.group(2)
            last = stmts[-1]
            if it["tuple"]:
                mm = re.fullmatch(r"Ok\(Self\((\w+)\)\)", last)
                order = [(mm.group(1), 0)] if mm else None
            else:
                mm = re.fullmatch(r"Ok\(Self\{([\w,:]*)\}\)", last)
                order = None
                if mm:
                    order = []
                    for part in mm.group(1).strip(",").split(","):
                        fld, _, var = part.partition(":")
                        order.append((var or fld, fidx.get(fld)))
            if not order or any(i is None for _, i in order) or sorted(i for _, i in order) != list(range(len(fields))):
                raise Untranslatable("arbitrary::" + name, "constructor expression not recognised")
            if list(lets) != [n for n, _ in order] and set(lets) != {n for n, _ in order}:
                raise Untranslatable("arbitrary::" + name, "lets and constructor disagree")
            for var, expr in lets.items():      # draw order = statement order
                i = dict(order)[var]
                ty = self.arb_resolve(fields[i]["ty"], it["module"], feats)
                inner = self.arb_resolve(ty["args"][0], it["module"], feats) if ty["name"] == "Option" else ty
                if expr == "arbitrary_str(u)?" and ty["name"] == "String":
                    d = {"k": "str", "cap": cap_of(ty, it["module"])}
                elif expr == "ifbool::arbitrary(u)?{Some(arbitrary_str(u)?)}else{None}" and ty["name"] == "Option" and inner["name"] == "String":
                    d = {"k": "optStr", "cap": cap_of(inner, it["module"])}
                elif expr == "arbitrary_bytes(u)?" and ty["name"] == "Bytes":
                    d = {"k": "bytes", "cap": cap_of(ty, it["module"])}
                elif expr == "arbitrary_key(u)?" and ty["name"] == "EcdhEsHkdf256PublicKey":
                    d = {"k": "key"}
                elif expr in ("Arbitrary::arbitrary(u)?", "u.arbitrary()?") and ty["name"] == "Option" and inner["name"] == "Icon":
                    ic = self.lookup("Icon", it["module"], ("struct",), feats)
                    if not ic or not ic["unit"] or "Arbitrary" not in derives(effective_attrs(ic["attrs"], feats)[1]):
                        raise Untranslatable("Icon", "expected a unit struct deriving Arbitrary")
                    d = {"k": "optUnit"}
                elif expr in ("Arbitrary::arbitrary(u)?", "u.arbitrary()?") and ty["name"] == "bool":
                    d = {"k": "bool"}
                elif expr in ("Arbitrary::arbitrary(u)?", "u.arbitrary()?") and ty["name"] == "Option" and inner["name"] == "u32":
                    d = {"k": "optU32"}
                elif expr == "arbitrary_vec(u)?" and ty["name"] == "Vec":
                    el = ty["args"][0]["name"]
                    cap = cap_of(ty, it["module"])
                    if el == "KnownPublicKeyCredentialParameters":
                        ki = [i2 for i2 in self.impls if i2["module"] == "arbitrary" and
                              i2["self_ty"].replace(" ", "").endswith("KnownPublicKeyCredentialParameters")]
                        kb = [f for f in ki[0]["items"] if f["kind"] == "fn"][0]["body"].replace(" ", "") if ki else ""
                        if kb != "{letalg=*u.choose(&webauthn::KNOWN_ALGS)?;Ok(Self{alg})}":
                            raise Untranslatable("KnownPublicKeyCredentialParameters::arbitrary", "body not recognised")
                        known = None
                        for c in self.by_name.get("KNOWN_ALGS", []):
                            known = c
                        vals = [self.const_value(x.strip(), known["module"], feats) for x in known["expr"].strip("[] ").split(",") if x.strip()]
                        d = {"k": "vecChoose", "cap": cap, "table": vals}
                    else:
                        en = self.lookup(el, it["module"], ("enum",), feats)
                        if en is None or any(v["fields"] for v in en["variants"]) or \
                                "Arbitrary" not in derives(effective_attrs(en["attrs"], feats)[1]):
                            raise Untranslatable(el, "expected a field-less enum deriving Arbitrary")
                        d = {"k": "vecEnum", "cap": cap, "count": len(self.variant_names(en, feats))}
                else:
                    raise Untranslatable("arbitrary::" + name, f"draw not recognised: {var} = {expr[:80]}")
                d["field"] = i
                draws.append(d)
            impls.append({"type": module + "::" + name, "draws": draws, "nfields": len(fields)})
        return {"shape": shape, "impls": impls}

    def byte_arms(self, m, module, owner):
        arms = []
        for arm in m["arms"]:
            pat = arm["pat"].strip()
            body = arm["body"].replace(" ", "")
            while body.startswith("{") and body.endswith("}"):
                body = body[1:-1]
            if arm["guard"]:
                raise Untranslatable(owner, "guarded arm in byte table")
            if pat == "_":
                lo, hi = 0, 255
            else:
                p = re.sub(r"^\w+ @ ", "", pat)
                if "..=" in p:
                    a, b = p.split("..=")
                    lo = self.const_value(a.strip(), module, frozenset(), owner)
                    hi = self.const_value(b.strip(), module, frozenset(), owner)
                else:
                    lo = hi = self.const_value(p, module, frozenset(), owner)
            # classify body
            if re.search(r"Err\(", body):
                res = {"err": True}
            else:
                mm = re.search(r"(?:Ok\()?(?:\w+::)*(\w+)(\(.*)?\)?$", body)
                name = re.sub(r"^Ok\(", "", body)
                name = name.split("(")[0].split("::")[-1].rstrip(")")
                if not re.match(r"^\w+$", name):
                    raise Untranslatable(owner, f"odd arm body {arm['body']}")
                res = {"variant": name, "wraps_try": "try_from" in body}
            arms.append({"lo": lo, "hi": hi, **res})
        return arms

    def mapping_error(self, fn):
        out = []
        for m in fn["matches"]:
            for arm in m["arms"]:
                pat = arm["pat"].replace(" ", "")
                body = arm["body"].replace(" ", "")
                if body.startswith("match"):
                    continue
                while body.startswith("{") and body.endswith("}"):
                    body = body[1:-1]
                mm = re.match(r"^(?:Error|Self)::(\w+)$", body)
                if not mm:
                    raise Untranslatable("From<CtapMappingError>", f"odd arm body {arm['body']}")
                if pat.startswith("CtapMappingError::InvalidCommand"):
                    out.append(["invalid_command", mm.group(1)])
                elif pat in ("cbor_smol::Error::SerdeMissingField",
                             "CtapMappingError::ParsingError(cbor_smol::Error::SerdeMissingField)"):
                    out.append(["missing_field", mm.group(1)])
                elif pat in ("_", "CtapMappingError::ParsingError(_)"):
                    out.append(["other", mm.group(1)])
                else:
                    raise Untranslatable("From<CtapMappingError>", f"odd arm {arm['pat']}")
        return out

    REQ_FRAME = ("{ if data . is_empty () { return Err (CtapMappingError :: ParsingError (cbor_smol :: Error :: DeserializeUnexpectedEnd) "
                 ". into () ,) ; } let (& op , data) = data . split_first () . ok_or (CtapMappingError :: ParsingError (cbor_smol :: "
                 "Error :: DeserializeUnexpectedEnd ,)) ? ; let operation = Operation :: try_from (op) . map_err (| _ | { "
                 "CtapMappingError :: InvalidCommand (op) }) ? ; Ok (MATCH) }")
    RESP_FRAME = ("{ buffer . resize_default (buffer . capacity ()) . ok () ; let (status , data) = buffer . split_first_mut () . unwrap () ; "
                  "use cbor_smol :: cbor_serialize ; use Response :: * ; let outcome = MATCH ; if let Ok (slice) = outcome { "
                  "* status = 0 ; if slice == [0xA0] { buffer . resize_default (1) . ok () ; } else { let l = slice . len () ; "
                  "buffer . resize_default (l + 1) . ok () ; } } else { * status = Error :: %ERR% as u8 ; buffer . resize_default (1) . ok () ; } }")

    @classmethod
    def frame_of(cls, body, anchor):
        """the function body with the `match <anchor> { .. }` block replaced by MATCH and logging
        macro statements removed, in the normal form of `alpha`"""
        i = body.find("match " + anchor + " {")
        if i < 0 or body.count("match " + anchor + " {") != 1:
            return None
        j = body.index("{", i)
        depth = 0
        for k in range(j, len(body)):
            if body[k] == "{":
                depth += 1
            elif body[k] == "}":
                depth -= 1
                if depth == 0:
                    break
        framed = body[:i] + "MATCH" + body[k + 1:]
        framed = re.sub(r"\b(?:debug_now|debug|info_now|info|trace|warn|error|error_now) ! \((?:[^()]|\([^()]*\))*\) ; ", "", framed)
        return cls.alpha(framed.replace(" ,)", ")").replace(",)", ")"))

    def op_switch(self, f):
        am = re.search(r"let (\w+) = Operation :: try_from", f["body"])
        opvar = am.group(1) if am else "operation"
        fr = self.frame_of(f["body"], opvar)
        if fr != self.alpha(self.REQ_FRAME.replace(" ,)", ")")):
            raise Untranslatable("Request::deserialize", "the code around the operation switch (empty-input guard, split_first, "
                                 "Operation::try_from → InvalidCommand) is not of the recognised shape")
        m = None
        for mm in f["matches"]:
            if mm["scrutinee"].strip() == opvar:
                m = mm
        if m is None:
            raise Untranslatable("Request::deserialize", "operation switch not found")
        arms = []
        for arm in m["arms"]:
            ops = [p.strip().split("::")[-1].split("(")[0].strip() for p in arm["pat"].split("|")]
            body = arm["body"].replace(" ", "")
            if "CtapMappingError::InvalidCommand" in body:
                kind = {"k": "invalid"}
            else:
                mm = re.match(r"^\{?(?:Request|Self)::(\w+)(\((.*)\))?\}?$", body)
                if not mm:
                    raise Untranslatable("Request::deserialize", f"odd arm {arm['body']}")
                if mm.group(2) is None:
                    kind = {"k": "unit", "variant": mm.group(1)}
                elif "cbor_deserialize(data)" in mm.group(3):
                    kind = {"k": "cbor", "variant": mm.group(1)}
                elif mm.group(3) == "vendor_operation":
                    kind = {"k": "vendor", "variant": mm.group(1)}
                else:
                    raise Untranslatable("Request::deserialize", f"odd arm {arm['body']}")
            for o in ops:
                arms.append({"op": o, **kind})
        pre = f["body"].split("Ok (match " + opvar)[0]
        return {"arms": arms,
                "empty_guard": "data . is_empty ()" in pre and "DeserializeUnexpectedEnd" in pre,
                "uses_try_from": "Operation :: try_from (op)" in pre}

    def resp_switch(self, f):
        fr = self.frame_of(f["body"], "self")
        mm = re.search(r"\* \w+ = Error :: (\w+) as u8", f["body"])
        if fr is None or mm is None or fr != self.alpha(self.RESP_FRAME.replace("%ERR%", mm.group(1))):
            raise Untranslatable("Response::serialize", "the code around the variant switch (status byte, empty-map collapse, "
                                 "truncation, failure status) is not of the recognised shape")
        m = None
        for mm in f["matches"]:
            if mm["scrutinee"].strip() == "self":
                m = mm
        if m is None:
            raise Untranslatable("Response::serialize", "variant switch not found")
        arms = []
        for arm in m["arms"]:
            body = arm["body"].replace(" ", "")
            for p in arm["pat"].split("|"):
                v = p.strip().split("(")[0].strip().split("::")[-1]
                dm = re.search(r"let \(\s*\w+ , (\w+)\s*\) = buffer \. split_first_mut", f["body"])
                bm = re.fullmatch(r"\w+\((\w+)\)", p.strip().replace(" ", ""))
                if dm and bm and body == f"cbor_serialize({bm.group(1)},{dm.group(1)})":
                    arms.append({"variant": v, "k": "cbor"})
                elif body == "Ok([].as_slice())":
                    arms.append({"variant": v, "k": "empty"})
                else:
                    raise Untranslatable("Response::serialize", f"odd arm {arm['body']}")
        return arms

    def trait_fn(self, module, trait, name):
        for c in self.by_name.get(trait, []):
            if c["kind"] == "trait" and c["module"] == module:
                for f in c["items"]:
                    if f["name"] == name:
                        return f
        raise Untranslatable(f"{module}::{trait}::{name}", "not found")

    def dispatch(self, module, trait, name):
        f = self.trait_fn(module, trait, name)
        m = [mm for mm in f["matches"] if mm["scrutinee"].strip() == "request"]
        if not m:
            raise Untranslatable(name, "request match not found")
        arms = []
        for arm in m[0]["arms"]:
            pat = arm["pat"].replace(" ", "")
            pm = re.match(r"^Request::(\w+)(\((\w+)\))?$", pat)
            if not pm:
                raise Untranslatable(name, f"odd pattern {arm['pat']}")
            body = arm["body"]
            # the arm must be exactly "log; call the handler (with `?`); wrap / return the response":
            # logging macros and `.inspect_err(|e| { log })` are dropped, local names are irrelevant
            core = re.sub(r"\b(?:debug_now|debug|info_now|info|trace|warn|error|error_now) ! \((?:[^()]|\([^()]*\))*\) ; ", "", body)
            core = re.sub(r" \. inspect_err \(\| \w+ \| \{ \}\s*,?\s*\)", "", core)
            core = core.replace(" ", "").replace(",)", ")")
            if not core.startswith("{"):
                core = "{" + core + "}"
            shapes = (r"\{Ok\(Response::(\w+)\(self\.(\w+)\((\*?\w*)\)\??\)\)\}",
                      r"\{self\.(\w+)\((\*?\w*)\)\?;Ok\(Response::(\w+)\)\}",
                      r"\{Ok\(Response::(\w+)\(Self::(\w+)\(\)\)\)\}")
            if not any(re.fullmatch(sh, core) for sh in shapes):
                raise Untranslatable(name, f"arm for {pm.group(1)} is not a plain handler call: {core[:120]}")
            calls = re.findall(r"(?:self|Self) (?:\.|::) (\w+) \(([^()]*)\)", body)
            calls = [(c, a.replace(" ", "")) for c, a in calls if c not in ("inspect_err",)]
            for c_, a_ in calls:
                if a_.lstrip("*") != (pm.group(3) or ""):
                    raise Untranslatable(name, f"arm for {pm.group(1)} does not pass the request's own payload to {c_}")
            rv = re.findall(r"Response :: (\w+)", body)
            arms.append({"request": pm.group(1), "binds": pm.group(3),
                         "calls": [{"method": c, "args": a} for c, a in calls],
                         "responses": rv,
                         "wraps": bool(re.search(r"Response :: \w+ \(", body)),
                         "propagates": "?" in body})
        return {"arms": arms, "fp": fingerprint(f["body"])}

    def rpc_delegate(self, module):
        for imp in self.impls:
            tr = (imp["trait"] or "").replace(" ", "")
            if imp["module"] == module and tr.startswith("crate::Rpc<"):
                for f in imp["items"]:
                    if f["kind"] == "fn" and f["name"] == "call":
                        return norm_tokens(f["body"])
        raise Untranslatable(module, "Rpc impl not found")

    def default_method(self, module, trait, name):
        f = self.trait_fn(module, trait, name)
        return norm_tokens(f["body"] or "")


def load(path):
    return Model(json.load(open(path)))


if __name__ == "__main__":
    m = load(sys.argv[1])
    out = {"schemas": {}, "tables": m.tables()}
    for feats in ALL_CFGS:
        out["schemas"][cfg_id(feats)] = m.schema(feats)
    json.dump(out, sys.stdout, indent=1)
