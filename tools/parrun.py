#!/usr/bin/env python3
"""parrun.py seeds|harmless [-j N] [name-prefix ..] [Cxx ..]

The seed matrix / the harmless suite, N patches at a time.  Every worker owns a private copy of
/verif (without .git, replays and cargo target directories) and a private clone of /repo under
/tmp/parrun/w<i>; its copy's harness depends on its clone, and its `check` reads the clone through
VERIF_REPO.  /repo itself and /verif's evidence are never touched.  Results are merged into
seeded/<name>/meta.json + seeded/MATRIX.json, or harmless/RESULT.json, at the end; the worker
directories are removed."""
import glob
import json
import os
import re
import shutil
import subprocess
import sys
import threading

ROOT = os.path.dirname(os.path.dirname(os.path.abspath(__file__)))
BASE = f"/tmp/parrun-{os.getpid()}"
kind = sys.argv[1]
args = sys.argv[2:]
N = 5
if "-j" in args:
    i = args.index("-j")
    N = int(args[i + 1])
    del args[i:i + 2]
pids_arg = [a for a in args if re.fullmatch(r"C\d\d", a)]
prefixes = [a for a in args if a not in pids_arg]
ALL = [f"C{i:02d}" for i in range(1, 20)]

jobs = []
if kind == "seeds":
    for d in sorted(x for x in glob.glob(os.path.join(ROOT, "seeded", "*")) if os.path.isdir(x)):
        name = os.path.basename(d)
        if prefixes and not any(name.startswith(p) for p in prefixes):
            continue
        jobs.append((name, d, [json.load(open(os.path.join(d, "meta.json")))["property"]]))
else:
    for d in sorted(glob.glob(os.path.join(ROOT, "harmless", "H*")), key=lambda x: int(os.path.basename(x)[1:])):
        name = os.path.basename(d)
        if prefixes and name not in prefixes:
            continue
        jobs.append((name, d, pids_arg or ALL))
# long jobs first; the memory-hungry C04 runs (several GB each once the tie is broken) at most two at a time
jobs.sort(key=lambda j: (-len(j[2]), j[2] != ["C04"]))
lock = threading.Lock()
heavy = threading.Semaphore(2)
results = {}


def sh(cmd, **kw):
    return subprocess.run(cmd, capture_output=True, text=True, **kw)


def setup(i):
    w = os.path.join(BASE, f"w{i}")
    shutil.rmtree(w, ignore_errors=True)
    os.makedirs(w)
    sh(["git", "clone", "-q", "/repo", os.path.join(w, "repo")])
    sh(["rsync", "-a", "--exclude", ".git", "--exclude", "replays", "--exclude", "build/target-*", "--exclude", "seeded",
        "--exclude", "harmless", "--exclude", "spikes", ROOT + "/", os.path.join(w, "verif") + "/"])
    ct = os.path.join(w, "verif", "harness", "Cargo.toml")
    s = open(ct).read().replace('path = "/repo"', f'path = "{w}/repo"')
    open(ct, "w").write(s)
    mt = os.path.join(w, "verif", "harness-miri", "Cargo.toml")
    if os.path.exists(mt):
        open(mt, "w").write(open(mt).read().replace('path = "/repo"', f'path = "{w}/repo"'))
    return w


def worker(i):
    w = setup(i)
    repo, verif = os.path.join(w, "repo"), os.path.join(w, "verif")
    env = dict(os.environ, VERIF_REPO=repo, CARGO_NET_OFFLINE="true")
    while True:
        with lock:
            if not jobs:
                return
            name, d, pids = jobs.pop(0)
        r = sh(["git", "-C", repo, "apply", os.path.join(d, "patch.diff")])
        row = {}
        if r.returncode != 0:
            row = {p: "patch does not apply" for p in pids}
        else:
            for pid in pids:
                if pid == "C04":
                    with heavy:
                        o = sh([os.path.join(verif, "check"), pid, "--tier", "quick"], cwd=verif, env=env)
                else:
                    o = sh([os.path.join(verif, "check"), pid, "--tier", "quick"], cwd=verif, env=env)
                m = re.search(r"VIOLATION property=(\S+) replay=(\S+)( no-failing-input-found)?", o.stdout)
                if m:
                    detail = ""
                    try:
                        rp = json.load(open(m.group(2)))
                        detail = "; ".join(b["stage"] for b in rp["broken"])
                        if rp["cases"]:
                            c = rp["cases"][0]
                            detail += f" | e.g. {c['hline'][:100]} -> impl {str(c['impl'])[:60]} expected {str(c['oracle'])[:60]}"
                    except Exception:
                        pass
                    row[pid] = {"verdict": "detected: proof/tie broken, no failing input found" if m.group(3) else "detected with a failing input",
                                "detail": detail, "line": m.group(0).replace(verif, "/verif")}
                elif o.returncode == 0 and "OK property" in o.stdout:
                    notes = [l for l in o.stdout.splitlines() if l.startswith("NOTE")]
                    row[pid] = {"verdict": "ok", "detail": "; ".join(notes)[:300]}
                else:
                    row[pid] = {"verdict": "error", "detail": (o.stdout[-300:] + " / " + o.stderr[-600:])}
        sh(["git", "-C", repo, "checkout", "--", "."])
        sh(["git", "-C", repo, "clean", "-fdq"])
        with lock:
            results[name] = row
            bad = {p: v["verdict"] for p, v in row.items() if isinstance(v, dict) and v["verdict"] != "ok"} if kind == "harmless" else \
                  {p: (v["verdict"] if isinstance(v, dict) else v) for p, v in row.items()}
            print(name, bad, flush=True)


ts = [threading.Thread(target=worker, args=(i,)) for i in range(min(N, len(jobs)))]
for t in ts:
    t.start()
for t in ts:
    t.join()
shutil.rmtree(BASE, ignore_errors=True)

partial = bool(prefixes or pids_arg)
if kind == "seeds":
    rows = []
    for name in sorted(results):
        d = os.path.join(ROOT, "seeded", name)
        meta = json.load(open(os.path.join(d, "meta.json")))
        pid = meta["property"]
        v = results[name][pid]
        if isinstance(v, str):
            v = {"verdict": "error: " + v, "detail": ""}
        verdict = "MISSED" if v["verdict"] == "ok" else v["verdict"]
        meta["check_result"] = {"check": f"./check {pid} (quick)", "verdict": verdict, "detail": v["detail"]}
        json.dump(meta, open(os.path.join(d, "meta.json"), "w"), indent=1)
        rows.append({"seed": name, "property": pid, "verdict": verdict, "detail": v["detail"]})
    json.dump(rows, open(os.path.join(ROOT, "seeded", "MATRIX.partial.json" if partial else "MATRIX.json"), "w"), indent=1)
    print("seeds:", len(rows), "with failing input:", sum(r["verdict"] == "detected with a failing input" for r in rows),
          "no input:", sum("no failing input" in r["verdict"] for r in rows), "missed:", sum(r["verdict"] == "MISSED" for r in rows),
          "errors:", sum(r["verdict"].startswith("error") for r in rows))
else:
    res = {n: {p: ("ok" if isinstance(v, dict) and v["verdict"] == "ok" else (v if isinstance(v, str) else v["verdict"] + " " + v.get("line", "") + " " + v["detail"])[:300])
               for p, v in row.items()} for n, row in results.items()}
    json.dump(res, open(os.path.join(ROOT, "harmless", "RESULT.partial.json" if partial else "RESULT.json"), "w"), indent=1, sort_keys=True)
    alarms = {n: [p for p, v in row.items() if v != "ok"] for n, row in res.items()}
    print("harmless:", len(res), "patches; alarms:", {n: a for n, a in alarms.items() if a})
