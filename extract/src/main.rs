//! Thin source extractor for ctap-types: parses every `.rs` file under `<repo>/src` with `syn`
//! and dumps the constructs the wire format depends on as JSON (structs with attributes and
//! field types, enums with discriminants, consts, type aliases, impl blocks with function bodies
//! and their `match` tables, macro invocations).  All interpretation (cfg evaluation, alias and
//! const resolution, schema construction) happens in `/verif/tools/gen.py`.
//!
//! usage: extract <repo-root> > ast.json

use quote::ToTokens;
use serde_json::{json, Value};
use std::path::Path;
use syn::punctuated::Punctuated;
use syn::visit::Visit;
use syn::{Meta, Token};

fn toks<T: ToTokens>(t: &T) -> String {
    t.to_token_stream().to_string()
}

fn meta_json(m: &Meta) -> Value {
    match m {
        Meta::Path(p) => json!({"p": toks(p).replace(' ', "")}),
        Meta::NameValue(nv) => {
            let v = match &nv.value {
                syn::Expr::Lit(l) => match &l.lit {
                    syn::Lit::Str(s) => json!(s.value()),
                    syn::Lit::Int(i) => json!(i.base10_digits()),
                    syn::Lit::Bool(b) => json!(b.value),
                    other => json!(toks(other)),
                },
                e => json!(toks(e)),
            };
            json!({"p": toks(&nv.path).replace(' ', ""), "v": v})
        }
        Meta::List(l) => {
            let parsed = l.parse_args_with(Punctuated::<Meta, Token![,]>::parse_terminated);
            match parsed {
                Ok(items) => {
                    json!({"p": toks(&l.path).replace(' ', ""), "l": items.iter().map(meta_json).collect::<Vec<_>>()})
                }
                Err(_) => json!({"p": toks(&l.path).replace(' ', ""), "raw": l.tokens.to_string()}),
            }
        }
    }
}

fn attrs_json(attrs: &[syn::Attribute]) -> Value {
    Value::Array(
        attrs
            .iter()
            .filter(|a| !a.path().is_ident("doc"))
            .map(|a| meta_json(&a.meta))
            .collect(),
    )
}

fn type_json(t: &syn::Type) -> Value {
    match t {
        syn::Type::Path(tp) => {
            let segs: Vec<String> = tp.path.segments.iter().map(|s| s.ident.to_string()).collect();
            let last = tp.path.segments.last().unwrap();
            let mut args = vec![];
            if let syn::PathArguments::AngleBracketed(ab) = &last.arguments {
                for a in &ab.args {
                    match a {
                        syn::GenericArgument::Type(t) => args.push(type_json(t)),
                        syn::GenericArgument::Const(e) => args.push(json!({"k":"const","expr":toks(e)})),
                        syn::GenericArgument::Lifetime(_) => {}
                        other => args.push(json!({"k":"other","tokens":toks(other)})),
                    }
                }
            }
            json!({"k":"path","path":segs.join("::"),"name":last.ident.to_string(),"args":args})
        }
        syn::Type::Reference(r) => json!({"k":"ref","inner":type_json(&r.elem)}),
        syn::Type::Array(a) => json!({"k":"array","elem":type_json(&a.elem),"len":toks(&a.len)}),
        syn::Type::Slice(s) => json!({"k":"slice","elem":type_json(&s.elem)}),
        syn::Type::Tuple(t) => json!({"k":"tuple","elems":t.elems.iter().map(type_json).collect::<Vec<_>>()}),
        syn::Type::Paren(p) => type_json(&p.elem),
        other => json!({"k":"other","tokens":toks(other)}),
    }
}

fn fields_json(fields: &syn::Fields) -> Value {
    Value::Array(
        fields
            .iter()
            .enumerate()
            .map(|(i, f)| {
                json!({
                    "name": f.ident.as_ref().map(|i| i.to_string()).unwrap_or_else(|| i.to_string()),
                    "vis": toks(&f.vis),
                    "attrs": attrs_json(&f.attrs),
                    "ty": type_json(&f.ty),
                })
            })
            .collect(),
    )
}

struct MatchCollector {
    out: Vec<Value>,
}
impl<'ast> Visit<'ast> for MatchCollector {
    fn visit_expr_match(&mut self, m: &'ast syn::ExprMatch) {
        let arms: Vec<Value> = m
            .arms
            .iter()
            .map(|a| {
                json!({
                    "pat": toks(&a.pat),
                    "guard": a.guard.as_ref().map(|g| toks(&g.1)),
                    "body": toks(&a.body),
                    "attrs": attrs_json(&a.attrs),
                })
            })
            .collect();
        self.out.push(json!({"scrutinee": toks(&m.expr), "arms": arms}));
        syn::visit::visit_expr_match(self, m);
    }
}

fn fn_json(name: &str, attrs: &[syn::Attribute], sig: &syn::Signature, block: Option<&syn::Block>) -> Value {
    let mut mc = MatchCollector { out: vec![] };
    if let Some(b) = block {
        mc.visit_block(b);
    }
    json!({
        "kind": "fn",
        "name": name,
        "attrs": attrs_json(attrs),
        "sig": toks(sig),
        "body": block.map(|b| toks(b)),
        "matches": mc.out,
    })
}

fn impl_items(items: &[syn::ImplItem]) -> Vec<Value> {
    let mut out = vec![];
    for it in items {
        match it {
            syn::ImplItem::Fn(f) => out.push(fn_json(&f.sig.ident.to_string(), &f.attrs, &f.sig, Some(&f.block))),
            syn::ImplItem::Const(c) => out.push(json!({
                "kind":"const","name":c.ident.to_string(),"attrs":attrs_json(&c.attrs),
                "ty":type_json(&c.ty),"expr":toks(&c.expr)})),
            syn::ImplItem::Type(t) => out.push(json!({
                "kind":"type","name":t.ident.to_string(),"ty":type_json(&t.ty)})),
            _ => {}
        }
    }
    out
}

fn flatten_use(t: &syn::UseTree, prefix: String, out: &mut Vec<Value>) {
    let join = |p: &str, s: String| if p.is_empty() { s } else { format!("{}::{}", p, s) };
    match t {
        syn::UseTree::Path(p) => flatten_use(&p.tree, join(&prefix, p.ident.to_string()), out),
        syn::UseTree::Name(n) => out.push(json!({"path": join(&prefix, n.ident.to_string()), "alias": Value::Null, "glob": false})),
        syn::UseTree::Rename(r) => out.push(json!({"path": join(&prefix, r.ident.to_string()), "alias": r.rename.to_string(), "glob": false})),
        syn::UseTree::Glob(_) => out.push(json!({"path": prefix, "alias": Value::Null, "glob": true})),
        syn::UseTree::Group(g) => { for x in &g.items { flatten_use(x, prefix.clone(), out); } }
    }
}

fn items_json(items: &[syn::Item], module: &str, out: &mut Vec<Value>) {
    for it in items {
        match it {
            syn::Item::Struct(s) => out.push(json!({
                "kind":"struct","module":module,"name":s.ident.to_string(),"vis":toks(&s.vis),
                "attrs":attrs_json(&s.attrs),"generics":toks(&s.generics),
                "tuple": matches!(s.fields, syn::Fields::Unnamed(_)),
                "unit": matches!(s.fields, syn::Fields::Unit),
                "fields":fields_json(&s.fields)})),
            syn::Item::Enum(e) => out.push(json!({
                "kind":"enum","module":module,"name":e.ident.to_string(),"vis":toks(&e.vis),
                "attrs":attrs_json(&e.attrs),
                "variants": e.variants.iter().map(|v| json!({
                    "name": v.ident.to_string(),
                    "attrs": attrs_json(&v.attrs),
                    "disc": v.discriminant.as_ref().map(|d| toks(&d.1)),
                    "fields": fields_json(&v.fields),
                })).collect::<Vec<_>>()})),
            syn::Item::Const(c) => out.push(json!({
                "kind":"const","module":module,"name":c.ident.to_string(),"attrs":attrs_json(&c.attrs),
                "ty":type_json(&c.ty),"expr":toks(&c.expr)})),
            syn::Item::Type(t) => out.push(json!({
                "kind":"type","module":module,"name":t.ident.to_string(),"attrs":attrs_json(&t.attrs),
                "ty":type_json(&t.ty)})),
            syn::Item::Impl(i) => out.push(json!({
                "kind":"impl","module":module,"attrs":attrs_json(&i.attrs),
                "trait": i.trait_.as_ref().map(|t| toks(&t.1)),
                "self_ty": toks(&i.self_ty),
                "generics": toks(&i.generics),
                "items": impl_items(&i.items)})),
            syn::Item::Fn(f) => {
                let mut v = fn_json(&f.sig.ident.to_string(), &f.attrs, &f.sig, Some(&f.block));
                v["module"] = json!(module);
                out.push(v)
            }
            syn::Item::Trait(t) => {
                let mut its = vec![];
                for ti in &t.items {
                    if let syn::TraitItem::Fn(f) = ti {
                        its.push(fn_json(&f.sig.ident.to_string(), &f.attrs, &f.sig, f.default.as_ref()));
                    }
                }
                out.push(json!({"kind":"trait","module":module,"name":t.ident.to_string(),
                    "attrs":attrs_json(&t.attrs),"items":its}))
            }
            syn::Item::Macro(m) => out.push(json!({
                "kind":"macro","module":module,"path":toks(&m.mac.path),"tokens":m.mac.tokens.to_string()})),
            syn::Item::Mod(m) => {
                let sub = if module.is_empty() { m.ident.to_string() } else { format!("{}::{}", module, m.ident) };
                let is_test = m.attrs.iter().any(|a| toks(&a.meta).replace(' ', "") == "cfg(test)");
                if is_test { continue; }
                match &m.content {
                    Some((_, its)) => items_json(its, &sub, out),
                    None => out.push(json!({"kind":"mod","module":module,"name":m.ident.to_string(),"vis":toks(&m.vis),
                                            "attrs":attrs_json(&m.attrs)})),
                }
            }
            syn::Item::Use(u) => {
                let mut paths = vec![];
                flatten_use(&u.tree, String::new(), &mut paths);
                out.push(json!({"kind":"use","module":module,"vis":toks(&u.vis),"paths":paths}));
            }
            _ => {}
        }
    }
}

fn walk(dir: &Path, root: &Path, files: &mut serde_json::Map<String, Value>) {
    let mut entries: Vec<_> = std::fs::read_dir(dir).unwrap().map(|e| e.unwrap().path()).collect();
    entries.sort();
    for p in entries {
        if p.is_dir() {
            walk(&p, root, files);
        } else if p.extension().map(|e| e == "rs").unwrap_or(false) {
            let rel = p.strip_prefix(root).unwrap().to_string_lossy().to_string();
            let src = std::fs::read_to_string(&p).unwrap();
            match syn::parse_file(&src) {
                Ok(f) => {
                    // module path from file path: src/ctap2/get_info.rs -> ctap2::get_info
                    let m = rel.trim_start_matches("src/").trim_end_matches(".rs").replace('/', "::");
                    let m = if m == "lib" { String::new() } else { m };
                    let mut items = vec![];
                    items_json(&f.items, &m, &mut items);
                    files.insert(rel, json!({"items": items}));
                }
                Err(e) => {
                    files.insert(rel, json!({"parse_error": e.to_string()}));
                }
            }
        }
    }
}

fn main() {
    let root = std::env::args().nth(1).expect("usage: extract <repo-root>");
    let root = Path::new(&root);
    let mut files = serde_json::Map::new();
    walk(&root.join("src"), root, &mut files);
    let cargo = std::fs::read_to_string(root.join("Cargo.toml")).unwrap_or_default();
    let out = json!({"files": files, "cargo_toml": cargo});
    println!("{}", serde_json::to_string(&out).unwrap());
}
