//! Generic positional value, same one-token text syntax as the Lean driver:
//! n<dec> | i<dec> | bT | bF | u | x<hex> | s<hex> | [v,..] | {o,..} (o = _ | v) | <i:v>

#[derive(Clone, Debug, PartialEq)]
pub enum V {
    Nat(u128),
    Int(i128),
    Bool(bool),
    Unit,
    Bytes(Vec<u8>),
    Text(Vec<u8>),
    List(Vec<V>),
    Record(Vec<Option<V>>),
    Variant(usize, Box<V>),
}

pub fn hex(b: &[u8]) -> String {
    let mut s = String::with_capacity(b.len() * 2);
    for x in b {
        s.push_str(&format!("{:02x}", x));
    }
    s
}

pub fn unhex(s: &str) -> Option<Vec<u8>> {
    if s == "-" {
        return Some(vec![]);
    }
    if s.len() % 2 != 0 {
        return None;
    }
    let b = s.as_bytes();
    let mut out = Vec::with_capacity(b.len() / 2);
    for i in (0..b.len()).step_by(2) {
        let h = (b[i] as char).to_digit(16)?;
        let l = (b[i + 1] as char).to_digit(16)?;
        out.push((h * 16 + l) as u8);
    }
    Some(out)
}

impl V {
    pub fn show(&self) -> String {
        let mut s = String::new();
        self.show_into(&mut s);
        s
    }
    fn show_into(&self, s: &mut String) {
        match self {
            V::Nat(n) => s.push_str(&format!("n{}", n)),
            V::Int(i) => s.push_str(&format!("i{}", i)),
            V::Bool(b) => s.push_str(if *b { "bT" } else { "bF" }),
            V::Unit => s.push('u'),
            V::Bytes(b) => {
                s.push('x');
                s.push_str(&hex(b))
            }
            V::Text(b) => {
                s.push('s');
                s.push_str(&hex(b))
            }
            V::List(vs) => {
                s.push('[');
                for (i, v) in vs.iter().enumerate() {
                    if i > 0 {
                        s.push(',');
                    }
                    v.show_into(s);
                }
                s.push(']');
            }
            V::Record(sl) => {
                s.push('{');
                for (i, o) in sl.iter().enumerate() {
                    if i > 0 {
                        s.push(',');
                    }
                    match o {
                        None => s.push('_'),
                        Some(v) => v.show_into(s),
                    }
                }
                s.push('}');
            }
            V::Variant(i, v) => {
                s.push_str(&format!("<{}:", i));
                v.show_into(s);
                s.push('>');
            }
        }
    }

    pub fn parse(s: &str) -> Option<V> {
        let b = s.as_bytes();
        let mut p = 0usize;
        let v = parse_val(b, &mut p)?;
        if p == b.len() {
            Some(v)
        } else {
            None
        }
    }

    pub fn nat(&self) -> u128 {
        match self {
            V::Nat(n) => *n,
            _ => panic!("harness: expected nat, got {:?}", self),
        }
    }
    pub fn int(&self) -> i128 {
        match self {
            V::Int(n) => *n,
            _ => panic!("harness: expected int, got {:?}", self),
        }
    }
    pub fn boolean(&self) -> bool {
        match self {
            V::Bool(n) => *n,
            _ => panic!("harness: expected bool, got {:?}", self),
        }
    }
    pub fn bytes(&self) -> &[u8] {
        match self {
            V::Bytes(n) => n,
            _ => panic!("harness: expected bytes, got {:?}", self),
        }
    }
    pub fn text(&self) -> &str {
        match self {
            V::Text(n) => core::str::from_utf8(n).expect("harness: text value is not UTF-8"),
            _ => panic!("harness: expected text, got {:?}", self),
        }
    }
    pub fn list(&self) -> &[V] {
        match self {
            V::List(n) => n,
            _ => panic!("harness: expected list, got {:?}", self),
        }
    }
    pub fn record(&self) -> &[Option<V>] {
        match self {
            V::Record(n) => n,
            _ => panic!("harness: expected record, got {:?}", self),
        }
    }
    pub fn variant(&self) -> (usize, &V) {
        match self {
            V::Variant(i, v) => (*i, v),
            _ => panic!("harness: expected variant, got {:?}", self),
        }
    }
}

fn take_while(b: &[u8], p: &mut usize, f: impl Fn(u8) -> bool) -> String {
    let st = *p;
    while *p < b.len() && f(b[*p]) {
        *p += 1;
    }
    String::from_utf8_lossy(&b[st..*p]).to_string()
}

fn parse_val(b: &[u8], p: &mut usize) -> Option<V> {
    let c = *b.get(*p)?;
    *p += 1;
    match c {
        b'n' => take_while(b, p, |c| c.is_ascii_digit()).parse().ok().map(V::Nat),
        b'i' => {
            let neg = b.get(*p) == Some(&b'-');
            if neg {
                *p += 1;
            }
            let n: i128 = take_while(b, p, |c| c.is_ascii_digit()).parse().ok()?;
            Some(V::Int(if neg { -n } else { n }))
        }
        b'b' => {
            let d = *b.get(*p)?;
            *p += 1;
            match d {
                b'T' => Some(V::Bool(true)),
                b'F' => Some(V::Bool(false)),
                _ => None,
            }
        }
        b'u' => Some(V::Unit),
        b'x' => unhex(&take_while(b, p, |c| c.is_ascii_hexdigit() && !c.is_ascii_uppercase())).map(V::Bytes),
        b's' => unhex(&take_while(b, p, |c| c.is_ascii_hexdigit() && !c.is_ascii_uppercase())).map(V::Text),
        b'[' => {
            let mut vs = vec![];
            if b.get(*p) == Some(&b']') {
                *p += 1;
                return Some(V::List(vs));
            }
            loop {
                vs.push(parse_val(b, p)?);
                let d = *b.get(*p)?;
                *p += 1;
                if d == b']' {
                    return Some(V::List(vs));
                }
                if d != b',' {
                    return None;
                }
            }
        }
        b'{' => {
            let mut sl = vec![];
            if b.get(*p) == Some(&b'}') {
                *p += 1;
                return Some(V::Record(sl));
            }
            loop {
                if b.get(*p) == Some(&b'_') {
                    *p += 1;
                    sl.push(None);
                } else {
                    sl.push(Some(parse_val(b, p)?));
                }
                let d = *b.get(*p)?;
                *p += 1;
                if d == b'}' {
                    return Some(V::Record(sl));
                }
                if d != b',' {
                    return None;
                }
            }
        }
        b'<' => {
            let i: usize = take_while(b, p, |c| c.is_ascii_digit()).parse().ok()?;
            if *b.get(*p)? != b':' {
                return None;
            }
            *p += 1;
            let v = parse_val(b, p)?;
            if *b.get(*p)? != b'>' {
                return None;
            }
            *p += 1;
            Some(V::Variant(i, Box::new(v)))
        }
        _ => None,
    }
}
