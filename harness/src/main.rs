//! Correspondence harness: runs the real ctap-types code on one case per input line and prints
//! one canonical outcome line per case (same protocol as /verif/lean/Driver.lean).
mod mock;
mod support;
mod val;

#[cfg(all(not(feature = "get-info-full"), not(feature = "large-blobs"), not(feature = "third-party-payment")))]
#[path = "glue_000.rs"]
mod glue;
#[cfg(all(not(feature = "get-info-full"), not(feature = "large-blobs"), feature = "third-party-payment"))]
#[path = "glue_001.rs"]
mod glue;
#[cfg(all(not(feature = "get-info-full"), feature = "large-blobs", not(feature = "third-party-payment")))]
#[path = "glue_010.rs"]
mod glue;
#[cfg(all(not(feature = "get-info-full"), feature = "large-blobs", feature = "third-party-payment"))]
#[path = "glue_011.rs"]
mod glue;
#[cfg(all(feature = "get-info-full", not(feature = "large-blobs"), not(feature = "third-party-payment")))]
#[path = "glue_100.rs"]
mod glue;
#[cfg(all(feature = "get-info-full", not(feature = "large-blobs"), feature = "third-party-payment"))]
#[path = "glue_101.rs"]
mod glue;
#[cfg(all(feature = "get-info-full", feature = "large-blobs", not(feature = "third-party-payment")))]
#[path = "glue_110.rs"]
mod glue;
#[cfg(all(feature = "get-info-full", feature = "large-blobs", feature = "third-party-payment"))]
#[path = "glue_111.rs"]
mod glue;

use std::io::{BufRead, Write};
use val::{hex, unhex, V};

fn dec_err(e: cbor_smol::Error) -> &'static str {
    match e {
        cbor_smol::Error::SerdeMissingField => "err missing",
        _ => "err other",
    }
}

macro_rules! with_cap {
    ($cap:expr, $f:ident, $($arg:expr),*) => {
        match $cap {
            0 => Some($f::<0>($($arg),*)),
            1 => Some($f::<1>($($arg),*)), 2 => Some($f::<2>($($arg),*)), 3 => Some($f::<3>($($arg),*)),
            4 => Some($f::<4>($($arg),*)), 5 => Some($f::<5>($($arg),*)), 6 => Some($f::<6>($($arg),*)),
            7 => Some($f::<7>($($arg),*)), 8 => Some($f::<8>($($arg),*)), 9 => Some($f::<9>($($arg),*)),
            10 => Some($f::<10>($($arg),*)), 11 => Some($f::<11>($($arg),*)), 12 => Some($f::<12>($($arg),*)),
            13 => Some($f::<13>($($arg),*)), 14 => Some($f::<14>($($arg),*)), 15 => Some($f::<15>($($arg),*)),
            16 => Some($f::<16>($($arg),*)), 17 => Some($f::<17>($($arg),*)), 18 => Some($f::<18>($($arg),*)),
            19 => Some($f::<19>($($arg),*)), 20 => Some($f::<20>($($arg),*)), 21 => Some($f::<21>($($arg),*)),
            22 => Some($f::<22>($($arg),*)), 23 => Some($f::<23>($($arg),*)), 24 => Some($f::<24>($($arg),*)),
            25 => Some($f::<25>($($arg),*)), 26 => Some($f::<26>($($arg),*)), 27 => Some($f::<27>($($arg),*)),
            28 => Some($f::<28>($($arg),*)), 29 => Some($f::<29>($($arg),*)), 30 => Some($f::<30>($($arg),*)),
            31 => Some($f::<31>($($arg),*)), 32 => Some($f::<32>($($arg),*)), 33 => Some($f::<33>($($arg),*)),
            34 => Some($f::<34>($($arg),*)), 35 => Some($f::<35>($($arg),*)), 36 => Some($f::<36>($($arg),*)),
            37 => Some($f::<37>($($arg),*)), 38 => Some($f::<38>($($arg),*)), 39 => Some($f::<39>($($arg),*)),
            40 => Some($f::<40>($($arg),*)), 48 => Some($f::<48>($($arg),*)), 62 => Some($f::<62>($($arg),*)),
            63 => Some($f::<63>($($arg),*)), 64 => Some($f::<64>($($arg),*)), 65 => Some($f::<65>($($arg),*)),
            66 => Some($f::<66>($($arg),*)), 100 => Some($f::<100>($($arg),*)), 126 => Some($f::<126>($($arg),*)),
            127 => Some($f::<127>($($arg),*)), 128 => Some($f::<128>($($arg),*)), 129 => Some($f::<129>($($arg),*)),
            130 => Some($f::<130>($($arg),*)), 200 => Some($f::<200>($($arg),*)), 254 => Some($f::<254>($($arg),*)),
            255 => Some($f::<255>($($arg),*)), 256 => Some($f::<256>($($arg),*)), 257 => Some($f::<257>($($arg),*)),
            258 => Some($f::<258>($($arg),*)), 300 => Some($f::<300>($($arg),*)), 400 => Some($f::<400>($($arg),*)),
            510 => Some($f::<510>($($arg),*)), 511 => Some($f::<511>($($arg),*)), 512 => Some($f::<512>($($arg),*)),
            513 => Some($f::<513>($($arg),*)), 514 => Some($f::<514>($($arg),*)), 700 => Some($f::<700>($($arg),*)),
            1022 => Some($f::<1022>($($arg),*)), 1023 => Some($f::<1023>($($arg),*)), 1024 => Some($f::<1024>($($arg),*)),
            1025 => Some($f::<1025>($($arg),*)), 1026 => Some($f::<1026>($($arg),*)), 1500 => Some($f::<1500>($($arg),*)),
            2046 => Some($f::<2046>($($arg),*)), 2047 => Some($f::<2047>($($arg),*)), 2048 => Some($f::<2048>($($arg),*)),
            2049 => Some($f::<2049>($($arg),*)), 2050 => Some($f::<2050>($($arg),*)),
            3070 => Some($f::<3070>($($arg),*)), 3071 => Some($f::<3071>($($arg),*)), 3072 => Some($f::<3072>($($arg),*)),
            3073 => Some($f::<3073>($($arg),*)), 3074 => Some($f::<3074>($($arg),*)),
            4094 => Some($f::<4094>($($arg),*)), 4095 => Some($f::<4095>($($arg),*)), 4096 => Some($f::<4096>($($arg),*)),
            4097 => Some($f::<4097>($($arg),*)), 4098 => Some($f::<4098>($($arg),*)),
            4400 => Some($f::<4400>($($arg),*)), 7609 => Some($f::<7609>($($arg),*)), 8192 => Some($f::<8192>($($arg),*)),
            // beyond 16-bit lengths (a `usize` capacity narrowed to `u16` somewhere would show here)
            65534 => Some($f::<65534>($($arg),*)), 65535 => Some($f::<65535>($($arg),*)), 65536 => Some($f::<65536>($($arg),*)),
            65537 => Some($f::<65537>($($arg),*)), 65600 => Some($f::<65600>($($arg),*)), 70000 => Some($f::<70000>($($arg),*)),
            131072 => Some($f::<131072>($($arg),*)),
            _ => None,
        }
    };
}

fn resp_serialize<const N: usize>(r: &ctap_types::ctap2::Response, prior: &[u8]) -> Vec<u8> {
    let mut buf: ctap_types::Vec<u8, N> = ctap_types::Vec::new();
    buf.extend_from_slice(prior).expect("harness: prior longer than capacity");
    r.serialize(&mut buf);
    buf.to_vec()
}

fn u2f_serialize<const S: usize>(r: &ctap_types::ctap1::Response, prior: &[u8]) -> String {
    let mut buf: iso7816::Data<S> = iso7816::Data::new();
    buf.extend_from_slice(prior).expect("harness: prior longer than capacity");
    match r.serialize(&mut buf) {
        Ok(()) => format!("ok {}", if buf.is_empty() { "-".to_string() } else { hex(&buf) }),
        Err(()) => format!("err {}", if buf.is_empty() { "-".to_string() } else { hex(&buf) }),
    }
}

#[cfg(feature = "arbitrary")]
mod arb {
    //! C19: the real `Arbitrary` impls on given bytes.  Modelled types report their value and how
    //! many bytes are left; whole requests report `valid` (also when the bytes ran out) or what is
    //! wrong with the generated value.
    use super::{glue, mock, V};
    use arbitrary::{Arbitrary, Unstructured};

    fn texts_ok(v: &V) -> Result<(), String> {
        match v {
            V::Text(b) => core::str::from_utf8(b).map(|_| ()).map_err(|_| format!("invalid-utf8 {}", super::hex(b))),
            V::List(xs) => xs.iter().try_for_each(texts_ok),
            V::Record(xs) => xs.iter().flatten().try_for_each(texts_ok),
            V::Variant(_, x) => texts_ok(x),
            _ => Ok(()),
        }
    }

    macro_rules! typed {
        ($bytes:expr, $t:ty, $dump:path) => {{
            let mut u = Unstructured::new($bytes);
            if let Ok(x) = <$t as Arbitrary>::arbitrary_take_rest(Unstructured::new($bytes)) {
                if let Err(e) = texts_ok(&$dump(&x)) { return format!("take-rest:{}", e); }
            }
            match <$t as Arbitrary>::arbitrary(&mut u) {
                Ok(x) => {
                    let v = $dump(&x);
                    if let Err(e) = texts_ok(&v) { return e; }
                    let _ = format!("{:?}", x);
                    if x.clone() != x { return "clone-differs".into(); }
                    format!("ok {} {}", v.show(), u.len())
                }
                Err(arbitrary::Error::NotEnoughData) => "err".into(),
                Err(e) => format!("err-{:?}", e),
            }
        }};
    }

    fn ctap2_valid(r: &ctap_types::ctap2::Request) -> Result<(), String> {
        use ctap_types::ctap2::Authenticator;
        let (_variant, payload) = glue::dump_request(r);
        if let Some(v) = &payload { texts_ok(v)?; }
        let _ = format!("{:?}", r);
        if &r.clone() != r { return Err("clone-differs".into()); }
        let mut m = mock::Mock::new(None);
        let _ = m.call_ctap2(r);
        Ok(())
    }

    fn ctap1_valid(r: &ctap_types::ctap1::Request) -> Result<(), String> {
        use ctap_types::ctap1::Authenticator;
        let _ = format!("{:?}", r);
        if &r.clone() != r { return Err("clone-differs".into()); }
        let mut m = mock::Mock::new(None);
        let _ = m.call_ctap1(r);
        Ok(())
    }

    pub fn case(ty: &str, bytes: &[u8]) -> String {
        match ty {
            "webauthn::PublicKeyCredentialRpEntity" =>
                typed!(bytes, ctap_types::webauthn::PublicKeyCredentialRpEntity, glue::dump_webauthn_PublicKeyCredentialRpEntity),
            "webauthn::PublicKeyCredentialUserEntity" =>
                typed!(bytes, ctap_types::webauthn::PublicKeyCredentialUserEntity, glue::dump_webauthn_PublicKeyCredentialUserEntity),
            "webauthn::FilteredPublicKeyCredentialParameters" =>
                typed!(bytes, ctap_types::webauthn::FilteredPublicKeyCredentialParameters, glue::dump_webauthn_FilteredPublicKeyCredentialParameters),
            "ctap2::AttestationFormatsPreference" =>
                typed!(bytes, ctap_types::ctap2::AttestationFormatsPreference, glue::dump_ctap2_AttestationFormatsPreference),
            "ctap2::get_assertion::HmacSecretInput" =>
                typed!(bytes, ctap_types::ctap2::get_assertion::HmacSecretInput, glue::dump_ctap2_get_assertion_HmacSecretInput),
            "ctap2::Request" | "ctap1::Request" | "authenticator::Request" => {
                let mut u = Unstructured::new(bytes);
                let res: Result<Result<(), String>, arbitrary::Error> = match ty {
                    "ctap2::Request" => ctap_types::ctap2::Request::arbitrary(&mut u).map(|r| ctap2_valid(&r)),
                    "ctap1::Request" => ctap_types::ctap1::Request::arbitrary(&mut u).map(|r| ctap1_valid(&r)),
                    _ => ctap_types::authenticator::Request::arbitrary(&mut u).map(|r| match &r {
                        ctap_types::authenticator::Request::Ctap1(r1) => ctap1_valid(r1),
                        ctap_types::authenticator::Request::Ctap2(r2) => ctap2_valid(r2),
                    }.and_then(|_| { let _ = format!("{:?}", r); if r.clone() != r { Err("clone-differs".to_string()) } else { Ok(()) } })),
                };
                // the other entry point of the trait (the one fuzz targets use): same validity demands
                let u2 = Unstructured::new(bytes);
                let rest: Result<Result<(), String>, arbitrary::Error> = match ty {
                    "ctap2::Request" => ctap_types::ctap2::Request::arbitrary_take_rest(u2).map(|r| ctap2_valid(&r)),
                    "ctap1::Request" => ctap_types::ctap1::Request::arbitrary_take_rest(u2).map(|r| ctap1_valid(&r)),
                    _ => ctap_types::authenticator::Request::arbitrary_take_rest(u2).map(|r| match &r {
                        ctap_types::authenticator::Request::Ctap1(r1) => ctap1_valid(r1),
                        ctap_types::authenticator::Request::Ctap2(r2) => ctap2_valid(r2),
                    }),
                };
                if let Ok(Err(e)) = rest { return format!("take-rest:{}", e); }
                match res {
                    Ok(Ok(())) => "valid generated".into(),
                    Ok(Err(e)) => e,
                    Err(arbitrary::Error::NotEnoughData) => "valid not-enough-data".into(),
                    Err(e) => format!("err-{:?}", e),
                }
            }
            _ => "bad-case".into(),
        }
    }
}

fn req_outcome(bytes: &[u8]) -> String {
    let res = ctap_types::ctap2::Request::deserialize(bytes);
    match &res {
        Ok(r) => {
            let (variant, payload) = glue::dump_request(r);
            match payload {
                Some(v) => format!("ok {} {}", variant, v.show()),
                None => format!("ok {} -", variant),
            }
        }
        Err(e) => format!("err {}", *e as u8),
    }
}

fn handle(line: &str, big: &mut [u8]) -> String {
    let toks: Vec<&str> = line.trim().split(' ').collect();
    match toks.as_slice() {
        ["dec", _cfg, ty, hx] => {
            let Some(bytes) = unhex(hx) else { return "bad-case".into() };
            match glue::dec_type(ty, &bytes) {
                Some(Ok(v)) => format!("ok {}", v.show()),
                Some(Err(e)) => dec_err(e).into(),
                None => "bad-case".into(),
            }
        }
        ["enc", _cfg, ty, val] => {
            let Some(v) = V::parse(val) else { return "bad-case".into() };
            match glue::enc_type(ty, &v, big) {
                Some(Ok(b)) => if b.is_empty() { "-".into() } else { hex(&b) },
                Some(Err(_)) => "err".into(),
                None => "bad-case".into(),
            }
        }
        ["rt", _cfg, ty, val] => {
            // encode, then decode what was written
            let Some(v) = V::parse(val) else { return "bad-case".into() };
            match glue::enc_type(ty, &v, big) {
                Some(Ok(b)) => match glue::dec_type(ty, &b) {
                    Some(Ok(v2)) => format!("ok {} {}", if b.is_empty() { "-".to_string() } else { hex(&b) }, v2.show()),
                    Some(Err(e)) => format!("{} after {}", dec_err(e), hex(&b)),
                    None => "bad-case".into(),
                },
                Some(Err(_)) => "err".into(),
                None => "bad-case".into(),
            }
        }
        ["rtb", _cfg, ty, hx] => {
            // decode, then re-encode the value through the public types (dump -> build -> serialize)
            let Some(bytes) = unhex(hx) else { return "bad-case".into() };
            match glue::dec_type(ty, &bytes) {
                Some(Ok(v)) => match glue::enc_type(ty, &v, big) {
                    Some(Ok(b)) => format!("ok {}", if b.is_empty() { "-".to_string() } else { hex(&b) }),
                    _ => "err reencode".into(),
                },
                Some(Err(e)) => dec_err(e).into(),
                None => "bad-case".into(),
            }
        }
        ["req", _cfg, hx] => {
            let Some(bytes) = unhex(hx) else { return "bad-case".into() };
            let out = req_outcome(&bytes);
            // the same bytes at another address, between different neighbours: same result
            let mut other = vec![0xa5u8; bytes.len() + 9];
            other[5..5 + bytes.len()].copy_from_slice(&bytes);
            let again = req_outcome(&other[5..5 + bytes.len()]);
            if again != out {
                return format!("nondeterministic {} / {}", out.replace(' ', "_"), again.replace(' ', "_"));
            }
            out
        }
        ["reqs", _cfg, hx] => {
            // the same on a thread with a small stack (192 KiB — generous for firmware): decoding that does not look at
            // the bytes behind a parameter-less command cannot depend on how deeply they nest
            let Some(bytes) = unhex(hx) else { return "bad-case".into() };
            let h = std::thread::Builder::new().stack_size(192 * 1024).spawn(move || req_outcome(&bytes)).expect("harness: thread");
            match h.join() { Ok(s) => s, Err(_) => "panic".into() }
        }
        ["sweep", _cfg, prefix, n] => {
            // every byte string `prefix ‖ s`, |s| = n: outcome classes and an order-independent digest
            let (Some(prefix), Ok(n)) = (unhex(prefix), n.parse::<u32>()) else { return "bad-case".into() };
            if n > 3 { return "bad-case".into(); }
            let total: u64 = 1u64 << (8 * n);
            let (mut ok, mut e1, mut e18, mut e20, mut eo, mut pn) = (0u64, 0u64, 0u64, 0u64, 0u64, 0u64);
            let mut digest: u64 = 0;
            let mut first_panic = String::new();
            let mut buf = prefix.clone();
            buf.resize(prefix.len() + n as usize, 0);
            for i in 0..total {
                for k in 0..n as usize {
                    buf[prefix.len() + k] = (i >> (8 * (n as usize - 1 - k))) as u8;
                }
                let b = buf.clone();
                let out = std::panic::catch_unwind(move || req_outcome(&b)).unwrap_or_else(|_| "panic".to_string());
                if out.starts_with("ok") { ok += 1 }
                else if out == "err 1" { e1 += 1 }
                else if out == "err 18" { e18 += 1 }
                else if out == "err 20" { e20 += 1 }
                else if out == "panic" { pn += 1; if first_panic.is_empty() { first_panic = hex(&buf); } }
                else { eo += 1 }
                let mut h: u64 = 0xcbf29ce484222325;
                for &x in buf.iter().chain(out.as_bytes().iter()) {
                    h ^= x as u64;
                    h = h.wrapping_mul(0x100000001b3);
                }
                digest = digest.wrapping_add(h);
            }
            format!("sweep n={} ok={} err1={} err18={} err20={} errother={} panic={}{} digest={:016x}",
                total, ok, e1, e18, e20, eo, pn,
                if first_panic.is_empty() { String::new() } else { format!(" first={}", first_panic) }, digest)
        }
        ["resp", _cfg, variant, val, cap, prior] => {
            let v = if *val == "-" { None } else { V::parse(val) };
            let (Ok(cap), Some(prior)) = (cap.parse::<usize>(), unhex(prior)) else { return "bad-case".into() };
            if cap == 0 { return "bad-case".into(); } // C17 assumes capacity >= 1 (capacity 0 panics by construction)
            let Some(r) = glue::build_response(variant, v.as_ref()) else { return "bad-case".into() };
            match with_cap!(cap, resp_serialize, &r, &prior) {
                Some(b) => hex(&b),
                None => "bad-case".into(),
            }
        }
        ["op", b] => {
            let Ok(b) = b.parse::<u8>() else { return "bad-case".into() };
            use ctap_types::ctap2::Operation::*;
            match ctap_types::ctap2::Operation::try_from(b) {
                Ok(op) => {
                    #[allow(unreachable_patterns)]
                    let name = match op {
                        MakeCredential => "MakeCredential", GetAssertion => "GetAssertion",
                        GetNextAssertion => "GetNextAssertion", GetInfo => "GetInfo", ClientPin => "ClientPin",
                        Reset => "Reset", BioEnrollment => "BioEnrollment",
                        CredentialManagement => "CredentialManagement", Selection => "Selection",
                        LargeBlobs => "LargeBlobs", Config => "Config",
                        PreviewBioEnrollment => "PreviewBioEnrollment",
                        PreviewCredentialManagement => "PreviewCredentialManagement", Vendor(_) => "Vendor",
                        _ => "?",
                    };
                    // both ways back to the byte must agree: the inherent `into_u8` and `From<Operation> for u8`
                    let (a, b2) = (op.into_u8(), u8::from(op));
                    if a != b2 { return format!("ok {} into_u8={} from={}", name, a, b2); }
                    format!("ok {} {}", name, a)
                }
                Err(()) => "err".into(),
            }
        }
        ["adat", _cfg, flavour, rp, mask, count, acd, ext] => {
            use ctap_types::ctap2::AuthenticatorDataFlags as F;
            let Some(rp) = unhex(rp) else { return "bad-case".into() };
            let Ok(rp): Result<[u8; 32], _> = rp.try_into() else { return "bad-case".into() };
            let (Ok(mask), Ok(count)) = (mask.parse::<u8>(), count.parse::<u32>()) else { return "bad-case".into() };
            let mut flags = F::empty();
            if mask & 1 != 0 { flags |= F::USER_PRESENCE; }
            if mask & 2 != 0 { flags |= F::USER_VERIFIED; }
            if mask & 4 != 0 { flags |= F::ATTESTED_CREDENTIAL_DATA; }
            if mask & 8 != 0 { flags |= F::EXTENSION_DATA; }
            let extv = if *ext == "-" { None } else { match V::parse(ext) { Some(v) => Some(v), None => return "bad-case".into() } };
            let parts: Vec<&str> = acd.split(':').collect();
            let (aaguid, id, pk);
            let acd_some = parts.len() == 4;
            if acd_some {
                let (Some(a), Ok(n), Ok(seed), Some(p)) = (unhex(parts[0]), parts[1].parse::<usize>(), parts[2].parse::<usize>(), unhex(parts[3])) else { return "bad-case".into() };
                aaguid = a; pk = p;
                id = (0..n).map(|i| ((seed + 7 * i) % 256) as u8).collect::<Vec<u8>>();
            } else { aaguid = vec![]; id = vec![]; pk = vec![]; }
            let res = match *flavour {
                "MC" => {
                    let data = ctap_types::ctap2::make_credential::AuthenticatorData {
                        rp_id_hash: &rp, flags, sign_count: count,
                        attested_credential_data: if acd_some { Some(ctap_types::ctap2::make_credential::AttestedCredentialData {
                            aaguid: &aaguid, credential_id: &id, credential_public_key: &pk }) } else { None },
                        extensions: extv.as_ref().map(glue::build_adext_mc),
                    };
                    data.serialize()
                }
                "GA" => {
                    // the public helper authenticators use to decide whether to emit the map at all
                    if let Some(V::Record(slots)) = &extv {
                        let any = slots.iter().any(|s| s.is_some());
                        let got = glue::build_adext_ga(extv.as_ref().unwrap()).is_set();
                        if got != any { return format!("is_set-wrong got={} members-set={}", got, any); }
                    }
                    let data = ctap_types::ctap2::get_assertion::AuthenticatorData {
                        rp_id_hash: &rp, flags, sign_count: count,
                        attested_credential_data: if *acd == "none" { Some(ctap_types::ctap2::get_assertion::NoAttestedCredentialData) } else { None },
                        extensions: extv.as_ref().map(glue::build_adext_ga),
                    };
                    data.serialize()
                }
                _ => return "bad-case".into(),
            };
            match res {
                Ok(b) => format!("ok {}", hex(&b)),
                Err(e) => format!("err {}", e as u8),
            }
        }
        ["apdu", mode, hx] => {
            let Some(bytes) = unhex(hx) else { return "bad-case".into() };
            fn show(r: Result<ctap_types::ctap1::Request, ctap_types::ctap1::Error>) -> String {
                use ctap_types::ctap1::{ControlByte::*, Request::*};
                match r {
                    Ok(Register(r)) => format!("ok register {} {}", hex(r.challenge), hex(r.app_id)),
                    Ok(Authenticate(a)) => {
                        let cb = match a.control_byte { CheckOnly => 0, EnforceUserPresenceAndSign => 1, DontEnforceUserPresenceAndSign => 2 };
                        format!("ok authenticate {} {} {} {}", cb, hex(a.challenge), hex(a.app_id), if a.key_handle.is_empty() { "-".to_string() } else { hex(a.key_handle) })
                    }
                    Ok(Version) => "ok version".into(),
                    Err(e) => { let sw: u16 = e.into(); format!("err {}", sw) }
                }
            }
            // the owned-command conversion is generic in the buffer's capacity: every instantiation that can hold this
            // APDU must agree with the result `want`
            macro_rules! also { ($want:ident; $($n:literal)*) => { $(
                if let Ok(c) = iso7816::Command::<$n>::try_from(bytes.as_slice()) {
                    let got = show(ctap_types::ctap1::Request::try_from(&c));
                    if got != $want { return format!("capacity-dependent Command<{}>:{} vs:{}", $n, got.replace(' ', "_"), $want.replace(' ', "_")); }
                }
            )* } }
            match *mode {
                "view" => match iso7816::command::CommandView::try_from(bytes.as_slice()) {
                    Ok(view) => {
                        let want = show(ctap_types::ctap1::Request::try_from(view));
                        also!(want; 0 1 4 8 32 33 63 64 65 66 67 68 69 70 71 72 73 74 75 96 100 127 128 129 130 131 200 255 256 257 320 321 322 330 512 1024 2048 4096 7609);
                        want
                    }
                    Err(_) => "bad-apdu".into(),
                },
                "cmd" => match iso7816::Command::<7609>::try_from(bytes.as_slice()) {
                    Ok(cmd) => {
                        let want = show(ctap_types::ctap1::Request::try_from(&cmd));
                        // the conversion is generic in the command buffer's capacity: every instantiation that can hold
                        // this APDU must agree with the largest one
                        also!(want; 0 1 4 8 32 33 63 64 65 66 67 68 69 70 71 72 73 74 75 96 100 127 128 129 130 131 200 255 256 257 320 321 322 330 512 1024 2048 4096);
                        want
                    }
                    Err(_) => "bad-apdu".into(),
                },
                _ => "bad-case".into(),
            }
        }
        ["u2fs", cap, prior, resp] => {
            let (Ok(cap), Some(prior)) = (cap.parse::<usize>(), unhex(prior)) else { return "bad-case".into() };
            let parts: Vec<&str> = resp.split(':').collect();
            let b = |s: &str| unhex(s).expect("harness: bad hex");
            let r = match parts.as_slice() {
                ["reg", h, pk, kh, cert, sig] => ctap_types::ctap1::Response::Register(ctap_types::ctap1::register::Response {
                    header_byte: h.parse().expect("harness: header"),
                    public_key: ctap_types::Bytes::from_slice(&b(pk)).expect("harness: pk over capacity"),
                    key_handle: ctap_types::Bytes::from_slice(&b(kh)).expect("harness: kh over capacity"),
                    attestation_certificate: ctap_types::Bytes::from_slice(&b(cert)).expect("harness: cert over capacity"),
                    signature: ctap_types::Bytes::from_slice(&b(sig)).expect("harness: sig over capacity"),
                }),
                ["auth", up, count, sig] => ctap_types::ctap1::Response::Authenticate(ctap_types::ctap1::authenticate::Response {
                    user_presence: up.parse().expect("harness: up"), count: count.parse().expect("harness: count"),
                    signature: ctap_types::Bytes::from_slice(&b(sig)).expect("harness: sig over capacity"),
                }),
                ["ver", v] => ctap_types::ctap1::Response::Version(b(v).try_into().expect("harness: version length")),
                _ => return "bad-case".into(),
            };
            match with_cap!(cap, u2f_serialize, &r, &prior) {
                Some(s) => s,
                None => "bad-case".into(),
            }
        }
        ["regnew", x, y] => {
            let (Some(x), Some(y)) = (unhex(x), unhex(y)) else { return "bad-case".into() };
            let key = cosey::EcdhEsHkdf256PublicKey {
                x: ctap_types::Bytes::from_slice(&x).expect("harness: x over 32"),
                y: ctap_types::Bytes::from_slice(&y).expect("harness: y over 32"),
            };
            let r = ctap_types::ctap1::register::Response::new(5, &key, ctap_types::Bytes::new(), ctap_types::Bytes::new(), ctap_types::Bytes::new());
            format!("ok {}", hex(&r.public_key))
        }
        ["call2", entry, lb, req, fail] | ["call2", entry, lb, req, fail, _] => {
            use ctap_types::ctap2::{Authenticator, Request, Response};
            use ctap_types::Rpc;
            // optional sixth token `Variant=value`: what the handler of that kind returns
            let canned = match toks.get(5).and_then(|c| c.split_once('=')) {
                Some((variant, val)) => match glue::build_response(variant, V::parse(val).as_ref()) {
                    Some(r) => Some(r),
                    None => return "bad-case harness:_canned_response".into(),
                },
                None => None,
            };
            let fail = if *fail == "-" { None } else {
                let (m, c) = fail.split_once(':').expect("harness: fail spec");
                Some((m.to_string(), c.parse::<u8>().expect("harness: fail code")))
            };
            let bytes;
            let request = if let Some(b) = req.strip_prefix("vendor:") {
                Request::Vendor(ctap_types::ctap2::VendorOperation::try_from(b.parse::<u8>().expect("harness: vendor byte")).expect("harness: not a vendor code"))
            } else {
                bytes = unhex(req).expect("harness: hex");
                match Request::deserialize(&bytes) { Ok(r) => r, Err(_) => return "bad-case harness:_request_does_not_decode".into() }
            };
            let (_, payload) = glue::dump_request(&request);
            let mut m = mock::Mock::new(fail);
            m.canned = canned;
            let res = match (*entry, *lb) {
                ("direct", "lb") => m.call_ctap2(&request),
                ("rpc", "lb") => m.call(&request),
                ("direct", "nolb") => { let mut w = mock::MockNoLb(m); let r = w.call_ctap2(&request); m = w.0; r }
                ("rpc", "nolb") => { let mut w = mock::MockNoLb(m); let r = w.call(&request); m = w.0; r }
                _ => return "bad-case".into(),
            };
            let same = if m.seen.is_empty() { "-" } else if m.seen.iter().all(|s| Some(s.clone()) == payload.as_ref().map(|p| p.show()) || (s == "-" && payload.is_none())) { "T" } else { "F" };
            #[allow(unreachable_patterns)]
            let r = match res {
                Ok(Response::MakeCredential(_)) => "ok MakeCredential".to_string(), Ok(Response::GetAssertion(_)) => "ok GetAssertion".into(),
                Ok(Response::GetNextAssertion(_)) => "ok GetNextAssertion".into(), Ok(Response::GetInfo(_)) => "ok GetInfo".into(),
                Ok(Response::ClientPin(_)) => "ok ClientPin".into(), Ok(Response::Reset) => "ok Reset".into(),
                Ok(Response::Selection) => "ok Selection".into(), Ok(Response::CredentialManagement(_)) => "ok CredentialManagement".into(),
                Ok(Response::LargeBlobs(_)) => "ok LargeBlobs".into(), Ok(Response::Vendor) => "ok Vendor".into(),
                Ok(_) => "ok ?".into(),
                Err(e) => format!("err {}", e as u8),
            };
            // the response handed back is the very value the handler returned
            #[allow(unreachable_patterns)]
            let inner = match &res {
                Ok(Response::MakeCredential(x)) => Some(format!("{:?}", x)), Ok(Response::GetAssertion(x)) => Some(format!("{:?}", x)),
                Ok(Response::GetNextAssertion(x)) => Some(format!("{:?}", x)), Ok(Response::GetInfo(x)) => Some(format!("{:?}", x)),
                Ok(Response::ClientPin(x)) => Some(format!("{:?}", x)), Ok(Response::CredentialManagement(x)) => Some(format!("{:?}", x)),
                Ok(Response::LargeBlobs(x)) => Some(format!("{:?}", x)),
                _ => None,
            };
            let altered = match (&inner, &m.returned) { (Some(a), Some(b)) if a != b => " response-altered", _ => "" };
            format!("log={} same={} res={}{}", if m.log.is_empty() { "-".to_string() } else { m.log.join(",") }, same, r, altered)
        }
        ["rpcov", which, hx] => {
            // `Rpc::call` on an authenticator that overrides the provided dispatch method
            use ctap_types::Rpc;
            let bytes = unhex(hx).expect("harness: hex");
            let mut o = mock::Overriding(mock::Mock::new(None));
            match *which {
                "2" => {
                    let request = match ctap_types::ctap2::Request::deserialize(&bytes) { Ok(r) => r, Err(_) => return "bad-case harness:_request_does_not_decode".into() };
                    let _ = Rpc::<ctap_types::ctap2::Error, ctap_types::ctap2::Request<'_>, ctap_types::ctap2::Response>::call(&mut o, &request);
                }
                "1" => {
                    let view = iso7816::command::CommandView::try_from(bytes.as_slice()).expect("harness: apdu");
                    let request = match ctap_types::ctap1::Request::try_from(view) { Ok(r) => r, Err(_) => return "bad-case harness:_apdu_rejected".into() };
                    let _ = Rpc::<ctap_types::ctap1::Error, ctap_types::ctap1::Request<'_>, ctap_types::ctap1::Response>::call(&mut o, &request);
                }
                _ => return "bad-case".into(),
            }
            if o.0.log.iter().any(|l| l.ends_with("-override")) && o.0.log.len() == 1 { "overridden".into() } else { format!("bypassed log={}", o.0.log.join(",")) }
        }
        ["call1", entry, apdu, fail] => {
            use ctap_types::ctap1::{Authenticator, Request, Response};
            use ctap_types::Rpc;
            let fail = if *fail == "-" { None } else {
                let mut it = fail.split(':');
                let m = it.next().unwrap_or("").to_string();
                let k = it.next().and_then(|k| k.parse::<u8>().ok()).unwrap_or(0);
                Some((m, k))
            };
            let injected = fail.as_ref().map(|(_, k)| mock::status_of(*k));
            let bytes = unhex(apdu).expect("harness: hex");
            let view = iso7816::command::CommandView::try_from(bytes.as_slice()).expect("harness: apdu");
            let request = match Request::try_from(view) { Ok(r) => r, Err(_) => return "bad-case harness:_apdu_rejected".into() };
            let mut m = mock::Mock::new(fail);
            let res = match *entry { "direct" => m.call_ctap1(&request), "rpc" => m.call(&request), _ => return "bad-case".into() };
            let r = match res {
                Ok(Response::Register(_)) => "ok Register".to_string(), Ok(Response::Authenticate(_)) => "ok Authenticate".into(),
                Ok(Response::Version(v)) => format!("ok Version {}", hex(&v)),
                // the handler's status must come back as the very value it returned
                Err(e) => if Some(e) == injected { "err same".to_string() } else { format!("err differs {:?} for {:?}", e, injected) }
            };
            format!("log={} res={}", if m.log.is_empty() { "-".to_string() } else { m.log.join(",") }, r)
        }
        #[cfg(feature = "arbitrary")]
        ["arb", ty, hx] => {
            let Some(bytes) = unhex(hx) else { return "bad-case".into() };
            arb::case(ty, &bytes)
        }
        ["defval", variant] => match glue::default_response_value(variant) {
            Some(v) => format!("ok {}", v.show()),
            None => "none".into(),
        },
        ["tbl", name] => match glue::table(name) {
            Some(t) => t.iter().map(|(n, v)| format!("{}={}", n, v)).collect::<Vec<_>>().join(","),
            None => "bad-case".into(),
        },
        ["cb", b] => {
            let Ok(b) = b.parse::<u8>() else { return "bad-case".into() };
            use ctap_types::ctap1::ControlByte::*;
            match ctap_types::ctap1::ControlByte::try_from(b) {
                Ok(c) => {
                    let name = match c {
                        CheckOnly => "CheckOnly",
                        EnforceUserPresenceAndSign => "EnforceUserPresenceAndSign",
                        DontEnforceUserPresenceAndSign => "DontEnforceUserPresenceAndSign",
                    };
                    format!("ok {} {}", name, c as u8)
                }
                Err(_) => "err".into(),
            }
        }
        ["cpp", b] => {
            let Ok(b) = b.parse::<u8>() else { return "bad-case".into() };
            use ctap_types::ctap2::credential_management::CredentialProtectionPolicy::*;
            match ctap_types::ctap2::credential_management::CredentialProtectionPolicy::try_from(b) {
                Ok(c) => {
                    let name = match c {
                        Optional => "Optional",
                        OptionalWithCredentialIdList => "OptionalWithCredentialIdList",
                        Required => "Required",
                    };
                    format!("ok {} {}", name, c as u8)
                }
                Err(e) => format!("err {}", e as u8),
            }
        }
        ["vop", b] => {
            let Ok(b) = b.parse::<u8>() else { return "bad-case".into() };
            match ctap_types::ctap2::VendorOperation::try_from(b) {
                Ok(op) => format!("ok {}", u8::from(op)),
                Err(()) => "err".into(),
            }
        }
        _ => "bad-case".into(),
    }
}

#[cfg(feature = "logging")]
mod sink {
    //! a logger that formats every record into a discarded buffer: with `--features logging` the
    //! arguments of all of the crate's log lines are really evaluated and Display/Debug-formatted
    use std::fmt::Write;
    pub struct Sink;
    impl log::Log for Sink {
        fn enabled(&self, _: &log::Metadata) -> bool { true }
        fn log(&self, record: &log::Record) {
            let mut s = String::new();
            let _ = write!(s, "{}", record.args());
            std::hint::black_box(&s);
        }
        fn flush(&self) {}
    }
    pub static SINK: Sink = Sink;
    pub fn install() {
        let _ = log::set_logger(&SINK);
        log::set_max_level(log::LevelFilter::Trace);
    }
}

fn main() {
    #[cfg(feature = "logging")]
    sink::install();
    // silence the default panic message; panics are reported as outcomes
    std::panic::set_hook(Box::new(|_| {}));
    let stdin = std::io::stdin();
    let stdout = std::io::stdout();
    let mut out = std::io::BufWriter::new(stdout.lock());
    let mut big = vec![0u8; 1 << 16];
    for line in stdin.lock().lines() {
        let line = line.unwrap();
        let res = std::panic::catch_unwind(std::panic::AssertUnwindSafe(|| handle(&line, &mut big)));
        match res {
            Ok(s) => writeln!(out, "{}", s).unwrap(),
            Err(p) => {
                let msg = p
                    .downcast_ref::<&str>()
                    .map(|s| s.to_string())
                    .or_else(|| p.downcast_ref::<String>().cloned())
                    .unwrap_or_default();
                if msg.starts_with("harness:") {
                    writeln!(out, "bad-case {}", msg.replace(' ', "_")).unwrap()
                } else {
                    writeln!(out, "panic").unwrap()
                }
            }
        }
    }
    out.flush().unwrap();
}
