//! Recording mock authenticator for the dispatch cases (C10).
use crate::glue;
use crate::val::V;
use ctap_types::ctap2::{self, Response};
use ctap_types::{ctap1, Error};

pub struct Mock {
    pub log: Vec<String>,
    pub seen: Vec<String>,       // dump of the payload each handler received
    pub fail: Option<(String, u8)>,
    pub canned: Option<Response>,    // what the handler of that kind returns (else a minimal value)
    pub returned: Option<String>,    // Debug of what the last handler returned
}

fn err_of(code: u8) -> Error {
    match code {
        0x01 => Error::InvalidCommand,
        0x02 => Error::InvalidParameter,
        0x27 => Error::OperationDenied,
        0x2E => Error::NoCredentials,
        0x31 => Error::PinInvalid,
        0x7F => Error::Other,
        _ => Error::InvalidLength,
    }
}

/// the status a failing CTAP1 handler returns: unit variants and data-carrying ones, also outside their documented ranges
pub fn status_of(k: u8) -> ctap1::Error {
    use ctap1::Error as S;
    match k % 12 {
        0 => S::ConditionsOfUseNotSatisfied,
        1 => S::IncorrectDataParameter,
        2 => S::WrongLength,
        3 => S::WarningTriggering(k),
        4 => S::ErrorTriggering(k),
        5 => S::RemainingRetries(k % 16),
        6 => S::RemainingRetries(16 + k / 2),
        7 => S::MoreAvailable(k),
        8 => S::InstructionNotSupportedOrInvalid,
        9 => S::ClassNotSupported,
        10 => S::UnspecifiedCheckingError,
        _ => S::WarningTriggering(0),
    }
}

impl Mock {
    pub fn new(fail: Option<(String, u8)>) -> Self {
        Mock { log: vec![], seen: vec![], fail, canned: None, returned: None }
    }
    fn enter(&mut self, name: &str, payload: Option<V>) -> Result<(), Error> {
        self.log.push(name.to_string());
        self.seen.push(payload.map(|v| v.show()).unwrap_or_else(|| "-".into()));
        match &self.fail {
            Some((m, code)) if m == name => Err(err_of(*code)),
            _ => Ok(()),
        }
    }
}

macro_rules! min {
    ($self:ident, $variant:literal, $pat:path) => {{
        let r = match &$self.canned {
            Some($pat(r)) => r.clone(),
            _ => match glue::min_response($variant) {
                Some($pat(r)) => r,
                _ => panic!("harness: no minimal response"),
            },
        };
        $self.returned = Some(format!("{:?}", r));
        r
    }};
}

impl ctap2::Authenticator for Mock {
    fn get_info(&mut self) -> ctap2::get_info::Response {
        let _ = self.enter("get_info", None);
        min!(self, "GetInfo", Response::GetInfo)
    }
    fn make_credential(&mut self, request: &ctap2::make_credential::Request) -> ctap2::Result<ctap2::make_credential::Response> {
        self.enter("make_credential", Some(glue::dump_payload_make_credential(request)))?;
        Ok(min!(self, "MakeCredential", Response::MakeCredential))
    }
    fn get_assertion(&mut self, request: &ctap2::get_assertion::Request) -> ctap2::Result<ctap2::get_assertion::Response> {
        self.enter("get_assertion", Some(glue::dump_payload_get_assertion(request)))?;
        Ok(min!(self, "GetAssertion", Response::GetAssertion))
    }
    fn get_next_assertion(&mut self) -> ctap2::Result<ctap2::get_assertion::Response> {
        self.enter("get_next_assertion", None)?;
        Ok(min!(self, "GetAssertion", Response::GetAssertion))
    }
    fn reset(&mut self) -> ctap2::Result<()> {
        self.enter("reset", None)
    }
    fn client_pin(&mut self, request: &ctap2::client_pin::Request) -> ctap2::Result<ctap2::client_pin::Response> {
        self.enter("client_pin", Some(glue::dump_payload_client_pin(request)))?;
        Ok(min!(self, "ClientPin", Response::ClientPin))
    }
    fn credential_management(&mut self, request: &ctap2::credential_management::Request) -> ctap2::Result<ctap2::credential_management::Response> {
        self.enter("credential_management", Some(glue::dump_payload_credential_management(request)))?;
        Ok(min!(self, "CredentialManagement", Response::CredentialManagement))
    }
    fn selection(&mut self) -> ctap2::Result<()> {
        self.enter("selection", None)
    }
    fn vendor(&mut self, op: ctap2::VendorOperation) -> ctap2::Result<()> {
        self.enter("vendor", Some(V::Nat(u8::from(op) as u128)))
    }
    fn large_blobs(&mut self, request: &ctap2::large_blobs::Request) -> ctap2::Result<ctap2::large_blobs::Response> {
        self.enter("large_blobs", Some(glue::dump_payload_large_blobs(request)))?;
        Ok(min!(self, "LargeBlobs", Response::LargeBlobs))
    }
}

/// same, but keeps the trait's default `large_blobs`
pub struct MockNoLb(pub Mock);

impl ctap2::Authenticator for MockNoLb {
    fn get_info(&mut self) -> ctap2::get_info::Response { self.0.get_info() }
    fn make_credential(&mut self, r: &ctap2::make_credential::Request) -> ctap2::Result<ctap2::make_credential::Response> { self.0.make_credential(r) }
    fn get_assertion(&mut self, r: &ctap2::get_assertion::Request) -> ctap2::Result<ctap2::get_assertion::Response> { self.0.get_assertion(r) }
    fn get_next_assertion(&mut self) -> ctap2::Result<ctap2::get_assertion::Response> { self.0.get_next_assertion() }
    fn reset(&mut self) -> ctap2::Result<()> { self.0.reset() }
    fn client_pin(&mut self, r: &ctap2::client_pin::Request) -> ctap2::Result<ctap2::client_pin::Response> { self.0.client_pin(r) }
    fn credential_management(&mut self, r: &ctap2::credential_management::Request) -> ctap2::Result<ctap2::credential_management::Response> { self.0.credential_management(r) }
    fn selection(&mut self) -> ctap2::Result<()> { self.0.selection() }
    fn vendor(&mut self, op: ctap2::VendorOperation) -> ctap2::Result<()> { self.0.vendor(op) }
}

impl ctap1::Authenticator for Mock {
    fn register(&mut self, request: &ctap1::register::Request<'_>) -> ctap1::Result<ctap1::register::Response> {
        self.log.push("register".into());
        self.seen.push(format!("{}{}", crate::val::hex(request.challenge), crate::val::hex(request.app_id)));
        if let Some((m, k)) = &self.fail { if m == "register" { return Err(status_of(*k)); } }
        Ok(ctap1::register::Response { header_byte: 5, public_key: Default::default(), key_handle: Default::default(),
            attestation_certificate: Default::default(), signature: Default::default() })
    }
    fn authenticate(&mut self, request: &ctap1::authenticate::Request<'_>) -> ctap1::Result<ctap1::authenticate::Response> {
        self.log.push("authenticate".into());
        self.seen.push(format!("{}{}{}", crate::val::hex(request.challenge), crate::val::hex(request.app_id), crate::val::hex(request.key_handle)));
        if let Some((m, k)) = &self.fail { if m == "authenticate" { return Err(status_of(*k)); } }
        Ok(ctap1::authenticate::Response { user_presence: 1, count: 7, signature: Default::default() })
    }
}

/// an authenticator that overrides the *provided* dispatch methods: the generic entry point `Rpc::call`
/// must go through them (an implementation may wrap the dispatcher, e.g. to add locking or accounting)
pub struct Overriding(pub Mock);

impl ctap2::Authenticator for Overriding {
    fn get_info(&mut self) -> ctap2::get_info::Response { self.0.get_info() }
    fn make_credential(&mut self, r: &ctap2::make_credential::Request) -> ctap2::Result<ctap2::make_credential::Response> { self.0.make_credential(r) }
    fn get_assertion(&mut self, r: &ctap2::get_assertion::Request) -> ctap2::Result<ctap2::get_assertion::Response> { self.0.get_assertion(r) }
    fn get_next_assertion(&mut self) -> ctap2::Result<ctap2::get_assertion::Response> { self.0.get_next_assertion() }
    fn reset(&mut self) -> ctap2::Result<()> { self.0.reset() }
    fn client_pin(&mut self, r: &ctap2::client_pin::Request) -> ctap2::Result<ctap2::client_pin::Response> { self.0.client_pin(r) }
    fn credential_management(&mut self, r: &ctap2::credential_management::Request) -> ctap2::Result<ctap2::credential_management::Response> { self.0.credential_management(r) }
    fn selection(&mut self) -> ctap2::Result<()> { self.0.selection() }
    fn vendor(&mut self, op: ctap2::VendorOperation) -> ctap2::Result<()> { self.0.vendor(op) }
    fn call_ctap2(&mut self, _request: &ctap2::Request<'_>) -> ctap2::Result<ctap2::Response> {
        self.0.log.push("call_ctap2-override".into());
        Ok(ctap2::Response::Selection)
    }
}

impl ctap1::Authenticator for Overriding {
    fn register(&mut self, r: &ctap1::register::Request<'_>) -> ctap1::Result<ctap1::register::Response> { self.0.register(r) }
    fn authenticate(&mut self, r: &ctap1::authenticate::Request<'_>) -> ctap1::Result<ctap1::authenticate::Response> { self.0.authenticate(r) }
    fn call_ctap1(&mut self, _request: &ctap1::Request<'_>) -> ctap1::Result<ctap1::Response> {
        self.0.log.push("call_ctap1-override".into());
        Ok(ctap1::Response::Version(*b"U2F_V2"))
    }
}
