//! Hand-written helpers used by the generated glue.
use crate::val::V;

pub trait AsBytesExt {
    fn as_bytes_ext(&self) -> &[u8];
}
impl<const N: usize> AsBytesExt for ctap_types::Bytes<N> {
    fn as_bytes_ext(&self) -> &[u8] {
        self.as_slice()
    }
}
impl AsBytesExt for serde_bytes::Bytes {
    fn as_bytes_ext(&self) -> &[u8] {
        self
    }
}
impl<const N: usize> AsBytesExt for serde_bytes::ByteArray<N> {
    fn as_bytes_ext(&self) -> &[u8] {
        let a: &[u8; N] = self.as_ref();
        &a[..]
    }
}
impl<T: AsBytesExt + ?Sized> AsBytesExt for &T {
    fn as_bytes_ext(&self) -> &[u8] {
        (**self).as_bytes_ext()
    }
}
pub fn as_bytes<T: AsBytesExt + ?Sized>(t: &T) -> &[u8] {
    t.as_bytes_ext()
}

pub trait AsTextExt {
    fn as_text_ext(&self) -> &str;
}
impl<const N: usize> AsTextExt for ctap_types::String<N> {
    fn as_text_ext(&self) -> &str {
        self.as_str()
    }
}
impl AsTextExt for str {
    fn as_text_ext(&self) -> &str {
        self
    }
}
impl<T: AsTextExt + ?Sized> AsTextExt for &T {
    fn as_text_ext(&self) -> &str {
        (**self).as_text_ext()
    }
}
pub fn as_text<T: AsTextExt + ?Sized>(t: &T) -> &str {
    t.as_text_ext()
}

pub fn leak_bytes(b: &[u8]) -> &'static [u8] {
    Box::leak(b.to_vec().into_boxed_slice())
}
pub fn leak_str(s: &str) -> &'static str {
    Box::leak(s.to_string().into_boxed_str())
}
pub fn leak_byte_array<const N: usize>(b: &[u8]) -> &'static serde_bytes::ByteArray<N> {
    let arr: [u8; N] = b.try_into().expect("harness: byte array length");
    Box::leak(Box::new(serde_bytes::ByteArray::new(arr)))
}

fn b32(v: &V) -> ctap_types::Bytes<32> {
    ctap_types::Bytes::from_slice(v.bytes()).expect("harness: COSE coordinate over 32 bytes")
}

pub fn build_cose_ecdh(v: &V) -> cosey::EcdhEsHkdf256PublicKey {
    let s = v.record();
    cosey::EcdhEsHkdf256PublicKey {
        x: b32(s[0].as_ref().expect("harness: x")),
        y: b32(s[1].as_ref().expect("harness: y")),
    }
}

pub fn build_cose_pub(v: &V) -> cosey::PublicKey {
    let (k, inner) = v.variant();
    let s = inner.record();
    match k {
        0 => cosey::PublicKey::P256Key(cosey::P256PublicKey {
            x: b32(s[0].as_ref().expect("harness: x")),
            y: b32(s[1].as_ref().expect("harness: y")),
        }),
        1 => cosey::PublicKey::EcdhEsHkdf256Key(cosey::EcdhEsHkdf256PublicKey {
            x: b32(s[0].as_ref().expect("harness: x")),
            y: b32(s[1].as_ref().expect("harness: y")),
        }),
        2 => cosey::PublicKey::Ed25519Key(cosey::Ed25519PublicKey {
            x: b32(s[0].as_ref().expect("harness: x")),
        }),
        3 => cosey::PublicKey::TotpKey(cosey::TotpPublicKey {}),
        _ => panic!("harness: bad COSE kind"),
    }
}

pub fn dump_cose_pub(k: &cosey::PublicKey) -> V {
    match k {
        cosey::PublicKey::P256Key(k) => V::Variant(
            0,
            Box::new(V::Record(vec![Some(V::Bytes(k.x.to_vec())), Some(V::Bytes(k.y.to_vec()))])),
        ),
        cosey::PublicKey::EcdhEsHkdf256Key(k) => V::Variant(
            1,
            Box::new(V::Record(vec![Some(V::Bytes(k.x.to_vec())), Some(V::Bytes(k.y.to_vec()))])),
        ),
        cosey::PublicKey::Ed25519Key(k) => {
            V::Variant(2, Box::new(V::Record(vec![Some(V::Bytes(k.x.to_vec())), None])))
        }
        cosey::PublicKey::TotpKey(_) => V::Variant(3, Box::new(V::Record(vec![None, None]))),
    }
}
