def keyLt (a b : List Nat) : Bool :=
  a.length < b.length || (a.length == b.length && decide (a < b))
def sortedKeys : List (List Nat) → Bool
  | [] => true
  | [_] => true
  | a :: b :: rest => keyLt a b && sortedKeys (b :: rest)
def s2n (s : String) : List Nat := s.toUTF8.toList.map (·.toNat)
-- generated data would be literal lists; emulate
def opts : List (List Nat) := [
 [101,112],[114,107],[117,112],[117,118],[112,108,97,116],[117,118,65,99,102,103],
 [97,108,119,97,121,115,85,118],[99,114,101,100,77,103,109,116],[97,117,116,104,110,114,67,102,103],
 [98,105,111,69,110,114,111,108,108],[99,108,105,101,110,116,80,105,110],[108,97,114,103,101,66,108,111,98,115],
 [117,118,66,105,111,69,110,114,111,108,108],
 [115,101,116,77,105,110,80,73,78,76,101,110,103,116,104],
 [112,105,110,85,118,65,117,116,104,84,111,107,101,110]]
example : sortedKeys (opts.take 13) = true := by decide
example : sortedKeys opts = false := by decide
-- UInt8 version
def keyLt8 (a b : List UInt8) : Bool :=
  a.length < b.length || (a.length == b.length && decide (a.map (·.toNat) < b.map (·.toNat)))
def sorted8 : List (List UInt8) → Bool
  | [] => true
  | [_] => true
  | a :: b :: rest => keyLt8 a b && sorted8 (b :: rest)
def opts8 : List (List UInt8) := [[101,112],[114,107],[117,112],[117,118],[112,108,97,116],[117,118,65,99,102,103],
 [97,108,119,97,121,115,85,118],[99,114,101,100,77,103,109,116],[97,117,116,104,110,114,67,102,103]]
example : sorted8 opts8 = true := by decide
