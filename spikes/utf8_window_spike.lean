abbrev Byte := UInt8
def isCont (b : Byte) : Bool := decide (128 ≤ b.toNat ∧ b.toNat < 192)
def isB (b : Byte) : Bool := !isCont b

inductive Chunked : List Byte → Prop
  | nil : Chunked []
  | cons (b : Byte) (cs rest : List Byte) : isB b = true → cs.length ≤ 3 → (∀ c ∈ cs, isCont c = true) →
      Chunked rest → Chunked (b :: (cs ++ rest))

/-- in chunked text, every position has a boundary byte at distance ≤ 3 to its left -/
theorem window (s : List Byte) (h : Chunked s) :
    ∀ i, i < s.length → ∃ d, d ≤ 3 ∧ d ≤ i ∧ ∃ (hlt : i - d < s.length), isB s[i - d] = true := by
  induction h with
  | nil => intro i hi; simp at hi
  | cons b cs rest hb hl hc _ ih =>
    intro i hi
    by_cases h1 : i ≤ cs.length
    · refine ⟨i, by omega, Nat.le_refl _, by simp, ?_⟩
      simp [hb]
    · have hi' : i - (cs.length + 1) < rest.length := by simp at hi; omega
      obtain ⟨d, hd3, hdi, hlt, hbd⟩ := ih _ hi'
      refine ⟨d, hd3, by omega, by simp; omega, ?_⟩
      have e : i - d = (i - (cs.length + 1) - d) + cs.length + 1 := by omega
      have hget : (b :: (cs ++ rest))[i - d]'(by simp; omega) = rest[i - (cs.length + 1) - d] := by
        simp only [e, List.getElem_cons_succ]
        rw [List.getElem_append_right (by omega)]
        simp
      rw [hget]; exact hbd

def rpos (p : Byte → Bool) : List Byte → Option Nat
  | [] => none
  | b :: rest => match rpos p rest with
      | some i => some (i + 1)
      | none => if p b then some 0 else none

def floorCB (w : Nat) (s : List Byte) (idx : Nat) : Option Nat :=
  if idx ≥ s.length then some s.length else
  let lo := idx - w
  (rpos isB ((s.drop lo).take (idx + 1 - lo))).map (lo + ·)

#eval floorCB 3 [0x61, 0x67, 0xcc, 0x88] 3
#eval floorCB 3 [0x61, 0xf0, 0x9f, 0x98, 0x80, 0x62] 4
#eval floorCB 2 [0x61, 0xf0, 0x9f, 0x98, 0x80, 0x62] 4
