abbrev Byte := UInt8
abbrev Input := List Byte
inductive DErr | missing | other deriving DecidableEq, Repr

/-- k-byte big-endian -/
def be : Nat → Nat → List Byte
  | 0, _ => []
  | k+1, n => UInt8.ofNat (n / 256 ^ k) :: be k (n % 256 ^ k)

def readBE : Nat → Input → Option (Nat × Input)
  | 0, inp => some (0, inp)
  | k+1, b :: rest => match readBE k rest with
      | some (v, r) => some (b.toNat * 256 ^ k + v, r)
      | none => none
  | _+1, [] => none

theorem readBE_be (k n : Nat) (r : Input) (h : n < 256 ^ k) : readBE k (be k n ++ r) = some (n, r) := by
  induction k generalizing n with
  | zero => simp at h; simp [be, readBE, h]
  | succ k ih =>
    have hp : 0 < 256 ^ k := Nat.pow_pos (by decide)
    have h1 : n / 256 ^ k < 256 := by
      rw [Nat.div_lt_iff_lt_mul hp]; rw [Nat.pow_succ] at h; omega
    have h2 : n % 256 ^ k < 256 ^ k := Nat.mod_lt _ hp
    simp [be, readBE, ih _ h2, Nat.mod_eq_of_lt h1]
    rw [Nat.mul_comm]; exact Nat.div_add_mod _ _

def encHead (major n : Nat) : List Byte :=
  let m := major * 32
  if n < 24 then [UInt8.ofNat (m + n)]
  else if n < 256 then UInt8.ofNat (m + 24) :: be 1 n
  else if n < 65536 then UInt8.ofNat (m + 25) :: be 2 n
  else if n < 4294967296 then UInt8.ofNat (m + 26) :: be 4 n
  else UInt8.ofNat (m + 27) :: be 8 n

def readArg (k lo : Nat) (rest : Input) : Except DErr (Nat × Input) :=
  match readBE k rest with
  | none => .error .other
  | some (v, r) => if v < lo then .error .other else .ok (v, r)

def decHead32 (major : Nat) : Input → Except DErr (Nat × Input)
  | [] => .error .other
  | b :: rest =>
    if b.toNat / 32 ≠ major then .error .other else
    let a := b.toNat % 32
    if a < 24 then .ok (a, rest)
    else if a = 24 then readArg 1 24 rest
    else if a = 25 then readArg 2 256 rest
    else if a = 26 then readArg 4 65536 rest
    else .error .other

theorem decHead32_encHead (m n : Nat) (r : Input) (hm : m < 8) (hn : n < 4294967296) :
    decHead32 m (encHead m n ++ r) = .ok (n, r) := by
  unfold encHead
  simp only []
  split
  · simp [decHead32]
    rw [if_pos (by omega), if_pos (by omega), Nat.mod_eq_of_lt (by omega)]
  split
  · have := readBE_be 1 n r (by simpa using (by omega : n < 256))
    simp [decHead32, readArg, this]
    rw [if_pos (by omega), if_neg (by omega)]
  split
  · have := readBE_be 2 n r (by simpa using (by omega : n < 65536))
    simp [decHead32, readArg, this]
    rw [if_pos (by omega), if_neg (by omega)]
  · have := readBE_be 4 n r (by simpa using (by omega : n < 4294967296))
    simp [decHead32, readArg, this, hn]
    rw [if_pos (by omega), if_neg (by omega)]

mutual
inductive Ty where
  | u32 | bool
  | bytes (cap : Nat)
  | vec (cap : Nat) (t : Ty)
  | indexed (off : Nat) (fs : Fields)
inductive Fields where
  | nil
  | cons (opt : Bool) (t : Ty) (rest : Fields)
end

inductive Val where
  | nat (n : Nat) | bool (b : Bool) | bytes (bs : List Byte)
  | list (vs : List Val)
  | record (slots : List (Option Val))

abbrev Slots := List (Option Val)
abbrev Res (α : Type) := Except DErr (α × Input)

def seqLoop {α} (elem : Input → Res α) : Nat → Input → Res (List α)
  | 0, inp => .ok ([], inp)
  | n+1, inp =>
    match elem inp with
    | .error e => .error e
    | .ok (v, inp') =>
      match seqLoop elem n inp' with
      | .error e => .error e
      | .ok (vs, inp'') => .ok (v :: vs, inp'')

def mapLoop (entry : Nat → Input → Slots → Res Slots) : Nat → Input → Slots → Res Slots
  | 0, inp, s => .ok (s, inp)
  | n+1, inp, s =>
    match decHead32 0 inp with
    | .error e => .error e
    | .ok (k, inp') =>
      match entry k inp' s with
      | .error e => .error e
      | .ok (s', inp'') => mapLoop entry n inp'' s'

def slotSome (s : Slots) (i : Nat) : Bool := match s[i]? with | some (some _) => true | _ => false

mutual
def decode : Ty → Input → Res Val
  | .u32, inp => match decHead32 0 inp with
      | .ok (n, r) => .ok (.nat n, r) | .error e => .error e
  | .bool, inp => match inp with
      | b :: r => if b = 0xf4 then .ok (.bool false, r) else if b = 0xf5 then .ok (.bool true, r) else .error .other
      | [] => .error .other
  | .bytes cap, inp => match decHead32 2 inp with
      | .error e => .error e
      | .ok (n, r) => if r.length < n then .error .other else
          if n > cap then .error .other else .ok (.bytes (r.take n), r.drop n)
  | .vec cap t, inp => match decHead32 4 inp with
      | .error e => .error e
      | .ok (n, r) =>
        match seqLoop (fun i => decode t i) n r with
        | .error e => .error e
        | .ok (vs, r') => if vs.length > cap then .error .other else .ok (.list vs, r')
  | .indexed off fs, inp => match decHead32 5 inp with
      | .error e => .error e
      | .ok (n, r) =>
        match mapLoop (fun k i s => decField fs off 0 k i s) n r (List.replicate (fieldsLen fs) none) with
        | .error e => .error e
        | .ok (s, r') => if requiredOk fs s then .ok (.record s, r') else .error .missing
def decField : Fields → Nat → Nat → Nat → Input → Slots → Res Slots
  | .nil, _, _, _, _, _ => .error .other          -- unknown index
  | .cons _ t rest, off, i, k, inp, s =>
    if k = off + i then
      if slotSome s i then .error .other            -- duplicate
      else match decode t inp with
        | .error e => .error e
        | .ok (v, r) => .ok (s.set i (some v), r)
    else decField rest off (i+1) k inp s
def fieldsLen : Fields → Nat
  | .nil => 0
  | .cons _ _ rest => fieldsLen rest + 1
def requiredOk : Fields → Slots → Bool
  | .nil, _ => true
  | .cons opt _ rest, s => (opt || (s.head?.join).isSome) && requiredOk rest s.tail
end

def present (s : Slots) : Nat := (s.filter Option.isSome).length

mutual
def encode : Ty → Val → List Byte
  | .u32, .nat n => encHead 0 n
  | .bool, .bool b => [if b then 0xf5 else 0xf4]
  | .bytes _, .bytes bs => encHead 2 bs.length ++ bs
  | .vec _ t, .list vs => encHead 4 vs.length ++ (vs.map (fun v => encode t v)).flatten
  | .indexed off fs, .record s => encHead 5 (present s) ++ encFields fs off 0 s
  | _, _ => []
def encFields : Fields → Nat → Nat → Slots → List Byte
  | .nil, _, _, _ => []
  | .cons _ t rest, off, i, s =>
    (match s.head?.join with
     | some v => encHead 0 (off + i) ++ encode t v
     | none => []) ++ encFields rest off (i+1) s.tail
end

mutual
def WT : Ty → Val → Prop
  | .u32, .nat n => n < 4294967296
  | .bool, .bool _ => True
  | .bytes cap, .bytes bs => bs.length ≤ cap ∧ bs.length < 4294967296
  | .vec cap t, .list vs => vs.length ≤ cap ∧ vs.length < 4294967296 ∧ ∀ v ∈ vs, WT t v
  | .indexed off fs, .record s => WTF fs s ∧ off + fieldsLen fs < 4294967296
  | _, _ => False
def WTF : Fields → Slots → Prop
  | .nil, s => s = []
  | .cons opt t rest, s => ∃ o s', s = o :: s' ∧ (match o with | none => opt = true | some v => WT t v) ∧ WTF rest s'
end

def nthTy : Fields → Nat → Option Ty
  | .nil, _ => none
  | .cons _ t _, 0 => some t
  | .cons _ _ rest, i+1 => nthTy rest i


theorem decField_lookup : ∀ (fs : Fields) (off j i : Nat) (t : Ty) (inp : Input) (s : Slots)
    (_h : nthTy fs i = some t),
    decField fs off j (off + (j + i)) inp s =
      if slotSome s (j + i) then .error .other
      else match decode t inp with
        | .error e => .error e
        | .ok (v, r) => .ok (s.set (j + i) (some v), r)
  | .nil, _, _, _, _, _, _, h => by simp [nthTy] at h
  | .cons opt t' rest, off, j, 0, t, inp, s, h => by
      simp [nthTy] at h; subst h
      simp [decField]
  | .cons opt t' rest, off, j, i+1, t, inp, s, h => by
      simp [nthTy] at h
      rw [decField, if_neg (by omega)]
      have := decField_lookup rest off (j+1) i t inp s h
      rw [show off + (j + (i + 1)) = off + (j + 1 + i) by omega, this]
      simp [show j + 1 + i = j + (i + 1) by omega]

def AllRT (fs : Fields) : Prop :=
  ∀ i t, nthTy fs i = some t → ∀ v r, WT t v → decode t (encode t v ++ r) = .ok (v, r)

theorem present_none (s : Slots) : present (none :: s) = present s := by simp [present]
theorem present_some (v : Val) (s : Slots) : present (some v :: s) = present s + 1 := by simp [present]

theorem lt_of_drop_cons {α} (cur : List α) (j : Nat) (x : α) (tl : List α)
    (h : cur.drop j = x :: tl) : j < cur.length := by
  rcases Nat.lt_or_ge j cur.length with h1 | h1
  · exact h1
  · rw [List.drop_eq_nil_of_le h1] at h; cases h

theorem take_succ_of_drop {α} (cur : List α) (j : Nat) (x : α) (tl : List α)
    (h : cur.drop j = x :: tl) : cur.take (j+1) = cur.take j ++ [x] ∧ cur.drop (j+1) = tl := by
  have hj := lt_of_drop_cons cur j x tl h
  have hx : cur[j] = x := by
    have := congrArg (·[0]?) h
    simp [List.getElem?_drop] at this
    grind
  constructor
  · rw [List.take_succ_eq_append_getElem hj, hx]
  · have := congrArg (List.drop 1) h
    simpa [List.drop_drop, Nat.add_comm] using this

theorem set_take_drop {α} (cur : List α) (j : Nat) (x y : α) (tl s : List α)
    (h : cur.drop j = x :: tl) : (cur.set j y).take (j+1) ++ s = cur.take j ++ y :: s := by
  have hj := lt_of_drop_cons cur j x tl h
  rw [List.take_succ_eq_append_getElem (by simpa using hj)]
  simp [List.take_set]
  apply List.set_eq_of_length_le; simp; omega

theorem slotSome_of_drop_none (cur : Slots) (j : Nat) (tl : Slots) (h : cur.drop j = none :: tl) :
    slotSome cur j = false := by
  have : cur[j]? = some none := by
    have := congrArg (·[0]?) h
    simpa [List.getElem?_drop] using this
  simp [slotSome, this]

theorem loop_rt (fs : Fields) (off : Nat) (H : AllRT fs) (hoff : off + fieldsLen fs < 4294967296) :
    ∀ (fs' : Fields) (j : Nat) (s' cur : Slots) (r : Input),
      (∀ i, nthTy fs' i = nthTy fs (j + i)) → WTF fs' s' →
      j + fieldsLen fs' = fieldsLen fs →
      cur.drop j = List.replicate (fieldsLen fs') none →
      mapLoop (fun k i s => decField fs off 0 k i s) (present s') (encFields fs' off j s' ++ r) cur
        = .ok (cur.take j ++ s', r)
  | .nil, j, s', cur, r, _, hwt, _, hd => by
      simp [WTF] at hwt; subst hwt
      simp [fieldsLen] at hd
      simp [present, encFields, mapLoop]
      have := List.take_append_drop j cur
      rw [List.drop_eq_nil_of_le hd] at this; simpa using this.symm
  | .cons opt t rest, j, s', cur, r, hn, hwt, hl, hd => by
      obtain ⟨o, s'', rfl, ho, hrest⟩ := hwt
      simp only [fieldsLen] at hl hd
      rw [List.replicate_succ] at hd
      have hn' : ∀ i, nthTy rest i = nthTy fs (j + 1 + i) := by
        intro i; have := hn (i+1); simp [nthTy] at this; rw [this]; congr 1; omega
      have ht : nthTy fs j = some t := by have := hn 0; simpa [nthTy] using this.symm
      cases o with
      | none =>
        obtain ⟨htk, hdr⟩ := take_succ_of_drop cur j none _ hd
        have ih := loop_rt fs off H hoff rest (j+1) s'' cur r hn' hrest (by omega) hdr
        simp [encFields, present_none]
        rw [ih, htk]; simp
      | some v =>
        obtain ⟨htk, hdr⟩ := take_succ_of_drop cur j none _ hd
        have hss := slotSome_of_drop_none cur j _ hd
        have hdec := H j t ht v
        simp only [encFields, present_some, List.head?_cons, Option.join_some, List.tail_cons,
          List.append_assoc]
        rw [mapLoop, decHead32_encHead 0 _ _ (by omega) (by omega)]
        simp only []
        have hl0 := decField_lookup fs off 0 j t
        simp only [Nat.zero_add] at hl0
        rw [hl0 _ _ ht, hss]
        simp only [Bool.false_eq_true, if_false]
        rw [hdec _ ho]
        simp only []
        have hj : j < cur.length := lt_of_drop_cons cur j _ _ hd
        have hdr' : (cur.set j (some v)).drop (j+1) = List.replicate (fieldsLen rest) none := by
          rw [List.drop_set_of_lt (by omega)]; exact hdr
        have ih := loop_rt fs off H hoff rest (j+1) s'' (cur.set j (some v)) r hn' hrest (by omega) hdr'
        rw [ih, set_take_drop cur j none (some v) _ s'' hd]

theorem requiredOk_of_WTF : ∀ fs s, WTF fs s → requiredOk fs s = true
  | .nil, _, _ => by simp [requiredOk]
  | .cons opt t rest, s, h => by
      obtain ⟨o, s', rfl, ho, hr⟩ := h
      have := requiredOk_of_WTF rest s' hr
      cases o <;> simp_all [requiredOk]

theorem WTF_length : ∀ fs s, WTF fs s → s.length = fieldsLen fs
  | .nil, _, h => by simp [WTF] at h; simp [h, fieldsLen]
  | .cons opt t rest, s, h => by
      obtain ⟨o, s', rfl, _, hr⟩ := h
      simp [fieldsLen, WTF_length rest s' hr]

theorem seq_rt (t : Ty) (h : ∀ v r, WT t v → decode t (encode t v ++ r) = .ok (v, r)) :
    ∀ (vs : List Val) (r : Input), (∀ v ∈ vs, WT t v) →
      seqLoop (fun i => decode t i) vs.length ((vs.map (fun v => encode t v)).flatten ++ r) = .ok (vs, r)
  | [], r, _ => by simp [seqLoop]
  | v :: vs, r, hw => by
      have h1 := h v ((vs.map (fun v => encode t v)).flatten ++ r) (hw v (by simp))
      have h2 := seq_rt t h vs r (fun v hv => hw v (by simp [hv]))
      simp only [List.length_cons, List.map_cons, List.flatten_cons, List.append_assoc, seqLoop, h1, h2]

mutual
theorem rt : ∀ (t : Ty) (v : Val) (r : Input), WT t v → decode t (encode t v ++ r) = .ok (v, r)
  | .u32, .nat n, r, h => by
      simp only [WT] at h
      simp [encode, decode, decHead32_encHead 0 n r (by omega) h]
  | .bool, .bool b, r, _ => by cases b <;> simp [encode, decode]
  | .bytes cap, .bytes bs, r, h => by
      simp only [WT] at h
      simp only [encode, decode, List.append_assoc]
      rw [decHead32_encHead 2 _ _ (by omega) h.2]
      simp
      rw [if_neg (by omega), if_neg (by omega)]
  | .vec cap t, .list vs, r, h => by
      simp only [WT] at h
      simp only [encode, decode, List.append_assoc]
      rw [decHead32_encHead 4 _ _ (by omega) h.2.1]
      simp only []
      rw [seq_rt t (rt t) vs r h.2.2]
      simp; omega
  | .indexed off fs, .record s, r, h => by
      simp only [WT] at h
      obtain ⟨hw, hoff⟩ := h
      simp only [encode, decode, List.append_assoc]
      rw [decHead32_encHead 5 _ _ (by omega) (by
        have := WTF_length fs s hw
        have : present s ≤ s.length := by simp [present]; exact List.length_filter_le _ _
        omega)]
      simp only []
      have := loop_rt fs off (rtF fs) hoff fs 0 s (List.replicate (fieldsLen fs) none) r
        (by intro i; simp) hw (by simp) (by simp)
      rw [this]
      simp [requiredOk_of_WTF fs s hw]
  | .u32, .bool _, _, h | .u32, .bytes _, _, h | .u32, .list _, _, h | .u32, .record _, _, h
  | .bool, .nat _, _, h | .bool, .bytes _, _, h | .bool, .list _, _, h | .bool, .record _, _, h
  | .bytes _, .nat _, _, h | .bytes _, .bool _, _, h | .bytes _, .list _, _, h | .bytes _, .record _, _, h
  | .vec _ _, .nat _, _, h | .vec _ _, .bool _, _, h | .vec _ _, .bytes _, _, h | .vec _ _, .record _, _, h
  | .indexed _ _, .nat _, _, h | .indexed _ _, .bool _, _, h | .indexed _ _, .bytes _, _, h | .indexed _ _, .list _, _, h => by
      simp [WT] at h
theorem rtF : ∀ (fs : Fields), AllRT fs
  | .nil => by intro i t h; simp [nthTy] at h
  | .cons opt t rest => by
      intro i t' h
      cases i with
      | zero => simp [nthTy] at h; subst h; exact rt t
      | succ i => simp [nthTy] at h; exact rtF rest i t' h
end
#print axioms rt
