import Ctap.Basic
import Ctap.Ctap1
import Spec.AuthData
/-
  FIDO U2F raw message formats (v1.2) §3–§6, written from the specification.
-/
namespace Spec

/-- request decision list, verbatim from the property statement -/
def u2fParse (cla ins p1 : Nat) (data : List Byte) : Except U2fErr U2fReq :=
  if cla ≠ 0 then .error .classNotSupported
  else if ins = 3 then .ok .version
  else if ins = 1 then
    if data.length = 64 then .ok (.register (data.take 32) ((data.drop 32).take 32))
    else .error .incorrectDataParameter
  else if ins = 2 then
    match (if p1 = 0x07 then some 0 else if p1 = 0x03 then some 1 else if p1 = 0x08 then some 2 else none) with
    | none => .error .incorrectDataParameter
    | some cb =>
      if data.length ≥ 65 ∧ data.length = 65 + (data.getD 64 0).toNat then
        .ok (.authenticate cb (data.take 32) ((data.drop 32).take 32) (data.drop 65))
      else .error .incorrectDataParameter
  else .error .instructionNotSupportedOrInvalid

/-- response layouts -/
def u2fResponseBytes : U2fResp → List Byte
  | .register h pk kh cert sig => [h] ++ pk ++ [UInt8.ofNat kh.length] ++ kh ++ cert ++ sig
  | .authenticate p count sig => [p] ++ be32 count ++ sig
  | .version v => v

end Spec
