import Ctap.Arb
/-
  Specification-side tables, written by hand from the CTAP 2.0 / 2.1 / 2.2 specifications
  (authenticator API command codes, status codes, identifier spellings) and the FIDO U2F raw
  message format.  Nothing here is generated; nothing here mentions /repo.
-/
namespace Spec

/-- CTAP2 authenticatorAPI command codes (CTAP 2.1 §6, CTAP 2.1-PRE prototype codes 0x40/0x41) -/
def commands : List (Nat × String) :=
  [(0x01, "MakeCredential"), (0x02, "GetAssertion"), (0x04, "GetInfo"), (0x06, "ClientPin"),
   (0x07, "Reset"), (0x08, "GetNextAssertion"), (0x09, "BioEnrollment"),
   (0x0A, "CredentialManagement"), (0x0B, "Selection"), (0x0C, "LargeBlobs"), (0x0D, "Config"),
   (0x40, "PreviewBioEnrollment"), (0x41, "PreviewCredentialManagement")]

/-- vendor command range (CTAP 2.1 §6: authenticatorVendorFirst 0x40 … authenticatorVendorLast 0xBF
    in the spec text; this crate, like the CTAPHID transport, uses 0x40–0x7F), minus the two
    codes FIDO reassigned -/
def isVendor (b : Nat) : Bool := 0x42 ≤ b && b ≤ 0x7F

/-- the operation a command byte names, if any -/
def opName (b : Nat) : Option String :=
  match commands.lookup b with
  | some n => some n
  | none => if isVendor b then some "Vendor" else none

/-- what decoding must do with a command byte -/
inductive CmdClass
  | invalid                         -- InvalidCommand (0x01) whatever follows
  | paramless (variant : String)    -- the request, whatever follows
  | params (variant : String)       -- CBOR parameter map follows
  | vendor                          -- vendor request carrying the byte
  deriving DecidableEq, Repr

def cmdClass (b : Nat) : CmdClass :=
  if b = 0x01 then .params "MakeCredential"
  else if b = 0x02 then .params "GetAssertion"
  else if b = 0x04 then .paramless "GetInfo"
  else if b = 0x06 then .params "ClientPin"
  else if b = 0x07 then .paramless "Reset"
  else if b = 0x08 then .paramless "GetNextAssertion"
  else if b = 0x0A ∨ b = 0x41 then .params "CredentialManagement"
  else if b = 0x0B then .paramless "Selection"
  else if b = 0x0C then .params "LargeBlobs"
  else if isVendor b then .vendor
  else .invalid

/-- the `(kind, variant)` pair the model's command classification must produce -/
def CmdClass.kind : CmdClass → Nat × String
  | .invalid => (0, "")
  | .paramless v => (1, v)
  | .params v => (2, v)
  | .vendor => (3, "Vendor")

/-- CTAP status codes used by request decoding and response framing -/
def statusInvalidCommand : Nat := 0x01
def statusInvalidCbor : Nat := 0x12
def statusMissingParameter : Nat := 0x14
def statusOther : Nat := 0x7F

/-- response kinds and whether they carry a CBOR body -/
def respHasBody : List (String × Bool) :=
  [("GetInfo", true), ("MakeCredential", true), ("ClientPin", true), ("GetAssertion", true),
   ("GetNextAssertion", true), ("CredentialManagement", true), ("LargeBlobs", true),
   ("Reset", false), ("Selection", false), ("Vendor", false)]

end Spec

namespace Spec

/-- CTAP status codes (CTAP 2.1 §8.2, with the 2.0 codes the crate keeps) by the crate's names -/
def statusCodes : List (String × Nat) := [
  ("Success", 0x00), ("InvalidCommand", 0x01), ("InvalidParameter", 0x02), ("InvalidLength", 0x03),
  ("InvalidSeq", 0x04), ("Timeout", 0x05), ("ChannelBusy", 0x06), ("LockRequired", 0x0A),
  ("InvalidChannel", 0x0B), ("CborUnexpectedType", 0x11), ("InvalidCbor", 0x12),
  ("MissingParameter", 0x14), ("LimitExceeded", 0x15), ("UnsupportedExtension", 0x16),
  ("FingerprintDatabaseFull", 0x17), ("LargeBlobStorageFull", 0x18), ("CredentialExcluded", 0x19),
  ("Processing", 0x21), ("InvalidCredential", 0x22), ("UserActionPending", 0x23),
  ("OperationPending", 0x24), ("NoOperations", 0x25), ("UnsupportedAlgorithm", 0x26),
  ("OperationDenied", 0x27), ("KeyStoreFull", 0x28), ("NotBusy", 0x29), ("NoOperationPending", 0x2A),
  ("UnsupportedOption", 0x2B), ("InvalidOption", 0x2C), ("KeepaliveCancel", 0x2D),
  ("NoCredentials", 0x2E), ("UserActionTimeout", 0x2F), ("NotAllowed", 0x30), ("PinInvalid", 0x31),
  ("PinBlocked", 0x32), ("PinAuthInvalid", 0x33), ("PinAuthBlocked", 0x34), ("PinNotSet", 0x35),
  ("PinRequired", 0x36), ("PinPolicyViolation", 0x37), ("PinTokenExpired", 0x38),
  ("RequestTooLarge", 0x39), ("ActionTimeout", 0x3A), ("UpRequired", 0x3B), ("UvBlocked", 0x3C),
  ("IntegrityFailure", 0x3D), ("InvalidSubcommand", 0x3E), ("UvInvalid", 0x3F),
  ("UnauthorizedPermission", 0x40), ("Other", 0x7F), ("SpecLast", 0xDF), ("ExtensionFirst", 0xE0),
  ("ExtensionLast", 0xEF), ("VendorFirst", 0xF0), ("VendorLast", 0xFF)]

/-- pinUvAuthToken permission bits (CTAP 2.1 §6.5.5.7) -/
def permissions : List (String × Nat) := [
  ("MAKE_CREDENTIAL", 0x01), ("GET_ASSERTION", 0x02), ("CREDENTIAL_MANAGEMENT", 0x04),
  ("BIO_ENROLLMENT", 0x08), ("LARGE_BLOB_WRITE", 0x10), ("AUTHENTICATOR_CONFIGURATION", 0x20)]

/-- authenticator data flag bits (WebAuthn §6.1) -/
def authDataFlags : List (String × Nat) := [
  ("USER_PRESENCE", 0x01), ("USER_VERIFIED", 0x04), ("ATTESTED_CREDENTIAL_DATA", 0x40),
  ("EXTENSION_DATA", 0x80)]

/-- U2F authenticate control bytes (FIDO U2F raw message formats §5.1) -/
def controlBytes : List (String × Nat) := [
  ("CheckOnly", 0x07), ("EnforceUserPresenceAndSign", 0x03), ("DontEnforceUserPresenceAndSign", 0x08)]

/-- byte → control-byte variant (index into `controlBytes`) -/
def controlByteOf (b : Nat) : Option Nat :=
  if b = 0x07 then some 0 else if b = 0x03 then some 1 else if b = 0x08 then some 2 else none

/-- byte → credential protection policy (index: Optional, OptionalWithCredentialIdList, Required) -/
def credProtectOf (b : Nat) : Option Nat :=
  if b = 1 then some 0 else if b = 2 then some 1 else if b = 3 then some 2 else none

end Spec

namespace Spec

/-- CTAP2 dispatch: request ↦ (handler, receives the request parameters, response kind, can fail) -/
def dispatch2 : List (String × String × Bool × String × Bool) := [
  ("GetInfo", "get_info", false, "GetInfo", false),
  ("MakeCredential", "make_credential", true, "MakeCredential", true),
  ("GetAssertion", "get_assertion", true, "GetAssertion", true),
  ("GetNextAssertion", "get_next_assertion", false, "GetNextAssertion", true),
  ("Reset", "reset", false, "Reset", true),
  ("ClientPin", "client_pin", true, "ClientPin", true),
  ("CredentialManagement", "credential_management", true, "CredentialManagement", true),
  ("Selection", "selection", false, "Selection", true),
  ("LargeBlobs", "large_blobs", true, "LargeBlobs", true),
  ("Vendor", "vendor", true, "Vendor", true)]

/-- CTAP1 dispatch -/
def dispatch1 : List (String × String × Bool × String × Bool) := [
  ("Register", "register", true, "Register", true),
  ("Authenticate", "authenticate", true, "Authenticate", true),
  ("Version", "version", false, "Version", false)]

end Spec

/-! ### `arbitrary` feature (C19): the generator helpers and hand-written impls as they must be -/
namespace Spec

/-- lengths are clamped to the capacity before the `unwrap()`; the list loop runs at most `N` times -/
def arbShape : ArbShape := ⟨true, true, 0⟩

/-- type, number of fields, draws as (field index, draw).  Capacities are the receiving members'
    (WebAuthn entity limits as implemented by ctap-types, `sizes.rs`). -/
def arbImpls : List (String × Nat × List (Nat × Draw)) := [
  ("webauthn::PublicKeyCredentialRpEntity", 3, [(0, .str 256), (1, .optStr 64), (2, .optUnit)]),
  ("webauthn::PublicKeyCredentialUserEntity", 4, [(0, .bytes 64), (1, .optStr 128), (2, .optStr 64), (3, .optStr 64)]),
  ("webauthn::FilteredPublicKeyCredentialParameters", 1, [(0, .vecChoose 2 [-7, -8])]),
  ("ctap2::AttestationFormatsPreference", 2, [(0, .vecEnum 2 2), (1, .bool)]),
  ("ctap2::get_assertion::HmacSecretInput", 4, [(0, .key), (1, .bytes 80), (2, .bytes 32), (3, .optU32)])]

end Spec
