/-
  Specification-side tables, written by hand from the CTAP 2.0 / 2.1 / 2.2 specifications
  (authenticator API command codes, status codes, identifier spellings) and the FIDO U2F raw
  message format.  Nothing here is generated; nothing here mentions /repo.
-/
namespace Spec

/-- CTAP2 authenticatorAPI command codes (CTAP 2.1 §6, CTAP 2.1-PRE prototype codes 0x40/0x41) -/
def commands : List (Nat × String) :=
  [(0x01, "MakeCredential"), (0x02, "GetAssertion"), (0x04, "GetInfo"), (0x06, "ClientPin"),
   (0x07, "Reset"), (0x08, "GetNextAssertion"), (0x09, "BioEnrollment"),
   (0x0A, "CredentialManagement"), (0x0B, "Selection"), (0x0C, "LargeBlobs"), (0x0D, "Config"),
   (0x40, "PreviewBioEnrollment"), (0x41, "PreviewCredentialManagement")]

/-- vendor command range (CTAP 2.1 §6: authenticatorVendorFirst 0x40 … authenticatorVendorLast 0xBF
    in the spec text; this crate, like the CTAPHID transport, uses 0x40–0x7F), minus the two
    codes FIDO reassigned -/
def isVendor (b : Nat) : Bool := 0x42 ≤ b && b ≤ 0x7F

/-- the operation a command byte names, if any -/
def opName (b : Nat) : Option String :=
  match commands.lookup b with
  | some n => some n
  | none => if isVendor b then some "Vendor" else none

/-- what decoding must do with a command byte -/
inductive CmdClass
  | invalid                         -- InvalidCommand (0x01) whatever follows
  | paramless (variant : String)    -- the request, whatever follows
  | params (variant : String)       -- CBOR parameter map follows
  | vendor                          -- vendor request carrying the byte
  deriving DecidableEq, Repr

def cmdClass (b : Nat) : CmdClass :=
  if b = 0x01 then .params "MakeCredential"
  else if b = 0x02 then .params "GetAssertion"
  else if b = 0x04 then .paramless "GetInfo"
  else if b = 0x06 then .params "ClientPin"
  else if b = 0x07 then .paramless "Reset"
  else if b = 0x08 then .paramless "GetNextAssertion"
  else if b = 0x0A ∨ b = 0x41 then .params "CredentialManagement"
  else if b = 0x0B then .paramless "Selection"
  else if b = 0x0C then .params "LargeBlobs"
  else if isVendor b then .vendor
  else .invalid

/-- the `(kind, variant)` pair the model's command classification must produce -/
def CmdClass.kind : CmdClass → Nat × String
  | .invalid => (0, "")
  | .paramless v => (1, v)
  | .params v => (2, v)
  | .vendor => (3, "Vendor")

/-- CTAP status codes used by request decoding and response framing -/
def statusInvalidCommand : Nat := 0x01
def statusInvalidCbor : Nat := 0x12
def statusMissingParameter : Nat := 0x14
def statusOther : Nat := 0x7F

/-- response kinds and whether they carry a CBOR body -/
def respHasBody : List (String × Bool) :=
  [("GetInfo", true), ("MakeCredential", true), ("ClientPin", true), ("GetAssertion", true),
   ("GetNextAssertion", true), ("CredentialManagement", true), ("LargeBlobs", true),
   ("Reset", false), ("Selection", false), ("Vendor", false)]

end Spec
