import Ctap.Schema
import Ctap.Cfg
/-
  The CTAP 2.0 / 2.1 / 2.2 and WebAuthn message tables as schema values, written by hand from
  the specifications (member key, CBOR type, required / optional, size limits).  Feature-gated
  members are guarded by the configuration flags.  Nothing here is generated from /repo; the
  per-run obligation `Gen.… = Spec.…` (Props/Obligations.lean) is what ties the code to it.

  Text-keyed maps are listed in CTAP2 canonical key order (shorter key first, then bytewise),
  which is also the order in which they must be emitted.
-/
namespace Spec

/-- ASCII text as bytes -/
def ascii (s : String) : List Byte := s.toList.map (fun c => UInt8.ofNat c.toNat)

def Fields.ofList : List (FieldInfo × Ty) → Fields
  | [] => .nil
  | (f, t) :: rest => .cons f t (Fields.ofList rest)

/-- integer-keyed member, required -/
def ireq (t : Ty) : FieldInfo × Ty := (⟨[], [], true, .plain, .always⟩, t)
/-- integer-keyed member, optional (absent when unset) -/
def iopt (t : Ty) : FieldInfo × Ty := (⟨[], [], false, .plain, .skipNone⟩, t)
/-- text-keyed member, required -/
def treq (k : String) (t : Ty) : FieldInfo × Ty := (⟨ascii k, [], true, .plain, .always⟩, t)
/-- text-keyed member, optional (absent when unset; `null` tolerated on input) -/
def topt (k : String) (t : Ty) : FieldInfo × Ty := (⟨ascii k, [], false, .nullable, .skipNone⟩, t)

def indexed1 (fs : List (FieldInfo × Ty)) : Ty := .indexed 1 (Fields.ofList fs)
def textMap (fs : List (FieldInfo × Ty)) : Ty := .text (Fields.ofList fs)

def u8 : Ty := .leaf (.uint .u8)
def u32 : Ty := .leaf (.uint .u32)
def usize : Ty := .leaf (.uint .u64)
def bool : Ty := .leaf .bool
def bstr : Ty := .leaf (.bytes none)
def bstrMax (n : Nat) : Ty := .leaf (.bytes (some n))
def tstr : Ty := .leaf (.str none)
def tstrMax (n : Nat) : Ty := .leaf (.str (some n))

/-- string-valued enumeration: spellings in declaration order -/
def strEnum (names : List String) : Ty :=
  .leaf (.enumStr (names.map ascii) ((names.map ascii).zip (List.range names.length)))

/-! ### identifier tables -/
def versions : Ty := strEnum ["FIDO_2_0", "FIDO_2_1", "FIDO_2_1_PRE", "U2F_V2"]
def extensions : Ty := strEnum ["credProtect", "hmac-secret", "largeBlobKey", "thirdPartyPayment"]
def transports : Ty := strEnum ["nfc", "usb"]
def attestationFormats : Ty := strEnum ["none", "packed"]
def pinSubcommands : Ty := .leaf (.enumRepr [1, 2, 3, 4, 5, 6, 7, 9])
def credMgmtSubcommands : Ty := .leaf (.enumRepr [1, 2, 3, 4, 5, 6, 7])
def credProtectPolicies : Ty := .leaf (.enumRepr [1, 2, 3])

/-! ### WebAuthn dictionaries (as CTAP carries them) -/

/-- name / displayName: any length accepted, truncated to 64 bytes on a character boundary
    (WebAuthn §6.4.1); the implementation looks back at most 3 bytes from the cut -/
def truncName (k : String) : FieldInfo × Ty := (⟨ascii k, [], false, .trunc 64 3, .skipNone⟩, tstr)

def rpEntity : Ty := textMap [
  treq "id" (tstrMax 256),
  truncName "name",
  -- removed from WebAuthn L2; CTAP 2.2 requires it to be accepted and not stored; legacy alias `url`
  (⟨ascii "icon", [ascii "url"], false, .nullable, .never⟩, .leaf .icon)]

def userEntity : Ty := textMap [
  treq "id" (bstrMax 64),
  (⟨ascii "icon", [], false, .skipLong 128, .skipNone⟩, tstr),
  truncName "name",
  truncName "displayName"]

def credParam : Ty := textMap [treq "alg" (.leaf .i32), treq "type" (tstrMax 32)]

/-- pubKeyCredParams / algorithms: entries of type "public-key" with ES256 (-7) or EdDSA (-8),
    first two in order -/
def credParams : Ty := .filtered 2 [-7, -8] (ascii "public-key") (ascii "public-key") credParam

/-- credential descriptor as received (borrowed, unbounded id) -/
def descriptorRef : Ty := textMap [treq "id" bstr, treq "type" tstr]
/-- credential descriptor as emitted (id ≤ 255 bytes, type ≤ 32 bytes) -/
def descriptor : Ty := textMap [treq "id" (bstrMax 255), treq "type" (tstrMax 32)]

def authenticatorOptions : Ty := textMap [topt "rk" bool, topt "up" bool, topt "uv" bool]

def attFmtPref : Ty :=
  .leaf (.attFmtPref ((["none", "packed"].map ascii).zip [0, 1]) 2)

/-! ### authenticatorMakeCredential (0x01) -/

def mcExtensions (c : Cfg) : Ty := textMap (
  [topt "credProtect" u8, topt "hmac-secret" bool, topt "largeBlobKey" bool] ++
  (if c.t then [topt "thirdPartyPayment" bool] else []))

def reqMakeCredential (c : Cfg) : Ty := indexed1 [
  ireq bstr,                                   -- 0x01 clientDataHash
  ireq rpEntity,                               -- 0x02 rp
  ireq userEntity,                             -- 0x03 user
  ireq credParams,                             -- 0x04 pubKeyCredParams
  iopt (.vec 16 descriptorRef),                -- 0x05 excludeList
  iopt (mcExtensions c),                       -- 0x06 extensions
  iopt authenticatorOptions,                   -- 0x07 options
  iopt bstr,                                   -- 0x08 pinUvAuthParam
  iopt u32,                                    -- 0x09 pinUvAuthProtocol
  iopt u32,                                    -- 0x0A enterpriseAttestation
  iopt attFmtPref]                             -- 0x0B attestationFormatsPreference

def noneAttStmt : Ty := textMap []
def packedAttStmt : Ty := textMap [
  treq "alg" (.leaf .i32), treq "sig" (bstrMax 77), topt "x5c" (.vec 1 (bstrMax 1024))]
def attStmt : Ty := .untagged (Fields.ofList [ireq noneAttStmt, ireq packedAttStmt])
def unsignedExtensionOutputs : Ty := textMap []

def respMakeCredential : Ty := indexed1 [
  ireq attestationFormats,                     -- 0x01 fmt
  ireq (bstrMax 676),                          -- 0x02 authData
  iopt attStmt,                                -- 0x03 attStmt
  iopt bool,                                   -- 0x04 epAtt
  iopt (.leaf (.byteArray 32)),                -- 0x05 largeBlobKey
  iopt unsignedExtensionOutputs]               -- 0x06 unsignedExtensionOutputs

/-! ### authenticatorGetAssertion (0x02) -/

def hmacSecretInput : Ty := indexed1 [
  ireq (.leaf .coseEcdh),                      -- 0x01 keyAgreement
  ireq (bstrMax 80),                           -- 0x02 saltEnc
  ireq (bstrMax 32),                           -- 0x03 saltAuth
  iopt u32]                                    -- 0x04 pinUvAuthProtocol

def gaExtensionsIn (c : Cfg) : Ty := textMap (
  [topt "hmac-secret" hmacSecretInput, topt "largeBlobKey" bool] ++
  (if c.t then [topt "thirdPartyPayment" bool] else []))

def gaExtensionsOut (c : Cfg) : Ty := textMap (
  [topt "hmac-secret" (bstrMax 80)] ++
  (if c.t then [topt "thirdPartyPayment" bool] else []))

def reqGetAssertion (c : Cfg) : Ty := indexed1 [
  ireq tstr,                                   -- 0x01 rpId
  ireq bstr,                                   -- 0x02 clientDataHash
  iopt (.vec 10 descriptorRef),                -- 0x03 allowList
  iopt (gaExtensionsIn c),                     -- 0x04 extensions
  iopt authenticatorOptions,                   -- 0x05 options
  iopt bstr,                                   -- 0x06 pinUvAuthParam
  iopt u32,                                    -- 0x07 pinUvAuthProtocol
  iopt u32,                                    -- 0x08 enterpriseAttestation
  iopt attFmtPref]                             -- 0x09 attestationFormatsPreference

def respGetAssertion : Ty := indexed1 [
  ireq descriptor,                             -- 0x01 credential
  ireq (bstrMax 676),                          -- 0x02 authData
  ireq (bstrMax 77),                           -- 0x03 signature
  iopt userEntity,                             -- 0x04 user
  iopt u32,                                    -- 0x05 numberOfCredentials
  iopt bool,                                   -- 0x06 userSelected
  iopt (.leaf (.byteArray 32)),                -- 0x07 largeBlobKey
  iopt unsignedExtensionOutputs,               -- 0x08 unsignedExtensionOutputs
  iopt bool,                                   -- 0x09 epAtt
  iopt attStmt]                                -- 0x0A attStmt

/-! ### authenticatorGetInfo (0x04) -/

def ctapOptions (c : Cfg) : Ty := textMap (
  (if c.g then [topt "ep" bool] else []) ++
  [treq "rk" bool, treq "up" bool, topt "uv" bool, topt "plat" bool] ++
  (if c.g then [topt "uvAcfg" bool, topt "alwaysUv" bool] else []) ++
  [topt "credMgmt" bool] ++
  (if c.g then [topt "authnrCfg" bool, topt "bioEnroll" bool] else []) ++
  [topt "clientPin" bool, topt "largeBlobs" bool] ++
  (if c.g then [topt "uvBioEnroll" bool] else []) ++
  [topt "pinUvAuthToken" bool] ++
  (if c.g then [topt "setMinPINLength" bool, topt "makeCredUvNotRqd" bool,
                topt "credentialMgmtPreview" bool, topt "userVerificationMgmtPreview" bool,
                topt "noMcGaPermissionsWithClientPin" bool] else []))

def certifications : Ty := textMap [
  topt "FIDO" u8, topt "CC-EAL" u8, topt "FIPS-CMVP-2" u8, topt "FIPS-CMVP-3" u8,
  topt "FIPS-CMVP-2-PHY" u8, topt "FIPS-CMVP-3-PHY" u8]

def respGetInfo (c : Cfg) : Ty := indexed1 (
  [ireq (.vec 4 versions),                     -- 0x01 versions
   iopt (.vec 4 extensions),                   -- 0x02 extensions
   ireq (bstrMax 16),                          -- 0x03 aaguid
   iopt (ctapOptions c),                       -- 0x04 options
   iopt usize,                                 -- 0x05 maxMsgSize
   iopt (.vec 2 u8),                           -- 0x06 pinUvAuthProtocols
   iopt usize,                                 -- 0x07 maxCredentialCountInList
   iopt usize,                                 -- 0x08 maxCredentialIdLength
   iopt (.vec 4 transports),                   -- 0x09 transports
   iopt credParams,                            -- 0x0A algorithms
   iopt usize] ++                              -- 0x0B maxSerializedLargeBlobArray
  (if c.g then
  [iopt bool,                                  -- 0x0C forcePINChange
   iopt usize,                                 -- 0x0D minPINLength
   iopt usize,                                 -- 0x0E firmwareVersion
   iopt usize,                                 -- 0x0F maxCredBlobLength
   iopt usize,                                 -- 0x10 maxRPIDsForSetMinPINLength
   iopt usize,                                 -- 0x11 preferredPlatformUvAttempts
   iopt usize,                                 -- 0x12 uvModality
   iopt certifications,                        -- 0x13 certifications
   iopt usize,                                 -- 0x14 remainingDiscoverableCredentials
   iopt usize,                                 -- 0x15 vendorPrototypeConfigCommands
   iopt (.vec 2 attestationFormats),           -- 0x16 attestationFormats
   iopt usize,                                 -- 0x17 uvCountSinceLastPinEntry
   iopt bool]                                  -- 0x18 longTouchForReset
  else []))

/-! ### authenticatorClientPIN (0x06) -/

def reqClientPin : Ty := indexed1 [
  ireq u8,                                     -- 0x01 pinUvAuthProtocol
  ireq pinSubcommands,                         -- 0x02 subCommand
  iopt (.leaf .coseEcdh),                      -- 0x03 keyAgreement
  iopt bstr,                                   -- 0x04 pinUvAuthParam
  iopt bstr,                                   -- 0x05 newPinEnc
  iopt bstr,                                   -- 0x06 pinHashEnc
  iopt (.leaf .unit),                          -- 0x07 (unassigned)
  iopt (.leaf .unit),                          -- 0x08 (unassigned)
  iopt u8,                                     -- 0x09 permissions
  iopt tstr]                                   -- 0x0A rpId

def respClientPin : Ty := indexed1 [
  iopt (.leaf .coseEcdh),                      -- 0x01 keyAgreement
  iopt (bstrMax 48),                           -- 0x02 pinUvAuthToken
  iopt u8,                                     -- 0x03 pinRetries
  iopt bool,                                   -- 0x04 powerCycleState
  iopt u8]                                     -- 0x05 uvRetries

/-! ### authenticatorCredentialManagement (0x0A / 0x41) -/

def credMgmtParams : Ty := indexed1 [
  iopt (.leaf (.byteArray 32)),                -- 0x01 rpIDHash
  iopt descriptorRef,                          -- 0x02 credentialID
  iopt userEntity]                             -- 0x03 user

def reqCredentialManagement : Ty := indexed1 [
  ireq credMgmtSubcommands,                    -- 0x01 subCommand
  iopt credMgmtParams,                         -- 0x02 subCommandParams
  iopt u8,                                     -- 0x03 pinUvAuthProtocol
  iopt bstr]                                   -- 0x04 pinUvAuthParam

def respCredentialManagement (c : Cfg) : Ty := indexed1 (
  [iopt u32,                                   -- 0x01 existingResidentCredentialsCount
   iopt u32,                                   -- 0x02 maxPossibleRemainingResidentCredentialsCount
   iopt rpEntity,                              -- 0x03 rp
   iopt (.leaf (.byteArray 32)),               -- 0x04 rpIDHash
   iopt u32,                                   -- 0x05 totalRPs
   iopt userEntity,                            -- 0x06 user
   iopt descriptor,                            -- 0x07 credentialID
   iopt (.leaf .cosePub),                      -- 0x08 publicKey
   iopt u32,                                   -- 0x09 totalCredentials
   iopt credProtectPolicies,                   -- 0x0A credProtect
   iopt (.leaf (.byteArray 32))] ++            -- 0x0B largeBlobKey
  (if c.t then [iopt bool] else []))           -- 0x0C thirdPartyPayment

/-! ### authenticatorLargeBlobs (0x0C) -/

def reqLargeBlobs : Ty := indexed1 [
  iopt u32,                                    -- 0x01 get
  iopt bstr,                                   -- 0x02 set
  ireq u32,                                    -- 0x03 offset
  iopt u32,                                    -- 0x04 length
  iopt bstr,                                   -- 0x05 pinUvAuthParam
  iopt u32]                                    -- 0x06 pinUvAuthProtocol

/-- fragment buffer: 3008 bytes with `large-blobs` (3072 − 64), none without -/
def respLargeBlobs (c : Cfg) : Ty := indexed1 [iopt (bstrMax (if c.l then 3008 else 0))]

/-! ### by role -/

def reqRoles (c : Cfg) : List (String × Ty) := [
  ("ClientPin", reqClientPin), ("CredentialManagement", reqCredentialManagement),
  ("GetAssertion", reqGetAssertion c), ("LargeBlobs", reqLargeBlobs),
  ("MakeCredential", reqMakeCredential c)]

def respRoles (c : Cfg) : List (String × Ty) := [
  ("ClientPin", respClientPin), ("CredentialManagement", respCredentialManagement c),
  ("GetAssertion", respGetAssertion), ("GetInfo", respGetInfo c),
  ("LargeBlobs", respLargeBlobs c), ("MakeCredential", respMakeCredential)]

def adExtRoles (c : Cfg) : List (String × Ty) := [("GA", gaExtensionsOut c), ("MC", mcExtensions c)]

end Spec
