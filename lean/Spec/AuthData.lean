import Ctap.Basic
/-
  WebAuthn §6.1 authenticator data layout, written from the specification:
  rpIdHash (32) || flags (1) || signCount (4, big-endian) || [attestedCredentialData] || [extensions]
  attestedCredentialData = aaguid (16) || credentialIdLength (2, big-endian) || credentialId || credentialPublicKey
-/
namespace Spec

/-- big-endian 16-bit, by division and remainder -/
def be16 (n : Nat) : List Byte := [UInt8.ofNat (n / 256), UInt8.ofNat (n % 256)]
/-- big-endian 32-bit, by division and remainder -/
def be32 (n : Nat) : List Byte :=
  [UInt8.ofNat (n / 16777216), UInt8.ofNat (n / 65536 % 256), UInt8.ofNat (n / 256 % 256), UInt8.ofNat (n % 256)]

def flagUP : Nat := 0x01
def flagUV : Nat := 0x04
def flagAT : Nat := 0x40
def flagED : Nat := 0x80

/-- capacity of the serialized authenticator data -/
def authDataCapacity : Nat := 676

/-- the layout; `acd = (aaguid, credentialId, publicKey)` -/
def authDataLayout (rpIdHash : List Byte) (flags : Byte) (signCount : Nat)
    (acd : Option (List Byte × List Byte × List Byte)) (ext : Option (List Byte)) : List Byte :=
  rpIdHash ++ [flags] ++ be32 signCount ++
    (match acd with
     | some (aaguid, credId, pk) => aaguid ++ be16 credId.length ++ credId ++ pk
     | none => []) ++
    (match ext with | some e => e | none => [])

/-- success iff the credential id length fits 16 bits and the whole layout fits the capacity -/
def authDataExpected (rpIdHash : List Byte) (flags : Byte) (signCount : Nat)
    (acd : Option (List Byte × List Byte × List Byte)) (ext : Option (List Byte)) : Option (List Byte) :=
  let out := authDataLayout rpIdHash flags signCount acd ext
  let idOk : Bool := match acd with | some (_, credId, _) => decide (credId.length ≤ 65535) | none => true
  if idOk = true ∧ out.length ≤ authDataCapacity then some out else none

end Spec
