import Spec.Tables
import Spec.Schemas
import Spec.AuthData
