import Spec.Tables
import Spec.Schemas
import Spec.AuthData
import Spec.U2f
