import Spec.Tables
