import Spec.Tables
import Spec.Schemas
