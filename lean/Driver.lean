import Ctap.Decode
import Ctap.Request
import Ctap.Frame
import Ctap.AuthData
import Ctap.Ctap1
import Ctap.Dispatch
import Props.GenTables
import Spec
/-
  Line-protocol driver: evaluates the executable model on the case lines the correspondence
  check also feeds to the real implementation.  One case per line in, one outcome per line out.
  Not part of any proof (uses `partial`).
-/

/-! ### compact one-token value syntax
  n<dec> | i<dec> | bT | bF | u | x<hex> | s<hex> | [v,v,..] | {o,o,..} (o = _ | v) | <i:v> -/

partial def showVal : Val → String
  | .nat n => s!"n{n}"
  | .int i => s!"i{i}"
  | .bool b => if b then "bT" else "bF"
  | .unit => "u"
  | .bytes b => "x" ++ toHex b
  | .text b => "s" ++ toHex b
  | .list vs => "[" ++ ",".intercalate (vs.map showVal) ++ "]"
  | .record sl => "{" ++ ",".intercalate (sl.map fun o => match o with | none => "_" | some v => showVal v) ++ "}"
  | .variant i v => s!"<{i}:{showVal v}>"

abbrev P := StateT (List Char) Option

def peekC : P (Option Char) := do return (← get).head?
def nextC : P Char := do
  match (← get) with
  | [] => failure
  | c :: r => set r; return c
def expectC (c : Char) : P Unit := do
  let d ← nextC
  if c = d then return () else failure

partial def takeWhileC (p : Char → Bool) : P (List Char) := do
  match (← get) with
  | c :: r => if p c then do set r; let rest ← takeWhileC p; return c :: rest else return []
  | [] => return []

def isHexC (c : Char) : Bool := c.isDigit || ('a' ≤ c && c ≤ 'f')

mutual
partial def parseVal : P Val := do
  let c ← nextC
  match c with
  | 'n' => do
    let ds ← takeWhileC Char.isDigit
    match (String.ofList ds).toNat? with | some n => return .nat n | none => failure
  | 'i' => do
    let neg := (← peekC) = some '-'
    if neg then discard nextC
    let ds ← takeWhileC Char.isDigit
    match (String.ofList ds).toNat? with
    | some n => return .int (if neg then -(n : Int) else n)
    | none => failure
  | 'b' => do
    let d ← nextC
    if d = 'T' then return .bool true else if d = 'F' then return .bool false else failure
  | 'u' => return .unit
  | 'x' => do
    let hs ← takeWhileC isHexC
    match fromHexChars hs with | some b => return .bytes b | none => failure
  | 's' => do
    let hs ← takeWhileC isHexC
    match fromHexChars hs with | some b => return .text b | none => failure
  | '[' => do
    if (← peekC) = some ']' then discard nextC; return .list []
    let vs ← parseList
    return .list vs
  | '{' => do
    if (← peekC) = some '}' then discard nextC; return .record []
    let sl ← parseSlots
    return .record sl
  | '<' => do
    let ds ← takeWhileC Char.isDigit
    expectC ':'
    let v ← parseVal
    expectC '>'
    match (String.ofList ds).toNat? with | some n => return .variant n v | none => failure
  | _ => failure
partial def parseList : P (List Val) := do
  let v ← parseVal
  let c ← nextC
  if c = ',' then do let rest ← parseList; return v :: rest
  else if c = ']' then return [v] else failure
partial def parseSlots : P (List (Option Val)) := do
  let o ← (do if (← peekC) = some '_' then discard nextC; return none else return some (← parseVal))
  let c ← nextC
  if c = ',' then do let rest ← parseSlots; return o :: rest
  else if c = '}' then return [o] else failure
end

def readVal (s : String) : Option Val :=
  match parseVal.run s.toList with
  | some (v, []) => some v
  | _ => none

def hexOrDash (b : List Byte) : String := if b.isEmpty then "-" else toHex b

/-! ### data sources: the model runs on `Gen` (regenerated from /repo), the oracle on `Spec` -/

structure Source where
  isOracle : Bool
  reqRoles : Cfg → List (String × Ty)
  respRoles : Cfg → List (String × Ty)
  adExtRoles : Cfg → List (String × Ty)
  reqTables : Cfg → ReqTables
  respCase : Cfg → String → Val → Nat → List Byte → String
  u2fParse : Nat → Nat → Nat → List Byte → Outcome (Except U2fErr U2fReq)
  u2fsCase : Nat → List Byte → U2fResp → String
  regnewCase : List Byte → List Byte → String
  call2Case : String → String → String → String → String
  rpcDelegates : Bool × Bool      -- does `Rpc::call` go through `call_ctap1` / `call_ctap2`?
  call1Case : String → String → String → String
  adatCase : Cfg → String → List Byte → Nat → Nat → Option (Option Acd) → Option Val → String
  tables : String → Option (List (String × Nat))
  controlByte : Nat → Option Nat      -- byte → variant index
  controlNames : List (String × Nat)
  credProtect : Nat → Option Nat
  arbShape : ArbShape
  arbImpls : List (String × Nat × List (Nat × Draw))
  opCase : Nat → String          -- `Operation::try_from(b)` then `into_u8`
  vopCase : Nat → String         -- `VendorOperation::try_from(b)`

def specReqTables (c : Cfg) : ReqTables :=
  -- byte ranges straight from `Spec.cmdClass`: one arm per byte, variant index = byte
  { opTryFrom := (List.range 256).map (fun b => (b, b, some b)),
    vendorArms := [], vendorTryFrom := [],
    opSwitch := (List.range 256).map (fun b => (b, (Spec.cmdClass b).kind.1, (Spec.cmdClass b).kind.2)),
    emptyGuard := true,
    statusInvalidCommand := Spec.statusInvalidCommand, statusMissing := Spec.statusMissingParameter,
    statusOther := Spec.statusInvalidCbor,
    reqTy := fun v => (Spec.reqRoles c).lookup v }

def genOpCase (b : Nat) : String :=
  match opOfByte Gen.opTryFrom Gen.opTryFromVendorArms Gen.vendorTryFrom b with
  | none => "err"
  | some i =>
    match opToByte Gen.opInto i b with
    | some back => s!"ok {Gen.operations.getD i "?"} {back}"
    | none => "panic"

def genVopCase (b : Nat) : String :=
  match firstMatch Gen.vendorTryFrom b with
  | some _ => s!"ok {b}"
  | none => "err"

def specOpCase (b : Nat) : String :=
  match Spec.opName b with
  | some n => s!"ok {n} {b}"
  | none => "err"

def specVopCase (b : Nat) : String := if 0x40 ≤ b ∧ b ≤ 0x7F then s!"ok {b}" else "err"

def showOutcome : Outcome (List Byte) → String
  | .ret b => toHex b
  | .panic => "panic"
  | .ub => "panic"

def genRespCase (c : Cfg) (variant : String) (v : Val) (cap : Nat) (prior : List Byte) : String :=
  match Gen.respBodyTy c variant with
  | none => "bad-case"
  | some _ => showOutcome (Gen.respSerialize c variant v cap prior)

/-- oracle: status 0x00 + whole body if it fits (empty map ⇒ bare status), else 0x7F -/
def specRespCase (c : Cfg) (variant : String) (v : Val) (cap : Nat) (_prior : List Byte) : String :=
  match Spec.respHasBody.lookup variant with
  | none => "bad-case"
  | some false => if cap = 0 then "panic" else "00"
  | some true =>
    match (Spec.respRoles c).lookup (Gen.respRole variant) with
    | none => "bad-case"
    | some t =>
      let body := encode t v
      if cap = 0 then "panic"
      else if body.length + 1 ≤ cap then (if body = [0xA0] then "00" else toHex (0x00 :: body))
      else "7f"

def flagByte (tbl : List (String × Nat)) (mask : Nat) : Nat :=
  (if mask % 2 = 1 then (tbl.lookup "USER_PRESENCE").getD 0 else 0) +
  (if mask / 2 % 2 = 1 then (tbl.lookup "USER_VERIFIED").getD 0 else 0) +
  (if mask / 4 % 2 = 1 then (tbl.lookup "ATTESTED_CREDENTIAL_DATA").getD 0 else 0) +
  (if mask / 8 % 2 = 1 then (tbl.lookup "EXTENSION_DATA").getD 0 else 0)

def genAdatCase (c : Cfg) (flavour : String) (rp : List Byte) (mask count : Nat)
    (acd : Option (Option Acd)) (ext : Option Val) : String :=
  match (Gen.adExtRoles c).lookup flavour with
  | none => "bad-case"
  | some t =>
    let flags := UInt8.ofNat (flagByte Gen.flagsAuthenticatorDataFlags mask)
    -- the layouts as read off the source, interpreted
    match runLayout Gen.c_AUTHENTICATOR_DATA_LENGTH
            (adEnvWith Gen.layoutAttested rp flags count acd (ext.map fun v => [encode t v])) Gen.layoutAuthData [] with
    | some b => "ok " ++ toHex b
    | none => s!"err {Gen.statusSerializeError}"

def specAdatCase (c : Cfg) (flavour : String) (rp : List Byte) (mask count : Nat)
    (acd : Option (Option Acd)) (ext : Option Val) : String :=
  match (Spec.adExtRoles c).lookup flavour with
  | none => "bad-case"
  | some t =>
    let flags := UInt8.ofNat (flagByte Spec.authDataFlags mask)
    let acd' := match acd with | some (some a) => some (a.aaguid, a.credId, a.pubKey) | _ => none
    match Spec.authDataExpected rp flags count acd' (ext.map fun v => encode t v) with
    | some b => "ok " ++ toHex b
    | none => s!"err {Spec.statusOther}"

def genU2fsCase (cap : Nat) (prior : List Byte) (r : U2fResp) : String :=
  let (buf, ok) := runFlat cap (u2fBytes r) (u2fNum r)
    (u2fLayout Gen.layoutU2fRegister Gen.layoutU2fAuthenticate Gen.layoutU2fVersion r) prior
  (if ok then "ok " else "err ") ++ hexOrDash buf

/-- oracle: all-or-nothing append of the specified layout; on failure only the prefix property is
    specified, so the oracle reports the implementation-independent part: failure -/
def specU2fsCase (cap : Nat) (prior : List Byte) (r : U2fResp) : String :=
  let bytes := Spec.u2fResponseBytes r
  if prior.length + bytes.length ≤ cap then "ok " ++ hexOrDash (prior ++ bytes)
  else if prior.isEmpty then "err" else "err " ++ toHex prior       -- what was there stays (prefix)

def genRegnewCase (x y : List Byte) : String :=
  match registerPublicKey x y with
  | .ret b => "ok " ++ toHex b
  | _ => "panic"

def specRegnewCase (x y : List Byte) : String := "ok " ++ toHex (0x04 :: x ++ y)

/-- the recording mock as a `Behaviour`: state = unit, the named method fails with the code -/
def mockBehaviour (fail : String) : Behaviour Unit :=
  { run := fun m _ s =>
      match fail.splitOn ":" with
      | [fm, code] => if fm = m then (s, some (code.toNat?.getD 0)) else (s, none)
      | [fm] => if fm = m ∧ fm ≠ "-" then (s, some 0) else (s, none)
      | _ => (s, none) }

def showDispatch (withSame : Bool) (payloadMethods : List String)
    (r : Option (Unit × List (String × Bool) × Except Nat String)) (errShow : Nat → String) (okExtra : String) : String :=
  match r with
  | none => "panic"
  | some (_, log, res) =>
    -- `version()` is an associated function without `self`: the mock cannot record it
    let names := (log.map (·.1)).filter (· ≠ "version")
    let same := if log.isEmpty then "-" else if log.all (fun (m, p) => p == payloadMethods.contains m) then "T" else "F"
    let rs := match res with | .ok v => "ok " ++ v ++ okExtra | .error e => "err " ++ errShow e
    s!"log={if names.isEmpty then "-" else ",".intercalate names}" ++ (if withSame then s!" same={same}" else "") ++ s!" res={rs}"

def payloadMethods2 : List String :=
  ["make_credential", "get_assertion", "client_pin", "credential_management", "large_blobs", "vendor"]

def genCall2 (arms : List Arm) (defaultLbErr : Nat) (rpcOk : Bool) (entry lb variant fail : String) : String :=
  if entry = "rpc" ∧ !rpcOk then "panic"
  else if lb = "nolb" ∧ variant = "LargeBlobs" then
    -- the trait's default handler: no user code runs
    (match arms.lookup variant with
     | some (_, _, true) => s!"log=- same=- res=err {defaultLbErr}"
     | _ => "panic")
  else showDispatch true payloadMethods2 (dispatch arms (mockBehaviour fail) variant ()) toString ""

def specArms (rows : List (String × String × Bool × String × Bool)) : List Arm :=
  rows.map fun row => (row.1, [(row.2.1, row.2.2.1)], [row.2.2.2.1], row.2.2.2.2)

def u2fMockErr (_ : Nat) : String := "27013"   -- unused: per-method codes below

def genCall1 (arms : List Arm) (rpcOk : Bool) (version : String) (entry variant fail : String) : String :=
  if entry = "rpc" ∧ !rpcOk then "panic"
  else
    let errShow (_ : Nat) : String := "same"   -- the status the handler returned, unchanged
    showDispatch false [] (dispatch arms (mockBehaviour fail) variant ()) errShow
      (if variant = "Version" then " " ++ toHex version.toUTF8.toList else "")

def genSource : Source :=
  { isOracle := false, reqRoles := Gen.reqRoles, respRoles := Gen.respRoles, adExtRoles := Gen.adExtRoles,
    reqTables := Gen.reqTables, respCase := genRespCase, adatCase := genAdatCase, u2fParse := runProgram Gen.u2fProgram Gen.controlByteTryFrom,
    u2fsCase := genU2fsCase, regnewCase := genRegnewCase,
    call2Case := genCall2 Gen.dispatch2 ((Gen.statusCodes.lookup Gen.largeBlobsDefaultError).getD 999) Gen.rpc2Delegates,
    rpcDelegates := (Gen.rpc1Delegates, Gen.rpc2Delegates),
    call1Case := genCall1 Gen.dispatch1 Gen.rpc1Delegates Gen.versionDefault, opCase := genOpCase, vopCase := genVopCase,
    tables := fun n => if n = "status" then some Gen.statusCodes
                       else if n = "Permissions" then some Gen.flagsPermissions
                       else if n = "AuthenticatorDataFlags" then some Gen.flagsAuthenticatorDataFlags else none,
    controlByte := firstMatch Gen.controlByteTryFrom, controlNames := Gen.controlBytes,
    credProtect := firstMatch Gen.credProtectTryFrom, arbShape := Gen.arbShape, arbImpls := Gen.arbImpls }

def specSource : Source :=
  { isOracle := true, reqRoles := Spec.reqRoles, respRoles := Spec.respRoles, adExtRoles := Spec.adExtRoles,
    reqTables := specReqTables, respCase := specRespCase, adatCase := specAdatCase, u2fParse := fun a b c d => .ret (Spec.u2fParse a b c d),
    u2fsCase := specU2fsCase, regnewCase := specRegnewCase,
    call2Case := genCall2 (specArms Spec.dispatch2) Spec.statusInvalidCommand true,
    rpcDelegates := (true, true),
    call1Case := genCall1 (specArms Spec.dispatch1) true "U2F_V2", opCase := specOpCase, vopCase := specVopCase,
    tables := fun n => if n = "status" then some Spec.statusCodes
                       else if n = "Permissions" then some Spec.permissions
                       else if n = "AuthenticatorDataFlags" then some Spec.authDataFlags else none,
    controlByte := Spec.controlByteOf, controlNames := Spec.controlBytes,
    credProtect := Spec.credProtectOf, arbShape := Spec.arbShape, arbImpls := Spec.arbImpls }

def parseCfg (s : String) : Option Cfg :=
  match s.toList with
  | [a, b, c] =>
    if (a = '0' ∨ a = '1') ∧ (b = '0' ∨ b = '1') ∧ (c = '0' ∨ c = '1') then
      some ⟨a = '1', b = '1', c = '1'⟩ else none
  | _ => none

/-- type reference `req:MakeCredential/6/0` = role, then child indices -/
def tyRef (src : Source) (c : Cfg) (ref : String) : Option Ty := do
  let parts := ref.splitOn "/"
  let head ← parts.head?
  let idxs ← parts.tail.mapM (fun s => s.toNat?)
  let root ← match head.splitOn ":" with
    | ["req", v] => (src.reqRoles c).lookup v
    | ["resp", v] => (src.respRoles c).lookup v
    | ["adext", v] => (src.adExtRoles c).lookup v
    | _ => none
  walkTy root idxs

def showErr : DErr → String
  | .missing => "err missing"
  | .other => "err other"
  | .panic => "panic"

def reqOutcome (t : ReqTables) (bs : List Byte) : String :=
  match requestDeserialize t bs with
  | .ok variant none => s!"ok {variant} -"
  | .ok variant (some v) => s!"ok {variant} {showVal v}"
  | .err st => s!"err {st}"
  | .panic => "panic"

def fnv (h : UInt64) (b : UInt8) : UInt64 := (h ^^^ b.toUInt64) * 0x100000001b3

structure SweepAcc where
  ok : Nat := 0
  e1 : Nat := 0
  e18 : Nat := 0
  e20 : Nat := 0
  eo : Nat := 0
  pn : Nat := 0
  first : String := ""
  digest : UInt64 := 0

/-- every byte string `pre ‖ s`, `|s| = n`: outcome classes and an order-independent digest
    (the sum of FNV-1a over input bytes followed by the outcome text) -/
def sweep (t : ReqTables) (pre : List Byte) (n : Nat) : String :=
  let total := 256 ^ n
  let rec go (k : Nat) (i : Nat) (a : SweepAcc) : SweepAcc :=
    match k with
    | 0 => a
    | k+1 =>
      let bs := pre ++ be n i
      let out := reqOutcome t bs
      let h := out.toUTF8.foldl fnv (bs.foldl fnv 0xcbf29ce484222325)
      let a := { a with digest := a.digest + h }
      let a :=
        if out.startsWith "ok" then { a with ok := a.ok + 1 }
        else if out = "err 1" then { a with e1 := a.e1 + 1 }
        else if out = "err 18" then { a with e18 := a.e18 + 1 }
        else if out = "err 20" then { a with e20 := a.e20 + 1 }
        else if out = "panic" then { a with pn := a.pn + 1, first := if a.first.isEmpty then toHex bs else a.first }
        else { a with eo := a.eo + 1 }
      go k (i + 1) a
  let a := go total 0 {}
  let hexd := toHex ((be 8 a.digest.toNat))
  s!"sweep n={total} ok={a.ok} err1={a.e1} err18={a.e18} err20={a.e20} errother={a.eo} panic={a.pn}" ++
    (if a.first.isEmpty then "" else s!" first={a.first}") ++ s!" digest={hexd}"

/-- `call2` lines may carry a sixth token (the value the mock's handler returns): the dispatcher hands
    back whatever the handler returned, so the model's answer does not depend on it -/
def dropCanned : List String → List String
  | ["call2", entry, lb, req, fail, _] => ["call2", entry, lb, req, fail]
  | ["reqs", cfg, hex] => ["req", cfg, hex]          -- the same request on a small stack: the model has no stack
  | l => l

def handle (src : Source) (line : String) : String :=
  match dropCanned (line.trimAscii.toString.splitOn " ") with
  | ["dec", cfg, ty, hex] =>
    (match parseCfg cfg with
     | none => "bad-case"
     | some c =>
       match tyRef src c ty, fromHex hex with
       | some t, some bs =>
         (match decode t bs with
          | .ok (v, _) => "ok " ++ showVal v
          | .error e => showErr e)
       | _, _ => "bad-case")
  | ["enc", cfg, ty, val] =>
    (match parseCfg cfg with
     | none => "bad-case"
     | some c =>
       match tyRef src c ty, readVal val with
       | some t, some v => let b := encode t v; if b.isEmpty then "-" else toHex b
       | _, _ => "bad-case")
  | ["rt", cfg, ty, val] =>
    (match parseCfg cfg with
     | none => "bad-case"
     | some c =>
       match tyRef src c ty, readVal val with
       | some t, some v =>
         let b := encode t v
         if src.isOracle then s!"ok {hexOrDash b} {showVal v}"      -- the property: the value comes back
         else (match decode t b with
               | .ok (v2, _) => s!"ok {hexOrDash b} {showVal v2}"
               | .error e => showErr e ++ " after " ++ toHex b)
       | _, _ => "bad-case")
  | ["rtb", cfg, ty, hex] =>
    (match parseCfg cfg with
     | none => "bad-case"
     | some c =>
       match tyRef src c ty, fromHex hex with
       | some t, some bs =>
         if src.isOracle then s!"ok {hexOrDash bs}"                   -- the property: the bytes come back
         else (match decode t bs with
               | .ok (v, _) => s!"ok {hexOrDash (encode t v)}"
               | .error e => showErr e)
       | _, _ => "bad-case")
  | ["req", cfg, hex] =>
    (match parseCfg cfg, fromHex hex with
     | some c, some bs => reqOutcome (src.reqTables c) bs
     | _, _ => "bad-case")
  | ["arb", ty, hex] =>
    (match fromHex hex with
     | none => "bad-case"
     | some bs =>
       if ty = "ctap2::Request" ∨ ty = "ctap1::Request" ∨ ty = "authenticator::Request" then "valid"
       else match src.arbImpls.lookup ty with
         | none => "bad-case"
         | some (n, draws) =>
           match drawAll src.arbShape (draws.map (·.2)) bs [] with
           | .error .notEnough => "err"
           | .error .panic => "panic"
           | .error .ub => "panic"
           | .ok (vals, rest) =>
             let slots := (List.range n).map (fun i =>
               match (draws.map (·.1)).zip vals |>.lookup i with
               | some v => v
               | none => none)
             let v : Val := if ty = "webauthn::FilteredPublicKeyCredentialParameters" then (slots.headD none).getD .unit
                            else .record slots
             s!"ok {showVal v} {rest.length}")
  | ["sweep", cfg, pfx, n] =>
    (match parseCfg cfg, fromHex pfx, n.toNat? with
     | some c, some pre, some n =>
       if n > 3 then "bad-case" else sweep (src.reqTables c) pre n
     | _, _, _ => "bad-case")
  | ["resp", cfg, variant, val, cap, prior] =>
    (match parseCfg cfg, cap.toNat?, fromHex prior with
     | some c, some cap, some prior =>
       (match (if val = "-" then some Val.unit else readVal val) with
        | some v => src.respCase c variant v cap prior
        | none => "bad-case")
     | _, _, _ => "bad-case")
  | ["adat", cfg, flavour, rp, mask, count, acd, ext] =>
    (match parseCfg cfg, fromHex rp, mask.toNat?, count.toNat? with
     | some c, some rp, some mask, some count =>
       let acdv : Option (Option (Option Acd)) :=
         if acd = "-" then some none
         else if acd = "none" then some (some none)
         else match acd.splitOn ":" with
           | [a, n, seed, p] =>
             (match fromHex a, n.toNat?, seed.toNat?, fromHex p with
              | some a, some n, some seed, some p =>
                some (some (some ⟨a, (List.range n).map (fun i => UInt8.ofNat ((seed + 7 * i) % 256)), p⟩))
              | _, _, _, _ => none)
           | _ => none
       let extv : Option (Option Val) := if ext = "-" then some none else (readVal ext).map some
       (match acdv, extv with
        | some acdv, some extv => src.adatCase c flavour rp mask count acdv extv
        | _, _ => "bad-case")
     | _, _, _, _ => "bad-case")
  | ["apdu", _mode, hx] =>
    (match fromHex hx with
     | none => "bad-case"
     | some bs =>
       match parseApdu bs with
       | none => "bad-apdu"
       | some a =>
         match src.u2fParse a.cla a.ins a.p1 a.data with
         | .panic => "panic"
         | .ub => "panic"
         | .ret (.error e) => s!"err {e.sw}"
         | .ret (.ok .version) => "ok version"
         | .ret (.ok (.register c ap)) => s!"ok register {toHex c} {toHex ap}"
         | .ret (.ok (.authenticate cb c ap kh)) =>
           s!"ok authenticate {cb} {toHex c} {toHex ap} {if kh.isEmpty then "-" else toHex kh}")
  | ["u2fs", cap, prior, resp] =>
    (match cap.toNat?, fromHex prior with
     | some cap, some prior =>
       let hx (s : String) : List Byte := (fromHex s).getD []
       let r : Option U2fResp := match resp.splitOn ":" with
         | ["reg", h, pk, kh, cert, sig] => h.toNat?.map fun h => .register (UInt8.ofNat h) (hx pk) (hx kh) (hx cert) (hx sig)
         | ["auth", up, count, sig] => (up.toNat?.bind fun up => count.toNat?.map fun c => U2fResp.authenticate (UInt8.ofNat up) c (hx sig))
         | ["ver", v] => some (.version (hx v))
         | _ => none
       (match r with
        | none => "bad-case"
        | some r => src.u2fsCase cap prior r)
     | _, _ => "bad-case")
  | ["regnew", x, y] =>
    (match fromHex x, fromHex y with
     | some x, some y => src.regnewCase x y
     | _, _ => "bad-case")
  | ["call2", entry, lb, req, fail] =>
    -- the request variant (and vendor byte) comes from the request model; the mock behaviour from `fail`
    let variant : Option String :=
      if req.startsWith "vendor:" then some "Vendor"
      else match fromHex req with
        | some bs => (match requestDeserialize (src.reqTables ⟨false, false, false⟩) bs with
                      | .ok v _ => some v
                      | _ => none)
        | none => none
    (match variant with
     | none => "bad-case"
     | some v => src.call2Case entry lb v fail)
  | ["rpcov", which, _] =>
    -- an authenticator overriding the provided dispatch method: `Rpc::call` reaches the override iff it delegates
    if which = "1" then (if src.rpcDelegates.1 then "overridden" else "bypassed")
    else if which = "2" then (if src.rpcDelegates.2 then "overridden" else "bypassed")
    else "bad-case"
  | ["call1", entry, apdu, fail] =>
    (match (fromHex apdu).bind parseApdu with
     | none => "bad-case"
     | some a =>
       match src.u2fParse a.cla a.ins a.p1 a.data with
       | .ret (.ok r) =>
         let v := match r with | .register _ _ => "Register" | .authenticate _ _ _ _ => "Authenticate" | .version => "Version"
         src.call1Case entry v fail
       | _ => "bad-case")
  | ["tbl", name] =>
    (match src.tables name with
     | some t => ",".intercalate (t.map fun (n, v) => s!"{n}={v}")
     | none => "bad-case")
  | ["cb", b] =>
    (match b.toNat? with
     | some b =>
       (match src.controlByte b with
        | some i => (match src.controlNames[i]? with | some (n, v) => s!"ok {n} {v}" | none => "panic")
        | none => "err")
     | none => "bad-case")
  | ["cpp", b] =>
    (match b.toNat? with
     | some b =>
       (match src.credProtect b with
        | some i => s!"ok {["Optional", "OptionalWithCredentialIdList", "Required"].getD i "?"} {[1, 2, 3].getD i 0}"
        | none => "err 2")
     | none => "bad-case")
  | ["op", b] =>
    (match b.toNat? with
     | some b => src.opCase b
     | none => "bad-case")
  | ["vop", b] =>
    (match b.toNat? with
     | some b => src.vopCase b
     | none => "bad-case")
  | _ => "bad-case"

partial def loop (src : Source) (h : IO.FS.Stream) (out : IO.FS.Stream) : IO Unit := do
  let line ← h.getLine
  if line.isEmpty then return ()
  out.putStrLn (handle src line)
  loop src h out

def main (args : List String) : IO Unit := do
  let out ← IO.getStdout
  let src := if args.contains "--oracle" then specSource else genSource
  loop src (← IO.getStdin) out
