import Ctap.Decode
import Ctap.Request
import Ctap.Frame
import Gen
/-
  Line-protocol driver: evaluates the executable model on the case lines the correspondence
  check also feeds to the real implementation.  One case per line in, one outcome per line out.
  Not part of any proof (uses `partial`).
-/

/-! ### compact one-token value syntax
  n<dec> | i<dec> | bT | bF | u | x<hex> | s<hex> | [v,v,..] | {o,o,..} (o = _ | v) | <i:v> -/

partial def showVal : Val → String
  | .nat n => s!"n{n}"
  | .int i => s!"i{i}"
  | .bool b => if b then "bT" else "bF"
  | .unit => "u"
  | .bytes b => "x" ++ toHex b
  | .text b => "s" ++ toHex b
  | .list vs => "[" ++ ",".intercalate (vs.map showVal) ++ "]"
  | .record sl => "{" ++ ",".intercalate (sl.map fun o => match o with | none => "_" | some v => showVal v) ++ "}"
  | .variant i v => s!"<{i}:{showVal v}>"

abbrev P := StateT (List Char) Option

def peekC : P (Option Char) := do return (← get).head?
def nextC : P Char := do
  match (← get) with
  | [] => failure
  | c :: r => set r; return c
def expectC (c : Char) : P Unit := do
  let d ← nextC
  if c = d then return () else failure

partial def takeWhileC (p : Char → Bool) : P (List Char) := do
  match (← get) with
  | c :: r => if p c then do set r; let rest ← takeWhileC p; return c :: rest else return []
  | [] => return []

def isHexC (c : Char) : Bool := c.isDigit || ('a' ≤ c && c ≤ 'f')

mutual
partial def parseVal : P Val := do
  let c ← nextC
  match c with
  | 'n' => do
    let ds ← takeWhileC Char.isDigit
    match (String.ofList ds).toNat? with | some n => return .nat n | none => failure
  | 'i' => do
    let neg := (← peekC) = some '-'
    if neg then discard nextC
    let ds ← takeWhileC Char.isDigit
    match (String.ofList ds).toNat? with
    | some n => return .int (if neg then -(n : Int) else n)
    | none => failure
  | 'b' => do
    let d ← nextC
    if d = 'T' then return .bool true else if d = 'F' then return .bool false else failure
  | 'u' => return .unit
  | 'x' => do
    let hs ← takeWhileC isHexC
    match fromHexChars hs with | some b => return .bytes b | none => failure
  | 's' => do
    let hs ← takeWhileC isHexC
    match fromHexChars hs with | some b => return .text b | none => failure
  | '[' => do
    if (← peekC) = some ']' then discard nextC; return .list []
    let vs ← parseList
    return .list vs
  | '{' => do
    if (← peekC) = some '}' then discard nextC; return .record []
    let sl ← parseSlots
    return .record sl
  | '<' => do
    let ds ← takeWhileC Char.isDigit
    expectC ':'
    let v ← parseVal
    expectC '>'
    match (String.ofList ds).toNat? with | some n => return .variant n v | none => failure
  | _ => failure
partial def parseList : P (List Val) := do
  let v ← parseVal
  let c ← nextC
  if c = ',' then do let rest ← parseList; return v :: rest
  else if c = ']' then return [v] else failure
partial def parseSlots : P (List (Option Val)) := do
  let o ← (do if (← peekC) = some '_' then discard nextC; return none else return some (← parseVal))
  let c ← nextC
  if c = ',' then do let rest ← parseSlots; return o :: rest
  else if c = '}' then return [o] else failure
end

def readVal (s : String) : Option Val :=
  match parseVal.run s.toList with
  | some (v, []) => some v
  | _ => none

/-! ### generated data per configuration -/

def cfgTypes : String → Option (List (String × Ty) × List (String × Ty))
  | "000" => some (Gen.S000.types, Gen.S000.roles)
  | "001" => some (Gen.S001.types, Gen.S001.roles)
  | "010" => some (Gen.S010.types, Gen.S010.roles)
  | "011" => some (Gen.S011.types, Gen.S011.roles)
  | "100" => some (Gen.S100.types, Gen.S100.roles)
  | "101" => some (Gen.S101.types, Gen.S101.roles)
  | "110" => some (Gen.S110.types, Gen.S110.roles)
  | "111" => some (Gen.S111.types, Gen.S111.roles)
  | _ => none

def tyOf (cfg name : String) : Option Ty := do
  let (ts, rs) ← cfgTypes cfg
  match ts.lookup name with
  | some t => some t
  | none => rs.lookup name

def reqTables (cfg : String) : ReqTables :=
  { opTryFrom := Gen.opTryFrom, vendorArms := Gen.opTryFromVendorArms,
    vendorTryFrom := Gen.vendorTryFrom, opSwitch := Gen.opSwitch,
    emptyGuard := Gen.opSwitchEmptyGuard,
    statusInvalidCommand := Gen.statusInvalidCommand, statusMissing := Gen.statusMissing,
    statusOther := Gen.statusOtherCbor,
    reqTy := fun v => tyOf cfg ("req" ++ v) }

def showErr : DErr → String
  | .missing => "err missing"
  | .other => "err other"
  | .panic => "panic"

def respHasBody (variant : String) : Option Bool := Gen.respSwitch.lookup variant

def respRole (variant : String) : String :=
  if variant = "GetNextAssertion" then "respGetAssertion" else "resp" ++ variant

def handle (line : String) : String :=
  match line.trimAscii.toString.splitOn " " with
  | ["dec", cfg, ty, hex] =>
    (match tyOf cfg ty, fromHex hex with
     | some t, some bs =>
       (match decode t bs with
        | .ok (v, _) => "ok " ++ showVal v
        | .error e => showErr e)
     | _, _ => "bad-case")
  | ["enc", cfg, ty, val] =>
    (match tyOf cfg ty, readVal val with
     | some t, some v => toHex (encode t v)
     | _, _ => "bad-case")
  | ["req", cfg, hex] =>
    (match fromHex hex with
     | some bs =>
       (match requestDeserialize (reqTables cfg) bs with
        | .ok variant none => s!"ok {variant} -"
        | .ok variant (some v) => s!"ok {variant} {showVal v}"
        | .err st => s!"err {st}"
        | .panic => "panic")
     | none => "bad-case")
  | ["resp", cfg, variant, val, cap, prior] =>
    (match respHasBody variant, cap.toNat?, fromHex prior with
     | some hasBody, some cap, some prior =>
       let chunks : Option (Option (List (List Byte))) :=
         if hasBody then
           (match tyOf cfg (respRole variant), readVal val with
            | some t, some v => some (some [encode t v])
            | _, _ => none)
         else some none
       (match chunks with
        | none => "bad-case"
        | some cs =>
          (match responseSerialize (UInt8.ofNat Gen.statusSerializeError) cs cap prior with
           | .ret b => toHex b
           | .panic => "panic"
           | .ub => "panic"))
     | _, _, _ => "bad-case")
  | _ => "bad-case"

partial def loop (h : IO.FS.Stream) (out : IO.FS.Stream) : IO Unit := do
  let line ← h.getLine
  if line.isEmpty then return ()
  out.putStrLn (handle line)
  loop h out

def main : IO Unit := do
  let out ← IO.getStdout
  loop (← IO.getStdin) out
