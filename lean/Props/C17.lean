import Props.Obligations
import Spec.Tables
import Ctap.FrameThm
/-
  C17 — a response fits the transport buffer completely or becomes a one-byte error.
-/
namespace C17

/-! #### per-run obligations -/

theorem ob_error_status : Gen.statusSerializeError = Spec.statusOther := by decide

/-- the variant switch of `Response::serialize` treats exactly the specification's body-less kinds
    as empty and every other kind as a CBOR body -/
theorem ob_switch : Gen.respSwitch.length = Spec.respHasBody.length ∧
    Spec.respHasBody.all (fun p => Gen.respSwitch.lookup p.1 == some p.2) = true := by decide

theorem ob_roles (c : Cfg) : Spec.respHasBody.all (fun p =>
    match Gen.respBodyTy c p.1 with
    | some none => p.2 == false
    | some (some t) => p.2 && (Spec.respRoles c).lookup (Gen.respRole p.1) == some t
    | none => false) = true := by
  rcases c with ⟨_|_, _|_, _|_⟩ <;> decide

/-! #### property theorems -/

/-- what the specification asks for: status 0x00 and the whole body when it fits (an empty map
    collapsing to the bare status byte), otherwise exactly the status byte `Other` (0x7F) -/
def expected (body : List Byte) (cap : Nat) : List Byte :=
  if body.length + 1 ≤ cap then (if body = [0xA0] then [0x00] else 0x00 :: body) else [0x7F]

/-- every response kind with a CBOR body, every value, every capacity ≥ 1, every prior buffer
    content, every chunking of the body by the serializer -/
theorem body_response (c : Cfg) (variant : String) (t : Ty) (v : Val) (cap : Nat) (prior : List Byte)
    (cs : List (List Byte)) (_ht : Gen.respBodyTy c variant = some (some t))
    (hcs : cs.flatten = encode t v) (hcap : 1 ≤ cap) (hprior : prior.length ≤ cap) :
    responseSerialize (UInt8.ofNat Gen.statusSerializeError) (some cs) cap prior
      = .ret (expected (encode t v) cap) := by
  rw [responseSerialize_spec _ cs cap prior hcap hprior, hcs, ob_error_status]
  rfl

/-- the model entry point (single chunk) is an instance -/
theorem model_response (c : Cfg) (variant : String) (t : Ty) (v : Val) (cap : Nat) (prior : List Byte)
    (ht : Gen.respBodyTy c variant = some (some t)) (hcap : 1 ≤ cap) (hprior : prior.length ≤ cap) :
    Gen.respSerialize c variant v cap prior = .ret (expected (encode t v) cap) := by
  unfold Gen.respSerialize
  rw [ht]
  exact body_response c variant t v cap prior [encode t v] ht (by simp) hcap hprior

/-- Reset / Selection / Vendor: the status byte alone -/
theorem empty_response (c : Cfg) (variant : String) (v : Val) (cap : Nat) (prior : List Byte)
    (ht : Gen.respBodyTy c variant = some none) (hcap : 1 ≤ cap) (hprior : prior.length ≤ cap) :
    Gen.respSerialize c variant v cap prior = .ret [0x00] := by
  unfold Gen.respSerialize
  rw [ht]
  exact responseSerialize_empty _ cap prior hcap hprior

/-- independence of the prior buffer content, stated outright -/
theorem prior_independent (c : Cfg) (variant : String) (v : Val) (cap : Nat) (p₁ p₂ : List Byte)
    (hcap : 1 ≤ cap) (h₁ : p₁.length ≤ cap) (h₂ : p₂.length ≤ cap) :
    Gen.respSerialize c variant v cap p₁ = Gen.respSerialize c variant v cap p₂ := by
  unfold Gen.respSerialize
  cases h : Gen.respBodyTy c variant with
  | none => rfl
  | some o =>
    cases o with
    | none => simp [responseSerialize_empty _ cap _ hcap h₁, responseSerialize_empty _ cap _ hcap h₂]
    | some t => simp [responseSerialize_spec _ _ cap _ hcap h₁, responseSerialize_spec _ _ cap _ hcap h₂]

/-- the result is never a truncated body: it is the whole message or one byte -/
theorem whole_or_error (body : List Byte) (cap : Nat) :
    expected body cap = 0x00 :: body ∨ expected body cap = [0x00] ∨ expected body cap = [0x7F] := by
  unfold expected
  split
  · split
    · right; left; rfl
    · left; rfl
  · right; right; rfl

/-! non-vacuity -/
example : Gen.respBodyTy ⟨false, false, false⟩ "Reset" = some none := by decide
example : Gen.respBodyTy ⟨true, true, true⟩ "GetNextAssertion" = some (some Spec.respGetAssertion) := by decide
example : expected [0xA1, 0x03, 0x08] 4 = [0x00, 0xA1, 0x03, 0x08] := by decide
example : expected [0xA1, 0x03, 0x08] 3 = [0x7F] := by decide

end C17
