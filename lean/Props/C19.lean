import Props.Obligations
import Spec.Tables
import Ctap.ArbThm
import Ctap.ArbTree
/-
  C19 — generated fuzzing inputs are always memory-safe, valid request values (partial).

  Proved here: the four length-handling helpers of `src/arbitrary.rs` and the five hand-written
  `Arbitrary` impls built only from them (relying-party and user entity, the two filtered lists,
  the hmac-secret input).  These contain every `unsafe` block and every `unwrap()` of the
  module's own logic except the fixed-size `try_into().unwrap()`s of the CTAP1 requests.  The
  composition into whole `ctap1 / ctap2 / authenticator::Request` values goes through
  `derive(Arbitrary)` and the `arbitrary` crate's slice / string impls, which are not modelled:
  that part is covered by the correspondence run only (validity oracle on the real generators).
-/
namespace C19

/-! #### per-run obligations -/
theorem ob_shape : Gen.arbShape = Spec.arbShape := by decide
theorem ob_impls : Gen.arbImpls = Spec.arbImpls := by decide

theorem shape_good : Gen.arbShape.good = true := by rw [ob_shape]; decide
theorem caps_ok : Gen.arbImpls.all (fun i => i.2.2.all (fun d => d.2.capOk)) = true := by rw [ob_impls]; decide

/-! #### property theorems -/

/-- `arbitrary_str::<N>` on any bytes, for any capacity: out of data, or well-formed UTF-8 of at
    most `N` bytes — the `unwrap()` and the `from_utf8_unchecked` precondition cannot fail -/
theorem str_ok (N : Nat) (u : List Byte) :
    Fine (fun s => validUtf8 s = true ∧ s.length ≤ N) (arbStr Gen.arbShape N u) :=
  arbStr_fine _ (by rw [ob_shape]; rfl) N u

theorem bytes_ok (N : Nat) (u : List Byte) : Fine (fun b => b.length ≤ N) (arbBytes Gen.arbShape N u) :=
  arbBytes_fine _ (by rw [ob_shape]; rfl) N u

theorem byte_array_ok (N : Nat) (u : List Byte) : Fine (fun b => b.length = N) (arbByteArray N u) :=
  arbByteArray_fine N u

/-- `arbitrary_vec::<T, N>` over any element generator that is itself fine: at most `N` pushes -/
theorem vec_ok {α : Type} (elem : List Byte → AR α) (P : α → Prop) (he : ∀ x, Fine P (elem x)) (N : Nat)
    (hN : N + 1 < 4294967296) (u : List Byte) :
    Fine (fun vs => vs.length ≤ N ∧ ∀ a ∈ vs, P a) (arbVec Gen.arbShape elem N u) :=
  arbVec_fine _ (by rw [ob_shape]; rfl) elem P he N hN u

/-- every modelled hand-written generator, on every byte string: `NotEnoughData`, or a value all
    of whose text members are well-formed UTF-8 within capacity and all of whose bounded members
    are within capacity; never a panic, never undefined behaviour -/
theorem generators_ok (ty : String) (n : Nat) (draws : List (Nat × Draw)) (h : (ty, n, draws) ∈ Gen.arbImpls)
    (u : List Byte) : Fine (holdsAll (draws.map (·.2))) (drawAll Gen.arbShape (draws.map (·.2)) u []) := by
  apply generator_fine _ shape_good
  intro d hd
  obtain ⟨p, hp, rfl⟩ := List.mem_map.mp hd
  have := List.all_eq_true.mp caps_ok (ty, n, draws) h
  exact List.all_eq_true.mp this p hp

/-! #### whole requests (G-ARBTREE) -/

/-- the generator call trees of the three request generators, read off the derives and the
    hand-written impls: the three roots are there, capacities fit `u32`, every enum has a variant -/
theorem ob_trees : Gen.arbTrees.map (·.1) = ["ctap2::Request", "ctap1::Request", "authenticator::Request"] ∧
    Gen.arbTrees.all (fun p => p.2.ok) = true := by decide

/-- **Whole-request generation never reaches an `unwrap()` failure, `unreachable!()` or the
    `from_utf8_unchecked` precondition of ctap-types**, for every input, for each of the three
    generators — given that the leaf generators of the `arbitrary` crate (integers, `bool`,
    `&[u8]`, `&str`, foreign derives) do not panic themselves. -/
theorem whole_requests_fine (name : String) (g : GTree) (h : (name, g) ∈ Gen.arbTrees)
    (ext : String → List Byte → AR Unit) (hext : ∀ n u, FineU (ext n u)) (u : List Byte) :
    FineU (runG Gen.arbShape ext g u) :=
  runG_fine _ shape_good ext hext g u (List.all_eq_true.mp ob_trees.2 (name, g) h)

/-! non-vacuity: without the clamp the `unwrap()` is reachable (so the theorem speaks about the
    extracted shape, not about the model's construction) -/
example : arbBytes ⟨true, false, 0⟩ 2 [3, 0, 0, 0, 0, 0, 0, 0, 1, 2, 3] = .error .panic := by rfl
example : arbStr Gen.arbShape 4 [9, 0, 0, 0, 0, 0, 0, 0, 0x61, 0xe2, 0x82, 0xac, 0xff] = .ok ([0x61, 0xe2, 0x82, 0xac], [0xff]) := by
  rw [ob_shape]; rfl

end C19
