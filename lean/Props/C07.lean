import Props.Obligations
import Spec.AuthData
import Ctap.AuthData
import Ctap.Layout
import Ctap.HeadThm
/-
  C07 — authenticator data is laid out byte-for-byte as WebAuthn specifies.
-/
namespace C07

/-! #### per-run obligations -/
theorem ob_capacity : Gen.c_AUTHENTICATOR_DATA_LENGTH = Spec.authDataCapacity := by decide
theorem ob_flags : Gen.flagsAuthenticatorDataFlags =
    [("USER_PRESENCE", Spec.flagUP), ("USER_VERIFIED", Spec.flagUV),
     ("ATTESTED_CREDENTIAL_DATA", Spec.flagAT), ("EXTENSION_DATA", Spec.flagED)] := by decide

/-- the two serialiser bodies, read statement by statement off the source, are the specified
    sequences of appends (rp id hash, flags byte, 32-bit big-endian counter, optional attested
    credential data, optional extension map / aaguid, 16-bit big-endian length, id, key) -/
theorem ob_layout : Gen.layoutAuthData = Spec.layoutAuthData ∧ Gen.layoutAttested = Spec.layoutAttested := by decide

/-- hence what the source's statements do (the interpreter of `Ctap/Layout.lean` on the layouts
    read off the source) is the model `authDataSerialize` the theorems below are about -/
theorem source_is_model (cap : Nat) (rp : List Byte) (flags : Byte) (count : Nat) (acd : Option (Option Acd))
    (ext : Option (List (List Byte))) :
    runLayout cap (adEnvWith Gen.layoutAttested rp flags count acd ext) Gen.layoutAuthData [] =
      authDataSerialize cap rp flags count acd ext := by
  rw [ob_layout.1, ob_layout.2]; exact runLayout_authData cap rp flags count acd ext

/-! #### lemmas -/

theorem be2_eq (n : Nat) (_h : n < 65536) : be 2 n = Spec.be16 n := by
  simp [be, Spec.be16]

theorem be4_eq (n : Nat) (_h : n < 4294967296) : be 4 n = Spec.be32 n := by
  simp [be, Spec.be32]
  constructor <;> congr 1 <;> omega

theorem writeChunksVec_ok (cap : Nat) (cs : List (List Byte)) (buf : List Byte)
    (h : buf.length + cs.flatten.length ≤ cap) : writeChunksVec cap cs buf = some (buf ++ cs.flatten) := by
  induction cs generalizing buf with
  | nil => simp [writeChunksVec]
  | cons c cs ih =>
    rw [List.flatten_cons, List.length_append] at h
    simp only [writeChunksVec, extendCap]
    rw [if_pos (by omega)]
    simp only []
    rw [ih (buf ++ c) (by rw [List.length_append]; omega)]
    simp

theorem writeChunksVec_fail (cap : Nat) (cs : List (List Byte)) (buf : List Byte)
    (hb : buf.length ≤ cap) (h : cap < buf.length + cs.flatten.length) : writeChunksVec cap cs buf = none := by
  induction cs generalizing buf with
  | nil => simp at h; omega
  | cons c cs ih =>
    rw [List.flatten_cons, List.length_append] at h
    simp only [writeChunksVec, extendCap]
    by_cases hc : buf.length + c.length ≤ cap
    · rw [if_pos hc]; simp only []
      exact ih (buf ++ c) (by rw [List.length_append]; omega) (by rw [List.length_append]; omega)
    · rw [if_neg hc]

/-! #### the serializer is one chain of bounded appends -/

def extChunks (ext : Option (List (List Byte))) : List (List Byte) := ext.getD []

theorem chain_none (cap : Nat) (rp : List Byte) (flags : Byte) (count : Nat) (ext : Option (List (List Byte))) :
    authDataSerialize cap rp flags count none ext
      = writeChunksVec cap ([rp, [flags], be 4 count] ++ extChunks ext) [] := by
  unfold authDataSerialize
  simp only [writeChunksVec, List.cons_append, List.nil_append]
  cases extendCap cap [] rp with
  | none => rfl
  | some b0 =>
    simp only []
    cases extendCap cap b0 [flags] with
    | none => rfl
    | some b1 =>
      simp only []
      cases extendCap cap b1 (be 4 count) with
      | none => rfl
      | some b2 =>
        simp only []
        cases ext with
        | none => simp [extChunks, writeChunksVec]
        | some cs => simp [extChunks]

theorem chain_some (cap : Nat) (rp : List Byte) (flags : Byte) (count : Nat) (a : Acd)
    (ext : Option (List (List Byte))) (hid : a.credId.length ≤ 65535) :
    authDataSerialize cap rp flags count (some (some a)) ext
      = writeChunksVec cap ([rp, [flags], be 4 count, a.aaguid, be 2 a.credId.length, a.credId, a.pubKey]
                             ++ extChunks ext) [] := by
  unfold authDataSerialize acdSerialize
  simp only [writeChunksVec, List.cons_append, List.nil_append]
  cases extendCap cap [] rp with
  | none => rfl
  | some b0 =>
    simp only []
    cases extendCap cap b0 [flags] with
    | none => rfl
    | some b1 =>
      simp only []
      cases extendCap cap b1 (be 4 count) with
      | none => rfl
      | some b2 =>
        simp only []
        cases extendCap cap b2 a.aaguid with
        | none => rfl
        | some b3 =>
          simp only []
          rw [if_neg (by omega)]
          cases extendCap cap b3 (be 2 a.credId.length) with
          | none => rfl
          | some b4 =>
            simp only []
            cases extendCap cap b4 a.credId with
            | none => rfl
            | some b5 =>
              simp only []
              cases extendCap cap b5 a.pubKey with
              | none => rfl
              | some b6 =>
                simp only []
                cases ext with
                | none => simp [extChunks, writeChunksVec]
                | some cs => simp [extChunks]

theorem chain_too_long (cap : Nat) (rp : List Byte) (flags : Byte) (count : Nat) (a : Acd)
    (ext : Option (List (List Byte))) (hid : 65535 < a.credId.length) :
    authDataSerialize cap rp flags count (some (some a)) ext = none := by
  unfold authDataSerialize acdSerialize
  cases extendCap cap [] rp with
  | none => rfl
  | some b0 =>
    simp only []
    cases extendCap cap b0 [flags] with
    | none => rfl
    | some b1 =>
      simp only []
      cases extendCap cap b1 (be 4 count) with
      | none => rfl
      | some b2 =>
        simp only []
        cases extendCap cap b2 a.aaguid with
        | none => rfl
        | some b3 =>
          simp only []
          rw [if_pos hid]

theorem chunks_result (cap : Nat) (cs : List (List Byte)) :
    writeChunksVec cap cs [] = if cs.flatten.length ≤ cap then some cs.flatten else none := by
  by_cases h : cs.flatten.length ≤ cap
  · rw [if_pos h, writeChunksVec_ok cap cs [] (by simpa using h)]; simp
  · rw [if_neg h, writeChunksVec_fail cap cs [] (by simp) (by rw [List.length_nil, Nat.zero_add]; omega)]

/-! #### property theorem -/

/-- For every relying-party hash, flag byte, counter below 2^32, optional attested credential
    data (any lengths), optional extension encoding delivered in any chunking: the serializer
    returns exactly the WebAuthn layout when the credential id length fits 16 bits and the total
    fits 676 bytes, and an error (no data at all) otherwise.  The model's result type has no panic
    outcome because the code has no panic-capable site on this path. -/
theorem layout (rp : List Byte) (flags : Byte) (count : Nat) (acd : Option Acd)
    (ext : Option (List (List Byte))) (hc : count < 4294967296) :
    authDataSerialize Gen.c_AUTHENTICATOR_DATA_LENGTH rp flags count (acd.map some) ext
      = Spec.authDataExpected rp flags count (acd.map fun a => (a.aaguid, a.credId, a.pubKey))
          (ext.map List.flatten) := by
  rw [ob_capacity]
  unfold Spec.authDataExpected Spec.authDataLayout
  cases acd with
  | none =>
    simp only [Option.map_none]
    rw [chain_none, chunks_result, be4_eq count hc]
    cases ext <;> simp [extChunks]
  | some a =>
    simp only [Option.map_some]
    by_cases hid : a.credId.length ≤ 65535
    · rw [chain_some _ _ _ _ _ _ hid, chunks_result, be4_eq count hc, be2_eq _ (by omega)]
      cases ext <;> simp [extChunks, hid, Nat.add_assoc]
    · rw [chain_too_long _ _ _ _ _ _ (by omega)]
      simp [hid]

/-- the GetAssertion flavour's `Some(NoAttestedCredentialData)` contributes nothing -/
theorem no_acd (cap : Nat) (rp : List Byte) (flags : Byte) (count : Nat) (ext : Option (List (List Byte))) :
    authDataSerialize cap rp flags count (some none) ext = authDataSerialize cap rp flags count none ext := by
  rfl

/-! non-vacuity -/
example : Spec.authDataExpected (List.replicate 32 7) 0x41 258
    (some (List.replicate 16 1, [9, 9], [0xA0])) none =
    some (List.replicate 32 7 ++ [0x41, 0, 0, 1, 2] ++ List.replicate 16 1 ++ [0, 2, 9, 9, 0xA0]) := by decide

end C07
