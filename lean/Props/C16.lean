import Props.Obligations
import Ctap.Extend
import Ctap.RoundTrip
/-
  C16 — cargo features only add members; they never change the wire format of the rest.
-/
namespace C16

def extRoles (l l' : List (String × Ty)) : Bool :=
  l.all (fun p => match l'.lookup p.1 with | some t' => ext p.2 t' | none => false)

/-! #### per-run obligations -/

/-- for every pair of configurations `c ⊆ c'` (all 27), every request / response / extension schema
    of `c'` is an extension of the one of `c`: existing members keep key, type, optionality, reader
    and position; new members are optional and skipped when unset; capacities only grow -/
theorem ob_ext_req (c c' : Cfg) (h : c.le c' = true) : extRoles (Gen.reqRoles c) (Gen.reqRoles c') = true := by
  rcases c with ⟨_|_, _|_, _|_⟩ <;> rcases c' with ⟨_|_, _|_, _|_⟩ <;> first | (simp [Cfg.le] at h; done) | decide +kernel

theorem ob_ext_resp (c c' : Cfg) (h : c.le c' = true) : extRoles (Gen.respRoles c) (Gen.respRoles c') = true := by
  rcases c with ⟨_|_, _|_, _|_⟩ <;> rcases c' with ⟨_|_, _|_, _|_⟩ <;> first | (simp [Cfg.le] at h; done) | decide +kernel

theorem ob_ext_adext (c c' : Cfg) (h : c.le c' = true) : extRoles (Gen.adExtRoles c) (Gen.adExtRoles c') = true := by
  rcases c with ⟨_|_, _|_, _|_⟩ <;> rcases c' with ⟨_|_, _|_, _|_⟩ <;> first | (simp [Cfg.le] at h; done) | decide +kernel

/-- nothing on the wire is gated on `std` or `arbitrary`; only the three wire features gate
    fields / constants -/
theorem ob_other_features : Gen.stdArbitrarySame = true ∧
    Gen.wireGatingFeatures.all (fun f => ["get-info-full", "large-blobs", "third-party-payment"].contains f) = true := by
  decide

/-! #### property theorems -/

theorem lookup_ext (l l' : List (String × Ty)) (n : String) (t t' : Ty) (h : extRoles l l' = true)
    (hl : (n, t) ∈ l) (hl' : l'.lookup n = some t') : ext t t' = true := by
  have := List.all_eq_true.mp h (n, t) hl
  simp only [hl'] at this
  exact this

/-- **Identical bytes.** A value expressible with the members of the smaller configuration is
    encoded identically in the larger one (new members unset). -/
theorem same_bytes (t t' : Ty) (v : Val) (he : ext t t' = true) (hv : wts t v = true) :
    encode t v = encode t' (embed t t' v) := ext_encode t t' v he hv

/-- **Equal values.** A message using only members of the smaller configuration (the encoding of
    a value of `t`) decodes in both configurations, to the value and to its embedding (the same
    members, the new ones absent). -/
theorem same_values (t t' : Ty) (v : Val) (r : Input) (he : ext t t' = true) (hv : wts t v = true)
    (hwf : wf t = true) (hwf' : wf t' = true) (hw : wt t v = true) :
    decode t (encode t v ++ r) = .ok (v, r) ∧ decode t' (encode t v ++ r) = .ok (embed t t' v, r) := by
  refine ⟨rt t hwf v r hw, ?_⟩
  rw [ext_encode t t' v he hv]
  exact rt t' hwf' _ r (ext_wt t t' v he hw)

/-- for *any* two configurations the statement goes through their intersection -/
theorem meet_le (c c' : Cfg) : (Cfg.mk (c.g && c'.g) (c.l && c'.l) (c.t && c'.t)).le c = true ∧
    (Cfg.mk (c.g && c'.g) (c.l && c'.l) (c.t && c'.t)).le c' = true := by
  rcases c with ⟨_|_, _|_, _|_⟩ <;> rcases c' with ⟨_|_, _|_, _|_⟩ <;> decide

/-! non-vacuity: the one capacity that grows, and one member that is added -/
example : ext (Spec.respLargeBlobs ⟨false, false, false⟩) (Spec.respLargeBlobs ⟨false, true, false⟩) = true := by decide
example : ext (Spec.mcExtensions ⟨false, false, false⟩) (Spec.mcExtensions ⟨false, false, true⟩) = true := by decide
/-- what the obligation rejects: a gated member inserted *before* an existing integer-keyed one -/
example : ext (Spec.indexed1 [Spec.iopt Spec.u32, Spec.iopt Spec.bool])
    (Spec.indexed1 [Spec.iopt Spec.u32, Spec.iopt Spec.u8, Spec.iopt Spec.bool]) = false := by decide

end C16
