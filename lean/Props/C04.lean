import Props.Obligations
import Ctap.NoPanic
/-
  C04 — decoding untrusted CTAP2 bytes never panics, aborts or hangs.

  What a theorem about the model can carry: `requestDeserialize` (and `decode`) are total,
  deterministic Lean functions, so they terminate and give the same result on the same bytes by
  construction; their result type has an explicit outcome for "a panic-capable or
  undefined-behaviour site of the implementation was reached", and the theorems below show that
  outcome is unreachable for every input of every length.  What the model cannot exhibit (stack
  depth, arithmetic wrap inside the dependencies, memory safety of code outside the modelled
  sites) is the correspondence check's part: debug-assertion / overflow-check builds under
  `catch_unwind`, exhaustive short inputs, mutation sweeps (see DESIGN.md).
-/
namespace C04

/-- the command switch is total over the byte: every byte is classified (0 invalid, 1 parameter-less,
    2 parameters follow, 3 vendor), and a parameter-bearing command has a schema all of whose
    truncating readers use the window 3 -/
def switchTotal (t : ReqTables) : Bool :=
  (List.range 256).all (fun b =>
    let k := reqKind t b
    k.1 == 0 || k.1 == 1 || k.1 == 3 ||
      (k.1 == 2 && (match t.reqTy k.2 with | some ty => safeTy ty | none => false)))

/-! #### per-run obligations -/
theorem ob_switch (c : Cfg) : switchTotal (Gen.reqTables c) = true := by
  rcases c with ⟨_|_, _|_, _|_⟩ <;> decide +kernel

/-- every request, response and extension schema — not only the request roots — is free of unsafe
    truncation windows -/
theorem ob_safe (c : Cfg) : (Gen.types c).all (fun p => safeTy p.2) = true := by
  rcases c with ⟨_|_, _|_, _|_⟩ <;> decide +kernel

theorem ob_window : Gen.truncateWindow = 3 := by decide

/-! #### property theorems -/

/-- **No input reaches a panic or undefined-behaviour site.**  For every configuration and every
    byte string — of any length, not only ≤ 7609 — the request decoder returns a request or an
    error status. -/
theorem never_panics (c : Cfg) (data : Input) : requestDeserialize (Gen.reqTables c) data ≠ .panic := by
  cases data with
  | nil => simp [requestDeserialize]
  | cons op rest =>
    have hsw := List.all_eq_true.mp (ob_switch c) op.toNat (List.mem_range.mpr (UInt8.toNat_lt op))
    simp only [requestDeserialize, requestBody]
    generalize reqKind (Gen.reqTables c) op.toNat = k at hsw
    simp only [Bool.or_eq_true, beq_iff_eq, Bool.and_eq_true] at hsw
    rcases hsw with ((h0 | h1) | h3) | ⟨h2, hty⟩
    · simp [h0]
    · simp [h1]
    · simp [h3]
    · simp only [h2, show (2 : Nat) ≠ 0 by decide, show (2 : Nat) ≠ 1 by decide,
        show (2 : Nat) ≠ 3 by decide, if_false, if_true]
      cases ht : (Gen.reqTables c).reqTy k.2 with
      | none => rw [ht] at hty; cases hty
      | some ty =>
        rw [ht] at hty
        simp only []
        cases hd : decode ty rest with
        | ok p => simp
        | error e =>
          cases e with
          | missing => simp [statusOf]
          | other => simp [statusOf]
          | panic => exact absurd hd (decode_never_panics ty hty rest)

/-- **Ok or error, nothing else.** -/
theorem ok_or_err (c : Cfg) (data : Input) :
    (∃ v p, requestDeserialize (Gen.reqTables c) data = .ok v p) ∨
    (∃ st, requestDeserialize (Gen.reqTables c) data = .err st) := by
  cases h : requestDeserialize (Gen.reqTables c) data with
  | ok v p => exact .inl ⟨v, p, rfl⟩
  | err st => exact .inr ⟨st, rfl⟩
  | panic => exact absurd h (never_panics c data)

/-- the same for `cbor_deserialize::<T>` on every public request / response / extension type -/
theorem type_never_panics (c : Cfg) (n : String) (t : Ty) (h : (n, t) ∈ Gen.types c) (inp : Input) :
    decode t inp ≠ .error .panic :=
  decode_never_panics t (List.all_eq_true.mp (ob_safe c) (n, t) h) inp

/-- the lossy readers on over-long input: the documented lossy result, not a crash
    (`Ctap/Utf8Thm.lean`): a name longer than its capacity is cut at the last character boundary
    within it -/
theorem lossy_name (cap : Nat) (s : List Byte) (hv : validUtf8 s = true) :
    truncateStr cap Gen.truncateWindow s = .ret (if s.length ≤ cap then s else s.take (floorChars s cap)) := by
  rw [ob_window]; exact truncateStr_valid cap s hv

/-- determinism is functionality of the model: equal bytes, equal result -/
theorem deterministic (c : Cfg) (a b : Input) (h : a = b) :
    requestDeserialize (Gen.reqTables c) a = requestDeserialize (Gen.reqTables c) b := by rw [h]

/-! non-vacuity: the panic outcome *is* reachable in the model when the look-back window is too
    short for a four-byte character — the theorem is not true by construction of the model -/
example : decode (.text (.cons ⟨[0x6e, 0x61, 0x6d, 0x65], [], false, .trunc 3 2, .skipNone⟩
            (.leaf (.str none)) .nil))
    [0xa1, 0x64, 0x6e, 0x61, 0x6d, 0x65, 0x64, 0xf0, 0x9f, 0x98, 0x80] = .error .panic := by rfl

end C04
