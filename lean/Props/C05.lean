import Props.Obligations
import Props.C11
import Props.C12
import Ctap.MsgThm
/-
  C05 — rejected requests report exactly the status code their fault calls for.
-/
namespace C05

/-! #### per-run obligations: `From<CtapMappingError> for Error` against the `Error` discriminants -/
theorem ob_status : Gen.statusInvalidCommand = 0x01 ∧ Gen.statusMissing = 0x14 ∧ Gen.statusOtherCbor = 0x12 := by
  decide

/-! #### 1. only three codes -/

/-- whatever the bytes, a rejection carries InvalidCommand, InvalidCbor or MissingParameter -/
theorem three_codes (c : Cfg) (bs : Input) (st : Nat)
    (h : requestDeserialize (Gen.reqTables c) bs = .err st) : st = 0x01 ∨ st = 0x12 ∨ st = 0x14 := by
  have hs := ob_status
  unfold requestDeserialize at h
  cases bs with
  | nil =>
    simp only [Gen.reqTables] at h
    cases h; right; left; exact hs.2.2
  | cons op rest =>
    simp only [requestBody] at h
    generalize (reqKind (Gen.reqTables c) op.toNat).1 = kind at h
    generalize (reqKind (Gen.reqTables c) op.toNat).2 = variant at h
    by_cases h0 : kind = 0
    · simp only [h0, if_true, Gen.reqTables] at h; cases h; left; exact hs.1
    · simp only [h0, if_false] at h
      by_cases h1 : kind = 1
      · simp [h1] at h
      · simp only [h1, if_false] at h
        by_cases h3 : kind = 3
        · simp [h3] at h
        · simp only [h3, if_false] at h
          by_cases h2 : kind = 2
          · simp only [h2, if_true] at h
            cases ht : (Gen.reqTables c).reqTy variant with
            | none => rw [ht] at h; cases h
            | some ty =>
              rw [ht] at h
              simp only [] at h
              cases hd : decode ty rest with
              | ok p => rw [hd] at h; cases h
              | error e =>
                rw [hd] at h
                cases e with
                | missing => simp only [statusOf, Gen.reqTables] at h; cases h; right; right; exact hs.2.1
                | other => simp only [statusOf, Gen.reqTables] at h; cases h; right; left; exact hs.2.2
                | panic => simp [statusOf] at h
          · simp [h2] at h

/-! #### 2. command byte ⇒ InvalidCommand (C11.invalid) -/
theorem bad_command (c : Cfg) (b : Byte) (rest : Input) (h : Spec.cmdClass b.toNat = .invalid) :
    requestDeserialize (Gen.reqTables c) (b :: rest) = .err 0x01 := C11.invalid c b rest h

/-! #### 4. the empty message -/
theorem empty_message (c : Cfg) : requestDeserialize (Gen.reqTables c) [] = .err 0x12 := by
  simp [requestDeserialize, Gen.reqTables, ob_status.2.2]

/-! #### how a parameter-map verdict becomes a status -/
theorem status_of_decode (c : Cfg) (cmd : Byte) (variant : String) (t : Ty) (rest : Input) (e : DErr)
    (hk : reqKind (Gen.reqTables c) cmd.toNat = (2, variant))
    (ht : (Gen.reqRoles c).lookup variant = some t) (hd : decode t rest = .error e) :
    requestDeserialize (Gen.reqTables c) (cmd :: rest) =
      (match e with | .missing => .err 0x14 | .other => .err 0x12 | .panic => .panic) := by
  simp only [requestDeserialize, hk, requestBody]
  have hrt : (Gen.reqTables c).reqTy variant = some t := ht
  simp only [show (2 : Nat) ≠ 0 by decide, show (2 : Nat) ≠ 1 by decide, show (2 : Nat) ≠ 3 by decide,
    if_false, if_true, hrt, hd]
  cases e <;> simp [statusOf, Gen.reqTables, ob_status.2.1, ob_status.2.2]

/-! #### 3. a missing required member ⇒ MissingParameter; a missing optional one ⇒ accepted -/

/-- an otherwise readable parameter map that lacks required member `i` (at any position; members
    in any order) is `missing`; never accepted -/
theorem missing_required (off : Nat) (fs : Fields) (ents : List Ent) (r : Input) (i : Nat) (f : FieldInfo) (t : Ty)
    (hnth : ∀ e ∈ ents, fs.nth e.idx = some (e.f, e.t)) (hreads : ∀ e ∈ ents, ReadsAs e.f e.t e.bytes e.out)
    (hnd : (ents.map (·.idx)).Nodup) (hoff : off + fs.length < 18446744073709551616)
    (hn : ents.length < 4294967296)
    (hi : fs.nth i = some (f, t)) (hreq : f.required = true) (habs : ∀ e ∈ ents, e.idx ≠ i) :
    decode (.indexed off fs)
        (encHead 5 ents.length ++ ((ents.map (fun e => keyIdx off e.idx e.f ++ e.bytes)).flatten ++ r))
      = .error .missing := by
  rw [indexed_message off fs ents r hnth hreads hnd hoff hn]
  have hlt := Fields.nth_lt fs i _ hi
  have hget := setAll_get ents (List.replicate fs.length none) i hnd (by
    intro e he; simpa using Fields.nth_lt fs e.idx _ (hnth e he))
  have hnone : ents.find? (fun e => e.idx == i) = none := by
    rw [List.find?_eq_none]; intro e he; simpa using habs e he
  rw [hnone] at hget
  have hun : slotSeen (List.replicate 0 none ++ setAll ents (List.replicate fs.length none)) (0 + i) = false := by
    simp only [List.replicate_zero, List.nil_append, Nat.zero_add, slotSeen, hget, List.getElem?_replicate, hlt, if_true]
  rw [requiredOk_false fs 0 i f t _ hi hreq hun]
  simp

/-- a nested structure that is itself `missing` makes the enclosing map `missing` (first fault);
    likewise any other nested fault keeps its kind -/
theorem nested_fault_ref : True := trivial   -- the statement is `C12.over_limit_in_message` with error kind `e`

/-! #### 6. a duplicated key ⇒ InvalidCbor -/
theorem duplicate_key (off : Nat) (fs : Fields) (pre : List Ent) (i : Nat) (f : FieldInfo) (t : Ty)
    (junk : List Byte) (m : Nat)
    (hnth_pre : ∀ e ∈ pre, fs.nth e.idx = some (e.f, e.t)) (hreads : ∀ e ∈ pre, ReadsAs e.f e.t e.bytes e.out)
    (hnd : (pre.map (·.idx)).Nodup) (hoff : off + fs.length < 18446744073709551616)
    (hn : pre.length + (m + 1) < 4294967296)
    (hnth : fs.nth i = some (f, t)) (hdup : ∃ e ∈ pre, e.idx = i) :
    decode (.indexed off fs)
        (encHead 5 (pre.length + (m + 1)) ++
          ((pre.map (fun e => keyIdx off e.idx e.f ++ e.bytes)).flatten ++ (keyIdx off i f ++ junk)))
      = .error .other := by
  have hall : ∀ st ∈ pre.map (fun e => fieldStep (keyIdx off) e.idx e.f e.bytes e.out),
      st.holds (decHead64 0) (fun k i s => decIdxEntry fs off 0 k i s) := by
    intro st hst
    simp only [List.mem_map] at hst
    obtain ⟨e, he, rfl⟩ := hst
    have hlt := Fields.nth_lt fs e.idx _ (hnth_pre e he)
    apply fieldStep_holds (decHead64 0) _ (keyIdx off) (fun i _ => off + i) e.idx e.f e.t
    · intro x; exact decHead64_encHead 0 (off + e.idx) x (by omega) (by omega)
    · intro inp s
      have := decIdx_lookup fs off 0 e.idx e.f e.t inp s (hnth_pre e he)
      simpa using this
    · exact hreads e he
  have hch := chain_fieldSteps (keyIdx off) pre (List.replicate fs.length none) hnd
    (fun e _ => slotSeen_replicate _ _)
  have hlt := Fields.nth_lt fs i _ hnth
  have hseen : slotSeen (setAll pre (List.replicate fs.length none)) i = true := by
    have hget := setAll_get pre (List.replicate fs.length none) i hnd (by
      intro e he; simpa using Fields.nth_lt fs e.idx _ (hnth_pre e he))
    obtain ⟨e, he, hei⟩ := hdup
    have hsome : (pre.find? (fun e => e.idx == i)).isSome = true := by
      rw [List.find?_isSome]; exact ⟨e, he, by simpa using hei⟩
    cases hf : pre.find? (fun e => e.idx == i) with
    | none => rw [hf] at hsome; cases hsome
    | some e' => rw [hf] at hget; simp [slotSeen, hget]
  have hstep := oneStep_dup (decHead64 0) (fun k i s => decIdxEntry fs off 0 k i s) (keyIdx off)
    (fun i _ => off + i) i f t
    (by intro x; exact decHead64_encHead 0 (off + i) x (by omega) (by omega))
    (by intro inp s; have := decIdx_lookup fs off 0 i f t inp s hnth; simpa using this)
    junk _ hseen
  have := indexed_steps_err off fs _ (keyIdx off i f) junk .other m hall hch (by simpa using hn)
    (by rw [runSteps_fieldSteps]; exact hstep)
  simp only [List.length_map, stepsBytes, List.map_map] at this
  exact this

/-! #### 7. non-minimal, indefinite-length and reserved heads ⇒ InvalidCbor at every reader -/

-- `decHead_reserved` (additional info 28–31) and `readArg_nonminimal` are in Ctap/FaultThm.lean

/-- 0x18 n with n < 24, 0x19 with n < 256, 0x1a with n < 65536, 0x1b with n < 2^32, for any major -/
theorem nonminimal_head (maxAi m : Nat) (k lo n : Nat) (ai : Nat) (rest : Input)
    (hm : m < 8) (hk : (ai = 24 ∧ k = 1 ∧ lo = 24) ∨ (ai = 25 ∧ k = 2 ∧ lo = 256) ∨
                       (ai = 26 ∧ k = 4 ∧ lo = 65536) ∨ (ai = 27 ∧ k = 8 ∧ lo = 4294967296))
    (hn : n < lo) (hn2 : n < 256 ^ k) :
    decHead maxAi m (UInt8.ofNat (m * 32 + ai) :: (be k n ++ rest)) = .error .other := by
  have hb : (UInt8.ofNat (m * 32 + ai)).toNat / 32 = m ∧ (UInt8.ofNat (m * 32 + ai)).toNat % 32 = ai := by
    rcases hk with ⟨h, _, _⟩ | ⟨h, _, _⟩ | ⟨h, _, _⟩ | ⟨h, _, _⟩ <;> subst h <;> simp <;> omega
  have hr := readArg_nonminimal k lo n rest hn2 hn
  simp only [decHead, hb.1, hb.2]
  rcases hk with ⟨h, hk', hl⟩ | ⟨h, hk', hl⟩ | ⟨h, hk', hl⟩ | ⟨h, hk', hl⟩ <;> subst h hk' hl <;>
    simp [hr] <;> intros <;> rfl

/-! #### 8./9. wrong major type, capacity, integer range ⇒ InvalidCbor (G-CAP, Ctap/CapThm.lean) -/
-- wrong_major_bytes / _str / _uint / _vec / _struct, bytes_exact, str_exact, vec_exact, uint_exact,
-- i32_exact: see Ctap/CapThm.lean (audited together with this module)

/-! non-vacuity -/
example : decHead32 0 [0x18, 0x05] = .error .other := by rfl      -- 5 written with a 1-byte argument
example : decHead32 4 [0x9f] = .error .other := by rfl            -- indefinite-length array

end C05
