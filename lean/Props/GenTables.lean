import Ctap.Request
import Ctap.Frame
import Ctap.Cfg
import Gen
/-
  Fixed glue between the generated data (`Gen.*`, regenerated from /repo on every run) and the
  generic model: the eight wire-affecting feature configurations and the request tables.
-/

namespace Gen

def reqRoles : Cfg → List (String × Ty)
  | ⟨false,false,false⟩ => S000.reqRoles | ⟨false,false,true⟩ => S001.reqRoles
  | ⟨false,true,false⟩ => S010.reqRoles | ⟨false,true,true⟩ => S011.reqRoles
  | ⟨true,false,false⟩ => S100.reqRoles | ⟨true,false,true⟩ => S101.reqRoles
  | ⟨true,true,false⟩ => S110.reqRoles | ⟨true,true,true⟩ => S111.reqRoles

def respRoles : Cfg → List (String × Ty)
  | ⟨false,false,false⟩ => S000.respRoles | ⟨false,false,true⟩ => S001.respRoles
  | ⟨false,true,false⟩ => S010.respRoles | ⟨false,true,true⟩ => S011.respRoles
  | ⟨true,false,false⟩ => S100.respRoles | ⟨true,false,true⟩ => S101.respRoles
  | ⟨true,true,false⟩ => S110.respRoles | ⟨true,true,true⟩ => S111.respRoles

def adExtRoles : Cfg → List (String × Ty)
  | ⟨false,false,false⟩ => S000.adExtRoles | ⟨false,false,true⟩ => S001.adExtRoles
  | ⟨false,true,false⟩ => S010.adExtRoles | ⟨false,true,true⟩ => S011.adExtRoles
  | ⟨true,false,false⟩ => S100.adExtRoles | ⟨true,false,true⟩ => S101.adExtRoles
  | ⟨true,true,false⟩ => S110.adExtRoles | ⟨true,true,true⟩ => S111.adExtRoles

def types : Cfg → List (String × Ty)
  | ⟨false,false,false⟩ => S000.types | ⟨false,false,true⟩ => S001.types
  | ⟨false,true,false⟩ => S010.types | ⟨false,true,true⟩ => S011.types
  | ⟨true,false,false⟩ => S100.types | ⟨true,false,true⟩ => S101.types
  | ⟨true,true,false⟩ => S110.types | ⟨true,true,true⟩ => S111.types

/-- the tables `Request::deserialize` is interpreted over, for one configuration -/
def reqTables (c : Cfg) : ReqTables :=
  { opTryFrom := Gen.opTryFrom, vendorArms := Gen.opTryFromVendorArms,
    vendorTryFrom := Gen.vendorTryFrom, opSwitch := Gen.opSwitch,
    emptyGuard := Gen.opSwitchEmptyGuard,
    statusInvalidCommand := Gen.statusInvalidCommand, statusMissing := Gen.statusMissing,
    statusOther := Gen.statusOtherCbor,
    reqTy := fun v => (Gen.reqRoles c).lookup v }

/-- `GetNextAssertion` shares the `GetAssertion` response type -/
def respRole (variant : String) : String :=
  if variant = "GetNextAssertion" then "GetAssertion" else variant

/-- the body schema of a response variant, `none` for parameter-less responses -/
def respBodyTy (c : Cfg) (variant : String) : Option (Option Ty) :=
  match Gen.respSwitch.lookup variant with
  | none => none
  | some false => some none
  | some true =>
    match (Gen.respRoles c).lookup (respRole variant) with
    | some t => some (some t)
    | none => none

/-- `ctap2::Response::serialize::<cap>` interpreted over the generated variant switch -/
def respSerialize (c : Cfg) (variant : String) (v : Val) (cap : Nat) (prior : List Byte) :
    Outcome (List Byte) :=
  match respBodyTy c variant with
  | none => .panic
  | some none => responseSerialize (UInt8.ofNat Gen.statusSerializeError) none cap prior
  | some (some t) => responseSerialize (UInt8.ofNat Gen.statusSerializeError) (some [encode t v]) cap prior

end Gen
