import Props.Obligations
import Spec.U2f
import Spec.Tables
import Ctap.U2fProg
/-
  C08 — U2F APDU parsing is total and follows the raw message format.
-/
namespace C08

/-! #### per-run obligation: the control-byte table extracted from the source -/
theorem ob_control : (List.range 256).all (fun b =>
    ((Gen.controlByteTryFrom.find? (fun (lo, hi, _) => lo ≤ b ∧ b ≤ hi)).bind (·.2.2)) == Spec.controlByteOf b) = true := by
  decide +kernel

/-- the body of `impl TryFrom<CommandView> for Request`, read statement by statement off the
    source (guards, early returns, the control-byte conversion, the indexed length byte, the
    `match ins` arms and the slices each request is built from), is the specified program; the
    error `ControlByte::try_from` propagates is the specified one -/
theorem ob_program : Gen.u2fProgram = Spec.u2fProgram ∧ Gen.controlByteErr = .incorrectDataParameter := by decide

/-- hence what the source's statements do (the interpreter of `Ctap/U2fProg.lean`, in which
    every indexing, slicing and `try_into().unwrap()` is an explicit outcome) is the model
    `ctap1Parse` the theorems below are about -/
theorem source_is_model (cla ins p1 : Nat) (data : List Byte) :
    runProgram Gen.u2fProgram Gen.controlByteTryFrom cla ins p1 data =
      ctap1Parse Gen.controlByteTryFrom cla ins p1 data := by
  rw [ob_program.1]; exact runProgram_spec _ cla ins p1 data

/-- none of iso7816's named instruction bytes is 1, 2 or 3, so the `_ => 0` quirk is harmless -/
theorem named_not_u2f : ∀ i ∈ namedInstructions, i ≠ 0 ∧ i ≠ 1 ∧ i ≠ 2 ∧ i ≠ 3 := by decide

theorem control_eq (p1 : Byte) :
    ((Gen.controlByteTryFrom.find? (fun (lo, hi, _) => lo ≤ p1.toNat ∧ p1.toNat ≤ hi)).bind (·.2.2))
      = Spec.controlByteOf p1.toNat := by
  have := forall_lt_of_all 256 _ ob_control p1.toNat (UInt8.toNat_lt p1)
  simpa using this

/-- **Totality and exactness.**  For every class, instruction, P1 byte and data of any length the
    conversion returns (never panics) and its answer is the specification's decision list. -/
theorem parse_spec (cla ins p1 : Byte) (data : List Byte) :
    ctap1Parse Gen.controlByteTryFrom cla.toNat ins.toNat p1.toNat data
      = .ret (Spec.u2fParse cla.toNat ins.toNat p1.toNat data) := by
  unfold ctap1Parse Spec.u2fParse
  simp only []
  by_cases hc : cla.toNat ≠ 0
  · simp [hc]
  · simp only [hc, if_false]
    by_cases hn : namedInstructions.contains ins.toNat = true
    · -- a named instruction: treated as 0, which is none of 1, 2, 3
      have hmem : ins.toNat ∈ namedInstructions := by simpa using hn
      have := named_not_u2f _ hmem
      simp [hmem, this.2.1, this.2.2.1, this.2.2.2]
    · simp only [hn, if_false, Bool.false_eq_true]
      by_cases h3 : ins.toNat = 3
      · simp [h3]
      · simp only [h3, if_false]
        by_cases h1 : ins.toNat = 1
        · simp only [h1, if_true]
          by_cases hl : data.length = 64
          · simp [hl, toArray32, List.length_take, List.length_drop]
            rw [List.take_of_length_le (by simp [List.length_drop]; omega)]
          · simp [hl]
        · simp only [h1, if_false]
          by_cases h2 : ins.toNat = 2
          · simp only [h2, if_true, control_eq p1]
            cases hcb : Spec.controlByteOf p1.toNat with
            | none =>
              have : (if p1.toNat = 0x07 then some 0 else if p1.toNat = 0x03 then some 1 else if p1.toNat = 0x08 then some 2 else none : Option Nat) = none := by
                simpa [Spec.controlByteOf] using hcb
              simp [this]
            | some cb =>
              have : (if p1.toNat = 0x07 then some 0 else if p1.toNat = 0x03 then some 1 else if p1.toNat = 0x08 then some 2 else none : Option Nat) = some cb := by
                simpa [Spec.controlByteOf] using hcb
              simp only [this]
              by_cases hlt : data.length < 65
              · simp [hlt]; omega
              · simp only [hlt, if_false]
                have hget : data[64]? = some (data.getD 64 0) := by
                  rw [List.getD_eq_getElem?_getD]
                  have : 64 < data.length := by omega
                  simp [List.getElem?_eq_getElem this]
                rw [hget]
                simp only []
                generalize (data.getD 64 0).toNat = k
                by_cases hlen : data.length = 65 + k
                · have e1 : toArray32 (data.take 32) = .ret (data.take 32) := by
                    simp [toArray32, List.length_take]; omega
                  have e2 : toArray32 ((data.drop 32).take 32) = .ret ((data.drop 32).take 32) := by
                    simp [toArray32, List.length_take, List.length_drop]; omega
                  have h65 : data.length ≥ 65 := by omega
                  simp only [e1, e2]
                  simp [hlen]
                · simp [hlen]
          · simp [h2]

/-- the class check takes precedence over everything else -/
theorem class_first (cla ins p1 : Byte) (data : List Byte) (h : cla.toNat ≠ 0) :
    ctap1Parse Gen.controlByteTryFrom cla.toNat ins.toNat p1.toNat data = .ret (.error .classNotSupported) := by
  rw [parse_spec]; simp [Spec.u2fParse, h]

/-- instruction 3 is Version regardless of parameters or data -/
theorem version_any (ins p1 : Byte) (data : List Byte) (h : ins.toNat = 3) :
    ctap1Parse Gen.controlByteTryFrom 0 ins.toNat p1.toNat data = .ret (.ok .version) := by
  have := parse_spec 0 ins p1 data
  simp [Spec.u2fParse, h] at this
  simpa [h] using this

/-! non-vacuity -/
example : Spec.u2fParse 0 2 7 (List.replicate 64 1 ++ [2, 9, 9]) =
    .ok (.authenticate 0 (List.replicate 32 1) (List.replicate 32 1) [9, 9]) := by rfl
example : Spec.u2fParse 0 2 7 (List.replicate 64 1 ++ [2, 9]) = .error .incorrectDataParameter := by rfl

end C08
