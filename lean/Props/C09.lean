import Props.Obligations
import Spec.U2f
import Props.C07
import Ctap.Layout
/-
  C09 — U2F responses are encoded in the raw message layout; appended to the caller's buffer
  without disturbing it; failure when they do not fit; never a panic.
-/
namespace C09

/-! #### per-run obligation: the three arms of `ctap1::Response::serialize`, statement by statement -/
theorem ob_layout : Gen.layoutU2fRegister = Spec.layoutU2fRegister ∧
    Gen.layoutU2fAuthenticate = Spec.layoutU2fAuthenticate ∧ Gen.layoutU2fVersion = Spec.layoutU2fVersion := by decide

/-- what the source's statements do is the model `u2fSerialize` the theorems below are about -/
theorem source_is_model (cap : Nat) (r : U2fResp) (buf : List Byte) :
    runFlat cap (u2fBytes r) (u2fNum r)
      (u2fLayout Gen.layoutU2fRegister Gen.layoutU2fAuthenticate Gen.layoutU2fVersion r) buf = u2fSerialize cap r buf := by
  rw [ob_layout.1, ob_layout.2.1, ob_layout.2.2]; exact runFlat_u2f cap r buf

theorem appendChain_ok (cap : Nat) (cs : List (List Byte)) (buf : List Byte)
    (h : buf.length + cs.flatten.length ≤ cap) : appendChain cap cs buf = (buf ++ cs.flatten, true) := by
  induction cs generalizing buf with
  | nil => simp [appendChain]
  | cons c cs ih =>
    rw [List.flatten_cons, List.length_append] at h
    simp only [appendChain, extendCap]
    rw [if_pos (by omega)]
    simp only []
    rw [ih (buf ++ c) (by rw [List.length_append]; omega)]
    simp

theorem appendChain_fail (cap : Nat) (cs : List (List Byte)) (buf : List Byte)
    (hb : buf.length ≤ cap) (h : cap < buf.length + cs.flatten.length) :
    (appendChain cap cs buf).2 = false ∧ buf <+: (appendChain cap cs buf).1 ∧ (appendChain cap cs buf).1.length ≤ cap := by
  induction cs generalizing buf with
  | nil => simp at h; omega
  | cons c cs ih =>
    rw [List.flatten_cons, List.length_append] at h
    simp only [appendChain, extendCap]
    by_cases hc : buf.length + c.length ≤ cap
    · rw [if_pos hc]; simp only []
      have := ih (buf ++ c) (by rw [List.length_append]; omega) (by rw [List.length_append]; omega)
      refine ⟨this.1, ?_, this.2.2⟩
      exact List.IsPrefix.trans (List.prefix_append buf c) this.2.1
    · rw [if_neg hc]; simp [hb]

/-- the parts the serializer appends are exactly the specified layout -/
theorem parts_flatten (r : U2fResp) (hcount : ∀ p c s, r = .authenticate p c s → c < 4294967296) :
    (u2fParts r).flatten = Spec.u2fResponseBytes r := by
  cases r with
  | register h pk kh cert sig => simp [u2fParts, Spec.u2fResponseBytes]
  | authenticate p c s =>
    have := hcount p c s rfl
    simp [u2fParts, Spec.u2fResponseBytes, C07.be4_eq c this]
  | version v => simp [u2fParts, Spec.u2fResponseBytes]

/-- **Layout and all-or-failure.**  For every response, buffer content `buf` and capacity:
    success iff `buf.length + |layout| ≤ cap`, and then the buffer is `buf ++ layout`;
    otherwise the call reports failure and `buf` is still a prefix of the buffer. -/
theorem serialize_spec (cap : Nat) (r : U2fResp) (buf : List Byte) (hb : buf.length ≤ cap)
    (hcount : ∀ p c s, r = .authenticate p c s → c < 4294967296) :
    (buf.length + (Spec.u2fResponseBytes r).length ≤ cap →
        u2fSerialize cap r buf = (buf ++ Spec.u2fResponseBytes r, true)) ∧
    (cap < buf.length + (Spec.u2fResponseBytes r).length →
        (u2fSerialize cap r buf).2 = false ∧ buf <+: (u2fSerialize cap r buf).1) := by
  unfold u2fSerialize
  rw [← parts_flatten r hcount]
  constructor
  · intro h; exact appendChain_ok cap _ buf h
  · intro h
    have := appendChain_fail cap _ buf hb h
    exact ⟨this.1, this.2.1⟩

/-- the key-handle length byte is the key-handle length (`Bytes<255>`: at most 255) -/
theorem key_handle_len (kh : List Byte) (h : kh.length ≤ 255) : (UInt8.ofNat kh.length).toNat = kh.length := by
  simp; omega

/-- `register::Response::new`: 0x04 ‖ x ‖ y, never a panic for coordinates of at most 32 bytes
    (the `Bytes<32>` fields of the COSE key), and exactly 65 bytes iff both are 32 bytes long -/
theorem register_public_key (x y : List Byte) (hx : x.length ≤ 32) (hy : y.length ≤ 32) :
    registerPublicKey x y = .ret (0x04 :: x ++ y) ∧
    ((0x04 :: x ++ y).length = 65 ↔ (x.length = 32 ∧ y.length = 32)) := by
  unfold registerPublicKey
  simp only [extendCap, List.length_nil, List.length_cons, Nat.zero_add]
  rw [if_pos (by omega)]
  simp only [List.nil_append]
  rw [if_pos (by simp; omega)]
  simp only []
  rw [if_pos (by simp; omega)]
  constructor
  · simp
  · simp; omega

/-! non-vacuity -/
example : Spec.u2fResponseBytes (.authenticate 1 258 [0x30, 0x00]) = [1, 0, 0, 1, 2, 0x30, 0x00] := by decide

end C09
