import Props.Obligations
import Ctap.Utf8Thm
import Ctap.LeafThm
import Ctap.MsgThm
/-
  C13 — over-long names are cut on a character boundary; over-long icons are dropped.
-/
namespace C13

/-! #### per-run obligations: where the lossy readers sit, with which capacities and window -/
def sites (c : Cfg) : List (Option Ty × Ty) := [
  (((Gen.reqRoles c).lookup "MakeCredential").bind (walkTy · [1]), Spec.rpEntity),
  (((Gen.reqRoles c).lookup "MakeCredential").bind (walkTy · [2]), Spec.userEntity),
  (((Gen.reqRoles c).lookup "CredentialManagement").bind (walkTy · [1, 2]), Spec.userEntity),
  (((Gen.respRoles c).lookup "CredentialManagement").bind (walkTy · [2]), Spec.rpEntity),
  (((Gen.respRoles c).lookup "CredentialManagement").bind (walkTy · [5]), Spec.userEntity),
  (((Gen.respRoles c).lookup "GetAssertion").bind (walkTy · [3]), Spec.userEntity)]

theorem ob_sites (c : Cfg) : (sites c).all (fun p => p.1 == some p.2) = true := by
  rcases c with ⟨_|_, _|_, _|_⟩ <;> decide

/-- the scan window of `floor_char_boundary` extracted from the source (`saturating_sub(3)`) -/
theorem ob_window : Gen.truncateWindow = 3 := by decide

/-! #### names -/

/-- the specified result of truncation -/
def truncated (cap : Nat) (s : List Byte) : List Byte :=
  if s.length ≤ cap then s else s.take (floorChars s cap)

/-- **Names.** For every well-formed text of any length the name reader succeeds — no panic, no
    `unwrap_unchecked(None)` — and yields `truncated 64 s`. -/
theorem name_reader (s : List Byte) (hv : validUtf8 s = true) :
    Mode.apply (.trunc 64 3) (.text s) = .ok (some (.text (truncated 64 s))) := by
  simp only [Mode.apply, truncateStr_valid 64 s hv, truncated]

/-- the truncated name is a prefix, at most 64 bytes, well-formed, made of whole characters, and
    no longer whole-character prefix fits in 64 bytes; a name that fits is kept unchanged -/
theorem truncated_spec (cap : Nat) (s : List Byte) (hv : validUtf8 s = true) :
    (truncated cap s) <+: s ∧ (truncated cap s).length ≤ cap ∧ validUtf8 (truncated cap s) = true ∧
    (s.length ≤ cap → truncated cap s = s) ∧
    (∀ j, CharEnd s j → j ≤ cap → j ≤ (truncated cap s).length) := by
  unfold truncated
  by_cases hfit : s.length ≤ cap
  · simp only [if_pos hfit]
    refine ⟨List.prefix_refl s, hfit, hv, fun _ => trivial, ?_⟩
    intro j hj _
    exact (hj.valid hv).1
  · simp only [if_neg hfit]
    have hce := floorChars_charEnd s cap
    have hle := floorChars_le s cap
    obtain ⟨hjl, ht, _⟩ := hce.valid hv
    refine ⟨List.take_prefix _ s, by simp [List.length_take]; omega, ht, fun h => absurd h hfit, ?_⟩
    intro j hj hjc
    have := floorChars_max hj cap hjc
    simp [List.length_take]; omega

/-- inside the struct decoder: the name member's slot receives the truncated text -/
theorem name_field (key : List Byte) (ser : SerMode) (i : Nat) (s r : Input) (slots : DSlots)
    (hv : validUtf8 s = true) (hl : s.length < 4294967296) (hun : slotSeen slots i = false) :
    fieldValue (fun x => decode (.leaf (.str none)) x) ⟨key, [], false, .trunc 64 3, ser⟩ i (encText s ++ r) slots
      = .ok (slots.set i (some (some (.text (truncated 64 s)))), r) := by
  unfold fieldValue
  have hhead : (encText s ++ r).head? ≠ some 0xf6 := by
    unfold encText encHead
    simp only []
    repeat' split
    all_goals simp
    all_goals (intro h; have := congrArg UInt8.toNat h; simp at this; omega)
  simp only [hun, Bool.false_eq_true, if_false, Mode.acceptsNull, Bool.true_and, decide_eq_true_eq, hhead]
  simp only [decode, decLeaf, decText_encText s r hl, hv, if_true, name_reader s hv]

/-! #### G-PREFIX at message level: an over-long name changes nothing else

  The statements above are per member.  Composed with the any-order map-loop theorems
  (`text_message`, `indexed_message`) they give the whole-message form: a user / relying-party
  entity — and a request containing it — in which a name of *any* length appears decodes to exactly
  what the same message decodes to when the name is cut beforehand.  Members before and after the
  name, unknown members, their order: all unaffected. -/

theorem truncated_idem (cap : Nat) (s : List Byte) (hv : validUtf8 s = true) :
    truncated cap (truncated cap s) = truncated cap s := by
  have h := (truncated_spec cap s hv).2.1
  generalize truncated cap s = t at h ⊢
  unfold truncated
  simp only [if_pos h]

theorem truncated_valid (cap : Nat) (s : List Byte) (hv : validUtf8 s = true) :
    validUtf8 (truncated cap s) = true := (truncated_spec cap s hv).2.2.1

/-- the name member's bytes are read as the truncated text (`name_field` as a `ReadsAs` fact) -/
theorem name_readsAs (key : List Byte) (ser : SerMode) (s : List Byte)
    (hv : validUtf8 s = true) (hl : s.length < 4294967296) :
    ReadsAs ⟨key, [], false, .trunc 64 3, ser⟩ (.leaf (.str none)) (encText s) (some (.text (truncated 64 s))) :=
  fun i x cur h => name_field key ser i s x cur hv hl h

/-- the name member on the wire, holding the text `s` -/
def nameEnt (i : Nat) (key : List Byte) (ser : SerMode) (s : List Byte) : Ent :=
  ⟨i, ⟨key, [], false, .trunc 64 3, ser⟩, .leaf (.str none), encText s, some (.text (truncated 64 s))⟩

theorem knownOf_append (a b : List TEnt) : knownOf (a ++ b) = knownOf a ++ knownOf b := by
  induction a with
  | nil => rfl
  | cons e rest ih => cases e <;> simp [knownOf, ih]

theorem setAll_eq_foldl (ents : List Ent) (st : DSlots) :
    setAll ents st = (ents.map (fun e => (e.idx, e.out))).foldl (fun s p => s.set p.1 (some p.2)) st := by
  simp only [setAll, List.foldl_map]

theorem setAll_congr (e₁ e₂ : List Ent) (st : DSlots)
    (h : e₁.map (fun e => (e.idx, e.out)) = e₂.map (fun e => (e.idx, e.out))) : setAll e₁ st = setAll e₂ st := by
  rw [setAll_eq_foldl, setAll_eq_foldl, h]

/-- the entries of an entity map with the name member somewhere in it -/
def withName (pre post : List TEnt) (i : Nat) (key : List Byte) (ser : SerMode) (s : List Byte) : List TEnt :=
  pre ++ [.known (nameEnt i key ser s)] ++ post

theorem withName_length (pre post : List TEnt) (i : Nat) (key : List Byte) (ser : SerMode) (s : List Byte) :
    (withName pre post i key ser s).length = pre.length + 1 + post.length := by
  simp [withName]; omega

theorem withName_known_proj (pre post : List TEnt) (i : Nat) (key : List Byte) (ser : SerMode) (s : List Byte)
    (hv : validUtf8 s = true) :
    (knownOf (withName pre post i key ser (truncated 64 s))).map (fun e => (e.idx, e.out)) =
    (knownOf (withName pre post i key ser s)).map (fun e => (e.idx, e.out)) := by
  simp only [withName, knownOf_append, knownOf, List.map_append, List.map_cons, List.map_nil, nameEnt,
    truncated_idem 64 s hv]

/-- **An entity with a name of any length** (members in any order, unknown members interleaved):
    the result is given by the known members, the name's slot holding the truncated text. -/
theorem entity_with_long_name (fs : Fields) (pre post : List TEnt) (i : Nat) (key : List Byte) (ser : SerMode)
    (s r : Input) (hv : validUtf8 s = true) (hl : s.length < 4294967296)
    (hnth : fs.nth i = some (⟨key, [], false, .trunc 64 3, ser⟩, .leaf (.str none)))
    (hkv : validUtf8 key = true) (hkl : key.length < 4294967296)
    (hfresh : keyFreshBefore ⟨key, [], false, .trunc 64 3, ser⟩ fs i = true)
    (hknown : ∀ e ∈ knownOf (pre ++ post), fs.nth e.idx = some (e.f, e.t) ∧ ReadsAs e.f e.t e.bytes e.out ∧
        validUtf8 e.f.key = true ∧ e.f.key.length < 4294967296 ∧ keyFreshBefore e.f fs e.idx = true)
    (hunk : ∀ n x, TEnt.unknown n x ∈ pre ++ post → validUtf8 n = true ∧ n.length < 4294967296 ∧
        okItem x = true ∧ matchesAny fs 0 (.name n) = false)
    (hnd : ((knownOf (withName pre post i key ser s)).map (·.idx)).Nodup)
    (hn : pre.length + 1 + post.length < 4294967296) :
    decode (.text fs) (encHead 5 (pre.length + 1 + post.length) ++
        (stepsBytes ((withName pre post i key ser s).map TEnt.step) ++ r)) =
      (if requiredOk fs (setAll (knownOf (withName pre post i key ser s)) (List.replicate fs.length none)) then
         .ok (.record ((setAll (knownOf (withName pre post i key ser s)) (List.replicate fs.length none)).map Option.join), r)
       else .error .missing) := by
  have h := text_message fs (withName pre post i key ser s) r ?_ ?_ hnd (by rw [withName_length]; exact hn)
  · rw [withName_length] at h; exact h
  · intro e he
    simp only [withName, knownOf_append, knownOf, List.mem_append, List.mem_cons, List.not_mem_nil, or_false] at he
    rcases he with (he | rfl) | he
    · exact hknown e (by simp [knownOf_append, he])
    · exact ⟨hnth, name_readsAs key ser s hv hl, hkv, hkl, hfresh⟩
    · exact hknown e (by simp [knownOf_append, he])
  · intro n x hx
    simp only [withName, List.mem_append, List.mem_cons, List.not_mem_nil, or_false, reduceCtorEq] at hx
    rcases hx with hx | hx
    · exact hunk n x (by simp [hx])
    · exact hunk n x (by simp [hx])

/-- **G-PREFIX for an entity.**  Decoding the entity with the name `s` gives exactly what decoding
    it with the name cut beforehand gives — whatever precedes or follows the name. -/
theorem long_name_changes_nothing_else (fs : Fields) (pre post : List TEnt) (i : Nat) (key : List Byte) (ser : SerMode)
    (s r : Input) (hv : validUtf8 s = true) (hl : s.length < 4294967296)
    (hnth : fs.nth i = some (⟨key, [], false, .trunc 64 3, ser⟩, .leaf (.str none)))
    (hkv : validUtf8 key = true) (hkl : key.length < 4294967296)
    (hfresh : keyFreshBefore ⟨key, [], false, .trunc 64 3, ser⟩ fs i = true)
    (hknown : ∀ e ∈ knownOf (pre ++ post), fs.nth e.idx = some (e.f, e.t) ∧ ReadsAs e.f e.t e.bytes e.out ∧
        validUtf8 e.f.key = true ∧ e.f.key.length < 4294967296 ∧ keyFreshBefore e.f fs e.idx = true)
    (hunk : ∀ n x, TEnt.unknown n x ∈ pre ++ post → validUtf8 n = true ∧ n.length < 4294967296 ∧
        okItem x = true ∧ matchesAny fs 0 (.name n) = false)
    (hnd : ((knownOf (withName pre post i key ser s)).map (·.idx)).Nodup)
    (hn : pre.length + 1 + post.length < 4294967296) :
    decode (.text fs) (encHead 5 (pre.length + 1 + post.length) ++
        (stepsBytes ((withName pre post i key ser s).map TEnt.step) ++ r)) =
    decode (.text fs) (encHead 5 (pre.length + 1 + post.length) ++
        (stepsBytes ((withName pre post i key ser (truncated 64 s)).map TEnt.step) ++ r)) := by
  have hv' := truncated_valid 64 s hv
  have hl' : (truncated 64 s).length < 4294967296 := by
    have := (truncated_spec 64 s hv).2.1; omega
  have hproj := withName_known_proj pre post i key ser s hv
  have hidx : (knownOf (withName pre post i key ser (truncated 64 s))).map (·.idx) =
      (knownOf (withName pre post i key ser s)).map (·.idx) := by
    have := congrArg (List.map Prod.fst) hproj
    simpa [List.map_map, Function.comp_def] using this
  rw [entity_with_long_name fs pre post i key ser s r hv hl hnth hkv hkl hfresh hknown hunk hnd hn,
      entity_with_long_name fs pre post i key ser (truncated 64 s) r hv' hl' hnth hkv hkl hfresh hknown hunk
        (by rw [hidx]; exact hnd) hn,
      setAll_congr _ _ _ hproj]

/-- a member read by its type's own reader (`Mode.plain`): what the type's decoder makes of the bytes -/
theorem readsAs_plain_of_decode (f : FieldInfo) (t : Ty) (b : List Byte) (v : Val) (hm : f.mode = .plain)
    (h : ∀ x, decode t (b ++ x) = .ok (v, x)) : ReadsAs f t b (some v) := by
  intro i x cur hun
  unfold fieldValue
  simp only [hun, hm, Mode.acceptsNull, Bool.false_and, Bool.false_eq_true, if_false, h, Mode.apply]

/-- bytes of an entity map holding the name `s` -/
def entityBytes (pre post : List TEnt) (i : Nat) (key : List Byte) (ser : SerMode) (s : List Byte) : List Byte :=
  encHead 5 (pre.length + 1 + post.length) ++ stepsBytes ((withName pre post i key ser s).map TEnt.step)

/-- the entity as a member (index `j`) of an integer-keyed request map -/
def entityEnt (j : Nat) (uf : FieldInfo) (fs : Fields) (pre post : List TEnt) (i : Nat) (key : List Byte) (ser : SerMode)
    (s : List Byte) : Ent :=
  ⟨j, uf, .text fs, entityBytes pre post i key ser s,
   some (.record ((setAll (knownOf (withName pre post i key ser s)) (List.replicate fs.length none)).map Option.join))⟩

/-- **G-PREFIX for a whole request.**  A parameter map (MakeCredential, the credential-management
    parameters, …) whose entity member carries a name of any length — the entity complete, its
    members and the request's parameters in any order — decodes to exactly what the same request
    decodes to with the name cut beforehand. -/
theorem request_with_long_name (off : Nat) (rfs : Fields) (rpre rpost : List Ent) (j : Nat) (uf : FieldInfo)
    (fs : Fields) (pre post : List TEnt) (i : Nat) (key : List Byte) (ser : SerMode)
    (s r : Input) (hv : validUtf8 s = true) (hl : s.length < 4294967296)
    (hm : uf.mode = .plain) (hnthU : rfs.nth j = some (uf, .text fs))
    (hnth : fs.nth i = some (⟨key, [], false, .trunc 64 3, ser⟩, .leaf (.str none)))
    (hkv : validUtf8 key = true) (hkl : key.length < 4294967296)
    (hfresh : keyFreshBefore ⟨key, [], false, .trunc 64 3, ser⟩ fs i = true)
    (hknown : ∀ e ∈ knownOf (pre ++ post), fs.nth e.idx = some (e.f, e.t) ∧ ReadsAs e.f e.t e.bytes e.out ∧
        validUtf8 e.f.key = true ∧ e.f.key.length < 4294967296 ∧ keyFreshBefore e.f fs e.idx = true)
    (hunk : ∀ n x, TEnt.unknown n x ∈ pre ++ post → validUtf8 n = true ∧ n.length < 4294967296 ∧
        okItem x = true ∧ matchesAny fs 0 (.name n) = false)
    (hnd : ((knownOf (withName pre post i key ser s)).map (·.idx)).Nodup)
    (hn : pre.length + 1 + post.length < 4294967296)
    (hcomplete : requiredOk fs (setAll (knownOf (withName pre post i key ser s)) (List.replicate fs.length none)) = true)
    (hnthR : ∀ e ∈ rpre ++ rpost, rfs.nth e.idx = some (e.f, e.t))
    (hreadsR : ∀ e ∈ rpre ++ rpost, ReadsAs e.f e.t e.bytes e.out)
    (hndR : ((rpre ++ [entityEnt j uf fs pre post i key ser s] ++ rpost).map (·.idx)).Nodup)
    (hoff : off + rfs.length < 18446744073709551616)
    (hnR : (rpre ++ [entityEnt j uf fs pre post i key ser s] ++ rpost).length < 4294967296) :
    decode (.indexed off rfs)
        (encHead 5 (rpre ++ [entityEnt j uf fs pre post i key ser s] ++ rpost).length ++
          (((rpre ++ [entityEnt j uf fs pre post i key ser s] ++ rpost).map (fun e => keyIdx off e.idx e.f ++ e.bytes)).flatten ++ r)) =
    decode (.indexed off rfs)
        (encHead 5 (rpre ++ [entityEnt j uf fs pre post i key ser (truncated 64 s)] ++ rpost).length ++
          (((rpre ++ [entityEnt j uf fs pre post i key ser (truncated 64 s)] ++ rpost).map (fun e => keyIdx off e.idx e.f ++ e.bytes)).flatten ++ r)) := by
  have hv' := truncated_valid 64 s hv
  have hl' : (truncated 64 s).length < 4294967296 := by
    have := (truncated_spec 64 s hv).2.1; omega
  have hproj := withName_known_proj pre post i key ser s hv
  have hidx : (knownOf (withName pre post i key ser (truncated 64 s))).map (·.idx) =
      (knownOf (withName pre post i key ser s)).map (·.idx) := by
    have := congrArg (List.map Prod.fst) hproj
    simpa [List.map_map, Function.comp_def] using this
  have hset := setAll_congr _ _ (List.replicate fs.length none) hproj
  -- the entity member is read as the same record in both messages
  have hreadE : ∀ s', validUtf8 s' = true → s'.length < 4294967296 →
      ((knownOf (withName pre post i key ser s')).map (·.idx)).Nodup →
      requiredOk fs (setAll (knownOf (withName pre post i key ser s')) (List.replicate fs.length none)) = true →
      ReadsAs uf (.text fs) (entityBytes pre post i key ser s') (entityEnt j uf fs pre post i key ser s').out := by
    intro s' hvs hls hnds hreq
    apply readsAs_plain_of_decode uf (.text fs) _ _ hm
    intro x
    have := entity_with_long_name fs pre post i key ser s' x hvs hls hnth hkv hkl hfresh hknown hunk hnds hn
    simp only [hreq, if_true] at this
    simpa only [entityBytes, List.append_assoc] using this
  have hout : (entityEnt j uf fs pre post i key ser (truncated 64 s)).out = (entityEnt j uf fs pre post i key ser s).out := by
    simp only [entityEnt, hset]
  have hmsg : ∀ s', validUtf8 s' = true → s'.length < 4294967296 →
      ((knownOf (withName pre post i key ser s')).map (·.idx)).Nodup →
      requiredOk fs (setAll (knownOf (withName pre post i key ser s')) (List.replicate fs.length none)) = true →
      ((rpre ++ [entityEnt j uf fs pre post i key ser s'] ++ rpost).map (·.idx)).Nodup →
      (rpre ++ [entityEnt j uf fs pre post i key ser s'] ++ rpost).length < 4294967296 → _ :=
    fun s' hvs hls hnds hreq hndr hnr =>
      indexed_message off rfs (rpre ++ [entityEnt j uf fs pre post i key ser s'] ++ rpost) r
        (by intro e he
            simp only [List.mem_append, List.mem_cons, List.not_mem_nil, or_false] at he
            rcases he with (he | rfl) | he
            · exact hnthR e (by simp [he])
            · exact hnthU
            · exact hnthR e (by simp [he]))
        (by intro e he
            simp only [List.mem_append, List.mem_cons, List.not_mem_nil, or_false] at he
            rcases he with (he | rfl) | he
            · exact hreadsR e (by simp [he])
            · exact hreadE s' hvs hls hnds hreq
            · exact hreadsR e (by simp [he]))
        hndr hoff hnr
  have hidxR : (rpre ++ [entityEnt j uf fs pre post i key ser (truncated 64 s)] ++ rpost).map (·.idx) =
      (rpre ++ [entityEnt j uf fs pre post i key ser s] ++ rpost).map (·.idx) := by
    simp [entityEnt]
  have hprojR : (rpre ++ [entityEnt j uf fs pre post i key ser (truncated 64 s)] ++ rpost).map (fun e => (e.idx, e.out)) =
      (rpre ++ [entityEnt j uf fs pre post i key ser s] ++ rpost).map (fun e => (e.idx, e.out)) := by
    simp only [List.map_append, List.map_cons, List.map_nil, hout]
    simp [entityEnt]
  rw [hmsg s hv hl hnd hcomplete hndR hnR,
      hmsg (truncated 64 s) hv' hl' (by rw [hidx]; exact hnd) (by rw [hset]; exact hcomplete)
        (by rw [hidxR]; exact hndR) (by simpa using hnR),
      setAll_congr _ _ _ hprojR]

/-! non-vacuity of the message-level statements: a user entity `{id: h'0102', name: 63×"a" "é" "b", zz: 1}`
    (the cut at 64 falls inside "é") meets every hypothesis of `long_name_changes_nothing_else` -/
section NonVacuous
open Spec
private def ufs : Fields := Fields.ofList [
  treq "id" (bstrMax 64),
  (⟨ascii "icon", [], false, .skipLong 128, .skipNone⟩, tstr),
  truncName "name",
  truncName "displayName"]
private def longName : List Byte := List.replicate 63 0x61 ++ [0xc3, 0xa9, 0x62]
private def idEnt : Ent :=
  ⟨0, (treq "id" (bstrMax 64)).1, bstrMax 64, encode (bstrMax 64) (.bytes [1, 2]), some (.bytes [1, 2])⟩
private theorem idEnt_reads : ReadsAs idEnt.f idEnt.t idEnt.bytes idEnt.out :=
  readsAs_encode idEnt.f idEnt.t (leaf_bytes_rt (some 64)) (by decide) (some (.bytes [1, 2])) (by constructor <;> decide)
example : Spec.userEntity = .text ufs := rfl
example : decode Spec.userEntity (encHead 5 3 ++
      (stepsBytes ((withName [.known idEnt] [.unknown (ascii "zz") (.atom 0 1 [])] 2 (ascii "name") .skipNone longName).map TEnt.step) ++ [])) =
    decode Spec.userEntity (encHead 5 3 ++
      (stepsBytes ((withName [.known idEnt] [.unknown (ascii "zz") (.atom 0 1 [])] 2 (ascii "name") .skipNone (truncated 64 longName)).map TEnt.step) ++ [])) :=
  long_name_changes_nothing_else ufs [.known idEnt] [.unknown (ascii "zz") (.atom 0 1 [])] 2 (ascii "name") .skipNone longName []
    (by decide) (by decide) (by decide) (by decide) (by decide) (by decide)
    (by intro e he
        simp only [List.cons_append, List.nil_append, knownOf, List.mem_cons, List.not_mem_nil, or_false] at he
        subst he
        exact ⟨by decide, idEnt_reads, by decide, by decide, by decide⟩)
    (by intro n x hx
        simp only [List.cons_append, List.nil_append, List.mem_cons, reduceCtorEq, false_or, List.not_mem_nil, or_false,
          TEnt.unknown.injEq] at hx
        obtain ⟨rfl, rfl⟩ := hx
        exact ⟨by decide, by decide, by decide, by decide⟩)
    (by decide) (by decide)
end NonVacuous

/-! #### icons -/

/-- **User icon.** At most 128 bytes: kept verbatim; longer: reported absent, never an error. -/
theorem user_icon (s : List Byte) :
    Mode.apply (.skipLong 128) (.text s) = .ok (if s.length ≤ 128 then some (.text s) else none) := by
  simp only [Mode.apply]
  split <;> rfl

/-- **Relying-party icon / url.** Any well-formed text of any length is accepted and discarded. -/
theorem rp_icon (s r : Input) (hl : s.length < 4294967296) (hv : validUtf8 s = true) :
    decLeaf .icon (encText s ++ r) = .ok (.unit, r) := by
  simp only [decLeaf, decText_encText s r hl, hv, if_true]

/-- **Ill-formed UTF-8 is rejected** by every text reader (names, icons, ids) -/
theorem invalid_rejected (s r : Input) (hl : s.length < 4294967296) (hv : validUtf8 s = false) :
    decText (encText s ++ r) = .error .other := by
  rw [decText_encText s r hl, hv]; rfl

/-! non-vacuity: the WebAuthn §6.4.1 example "ag̈" = 61 67 CC 88 -/
example : truncated 3 [0x61, 0x67, 0xcc, 0x88] = [0x61, 0x67] := by
  have h := truncateStr_valid 3 [0x61, 0x67, 0xcc, 0x88] (by decide)
  have h2 : truncateStr 3 3 [0x61, 0x67, 0xcc, 0x88] = .ret [0x61, 0x67] := by decide
  rw [h2] at h; exact (Outcome.ret.inj h).symm
example : validUtf8 [0x61, 0x67, 0xcc, 0x88] = true := by decide
/-- with a window of 2 the scan would hit `unwrap_unchecked(None)` on a 4-byte character -/
example : floorCharBoundary 2 [0x61, 0xf0, 0x9f, 0x98, 0x80, 0x62] 4 = .ub := by decide

end C13
