import Props.Obligations
import Ctap.Utf8Thm
import Ctap.LeafThm
/-
  C13 — over-long names are cut on a character boundary; over-long icons are dropped.
-/
namespace C13

/-! #### per-run obligations: where the lossy readers sit, with which capacities and window -/
def sites (c : Cfg) : List (Option Ty × Ty) := [
  (((Gen.reqRoles c).lookup "MakeCredential").bind (walkTy · [1]), Spec.rpEntity),
  (((Gen.reqRoles c).lookup "MakeCredential").bind (walkTy · [2]), Spec.userEntity),
  (((Gen.reqRoles c).lookup "CredentialManagement").bind (walkTy · [1, 2]), Spec.userEntity),
  (((Gen.respRoles c).lookup "CredentialManagement").bind (walkTy · [2]), Spec.rpEntity),
  (((Gen.respRoles c).lookup "CredentialManagement").bind (walkTy · [5]), Spec.userEntity),
  (((Gen.respRoles c).lookup "GetAssertion").bind (walkTy · [3]), Spec.userEntity)]

theorem ob_sites (c : Cfg) : (sites c).all (fun p => p.1 == some p.2) = true := by
  rcases c with ⟨_|_, _|_, _|_⟩ <;> decide

/-- the scan window of `floor_char_boundary` extracted from the source (`saturating_sub(3)`) -/
theorem ob_window : Gen.truncateWindow = 3 := by decide

/-! #### names -/

/-- the specified result of truncation -/
def truncated (cap : Nat) (s : List Byte) : List Byte :=
  if s.length ≤ cap then s else s.take (floorChars s cap)

/-- **Names.** For every well-formed text of any length the name reader succeeds — no panic, no
    `unwrap_unchecked(None)` — and yields `truncated 64 s`. -/
theorem name_reader (s : List Byte) (hv : validUtf8 s = true) :
    Mode.apply (.trunc 64 3) (.text s) = .ok (some (.text (truncated 64 s))) := by
  simp only [Mode.apply, truncateStr_valid 64 s hv, truncated]

/-- the truncated name is a prefix, at most 64 bytes, well-formed, made of whole characters, and
    no longer whole-character prefix fits in 64 bytes; a name that fits is kept unchanged -/
theorem truncated_spec (cap : Nat) (s : List Byte) (hv : validUtf8 s = true) :
    (truncated cap s) <+: s ∧ (truncated cap s).length ≤ cap ∧ validUtf8 (truncated cap s) = true ∧
    (s.length ≤ cap → truncated cap s = s) ∧
    (∀ j, CharEnd s j → j ≤ cap → j ≤ (truncated cap s).length) := by
  unfold truncated
  by_cases hfit : s.length ≤ cap
  · simp only [if_pos hfit]
    refine ⟨List.prefix_refl s, hfit, hv, fun _ => trivial, ?_⟩
    intro j hj _
    exact (hj.valid hv).1
  · simp only [if_neg hfit]
    have hce := floorChars_charEnd s cap
    have hle := floorChars_le s cap
    obtain ⟨hjl, ht, _⟩ := hce.valid hv
    refine ⟨List.take_prefix _ s, by simp [List.length_take]; omega, ht, fun h => absurd h hfit, ?_⟩
    intro j hj hjc
    have := floorChars_max hj cap hjc
    simp [List.length_take]; omega

/-- inside the struct decoder: the name member's slot receives the truncated text -/
theorem name_field (key : List Byte) (ser : SerMode) (i : Nat) (s r : Input) (slots : DSlots)
    (hv : validUtf8 s = true) (hl : s.length < 4294967296) (hun : slotSeen slots i = false) :
    fieldValue (fun x => decode (.leaf (.str none)) x) ⟨key, [], false, .trunc 64 3, ser⟩ i (encText s ++ r) slots
      = .ok (slots.set i (some (some (.text (truncated 64 s)))), r) := by
  unfold fieldValue
  have hhead : (encText s ++ r).head? ≠ some 0xf6 := by
    unfold encText encHead
    simp only []
    repeat' split
    all_goals simp
    all_goals (intro h; have := congrArg UInt8.toNat h; simp at this; omega)
  simp only [hun, Bool.false_eq_true, if_false, Mode.acceptsNull, Bool.true_and, decide_eq_true_eq, hhead]
  simp only [decode, decLeaf, decText_encText s r hl, hv, if_true, name_reader s hv]

/-! #### icons -/

/-- **User icon.** At most 128 bytes: kept verbatim; longer: reported absent, never an error. -/
theorem user_icon (s : List Byte) :
    Mode.apply (.skipLong 128) (.text s) = .ok (if s.length ≤ 128 then some (.text s) else none) := by
  simp only [Mode.apply]
  split <;> rfl

/-- **Relying-party icon / url.** Any well-formed text of any length is accepted and discarded. -/
theorem rp_icon (s r : Input) (hl : s.length < 4294967296) (hv : validUtf8 s = true) :
    decLeaf .icon (encText s ++ r) = .ok (.unit, r) := by
  simp only [decLeaf, decText_encText s r hl, hv, if_true]

/-- **Ill-formed UTF-8 is rejected** by every text reader (names, icons, ids) -/
theorem invalid_rejected (s r : Input) (hl : s.length < 4294967296) (hv : validUtf8 s = false) :
    decText (encText s ++ r) = .error .other := by
  rw [decText_encText s r hl, hv]; rfl

/-! non-vacuity: the WebAuthn §6.4.1 example "ag̈" = 61 67 CC 88 -/
example : truncated 3 [0x61, 0x67, 0xcc, 0x88] = [0x61, 0x67] := by
  have h := truncateStr_valid 3 [0x61, 0x67, 0xcc, 0x88] (by decide)
  have h2 : truncateStr 3 3 [0x61, 0x67, 0xcc, 0x88] = .ret [0x61, 0x67] := by decide
  rw [h2] at h; exact (Outcome.ret.inj h).symm
example : validUtf8 [0x61, 0x67, 0xcc, 0x88] = true := by decide
/-- with a window of 2 the scan would hit `unwrap_unchecked(None)` on a 4-byte character -/
example : floorCharBoundary 2 [0x61, 0xf0, 0x9f, 0x98, 0x80, 0x62] 4 = .ub := by decide

end C13
