import Props.Obligations
import Props.C11
import Ctap.MsgThm
/-
  C01 — request decoding is faithful to the specification's parameter tables.
  (1) the generated request schemas equal the specification's key/type/optionality tables
  (`Ob.reqRoles_eq`, all 8 configurations); (2) `message`: for every parameter-bearing command and
  every parameter map given as entries in any order, each read by its member's reader, the decoded
  request has exactly those parameters under exactly those positions and every other optional
  parameter absent; (3) `bidirectional`: for ClientPin / CredentialManagement / LargeBlobs, where the
  model also has an encoder, decode(cmd ‖ encode v) = v for every well-typed v.
  The lossy members enter through their own reader theorems (C13 names / icons, C14 lists) as
  `ReadsAs` facts.
-/
namespace C01

/-- parameter-bearing commands: byte ↦ request variant -/
def paramCmds : List (Nat × String) :=
  [(0x01, "MakeCredential"), (0x02, "GetAssertion"), (0x06, "ClientPin"),
   (0x0A, "CredentialManagement"), (0x41, "CredentialManagement"), (0x0C, "LargeBlobs")]

/-! #### per-run obligations -/

/-- every parameter command is routed to its variant with CBOR parameters (kind 2), in every
    configuration, and that variant's schema is an integer-keyed struct with offset 1 -/
theorem ob_route (c : Cfg) : paramCmds.all (fun p =>
    reqKind (Gen.reqTables c) p.1 == (2, p.2) &&
    (match (Gen.reqRoles c).lookup p.2 with
     | some (.indexed 1 fs) => decide (1 + fs.length < 18446744073709551616)
     | _ => false)) = true := by
  rcases c with ⟨_|_, _|_, _|_⟩ <;> decide +kernel

/-- the three commands whose parameter maps the model can also encode are well-formed schemas -/
theorem ob_wf (c : Cfg) : ["ClientPin", "CredentialManagement", "LargeBlobs"].all (fun n =>
    match (Gen.reqRoles c).lookup n with | some t => wf t | none => false) = true := by
  rcases c with ⟨_|_, _|_, _|_⟩ <;> decide +kernel

/-! #### property theorems -/

/-- **Faithful member delivery**, any member order, any subset of optional members, any trailing
    bytes: the request for the command, with exactly the sent members set. -/
theorem message (c : Cfg) (cmd : Byte) (variant : String) (fs : Fields) (ents : List Ent) (r : Input)
    (hk : reqKind (Gen.reqTables c) cmd.toNat = (2, variant))
    (ht : (Gen.reqRoles c).lookup variant = some (.indexed 1 fs))
    (hoff : 1 + fs.length < 18446744073709551616)
    (hnth : ∀ e ∈ ents, fs.nth e.idx = some (e.f, e.t))
    (hreads : ∀ e ∈ ents, ReadsAs e.f e.t e.bytes e.out)
    (hnd : (ents.map (·.idx)).Nodup) (hn : ents.length < 4294967296)
    (hreq : requiredOk fs (setAll ents (List.replicate fs.length none)) = true) :
    requestDeserialize (Gen.reqTables c)
        (cmd :: (encHead 5 ents.length ++ ((ents.map (fun e => keyIdx 1 e.idx e.f ++ e.bytes)).flatten ++ r)))
      = .ok variant (some (.record ((setAll ents (List.replicate fs.length none)).map Option.join))) := by
  simp only [requestDeserialize, hk, requestBody]
  have hrt : (Gen.reqTables c).reqTy variant = some (.indexed 1 fs) := ht
  simp only [show (2 : Nat) ≠ 0 by decide, show (2 : Nat) ≠ 1 by decide, show (2 : Nat) ≠ 3 by decide,
    if_false, if_true, hrt]
  rw [indexed_message 1 fs ents r hnth hreads hnd hoff hn, if_pos hreq]

/-- each set member carries exactly the value its reader produced from the bytes sent under its
    key; every member that was not sent is absent -/
theorem member_values (fs : Fields) (ents : List Ent) (i : Nat) (hi : i < fs.length)
    (hnd : (ents.map (·.idx)).Nodup) (hlt : ∀ e ∈ ents, e.idx < fs.length) :
    ((setAll ents (List.replicate fs.length none)).map Option.join)[i]? =
      some (match ents.find? (fun e => e.idx == i) with
            | some e => e.out
            | none => none) := by
  have := setAll_get ents (List.replicate fs.length none) i hnd (by simpa using hlt)
  rw [List.getElem?_map, this]
  cases ents.find? (fun e => e.idx == i) with
  | some e => rfl
  | none => simp [List.getElem?_replicate, hi]

/-- **Bidirectional commands**: decoding the encoding of any well-typed parameter value -/
theorem bidirectional (c : Cfg) (cmd : Byte) (variant : String) (t : Ty) (v : Val) (r : Input)
    (hv : variant ∈ ["ClientPin", "CredentialManagement", "LargeBlobs"])
    (hk : reqKind (Gen.reqTables c) cmd.toNat = (2, variant))
    (ht : (Gen.reqRoles c).lookup variant = some t) (hw : wt t v = true) :
    requestDeserialize (Gen.reqTables c) (cmd :: (encode t v ++ r)) = .ok variant (some v) := by
  have hall := List.all_eq_true.mp (ob_wf c) variant hv
  rw [ht] at hall
  simp only [requestDeserialize, hk, requestBody]
  have hrt : (Gen.reqTables c).reqTy variant = some t := ht
  simp only [show (2 : Nat) ≠ 0 by decide, show (2 : Nat) ≠ 1 by decide, show (2 : Nat) ≠ 3 by decide,
    if_false, if_true, hrt, rt t hall v r hw]

/-- the prototype alias 0x41 (see also C11.alias) -/
theorem alias (c : Cfg) (rest : Input) :
    requestDeserialize (Gen.reqTables c) (0x41 :: rest) = requestDeserialize (Gen.reqTables c) (0x0A :: rest) :=
  C11.alias c rest

/-! non-vacuity: the routing obligation covers the six command bytes of the property -/
example : paramCmds.map (·.1) = [0x01, 0x02, 0x06, 0x0A, 0x41, 0x0C] := by decide

end C01
