import Props.GenTables
import Spec.Tables
/-
  C11 — the command-byte table is total, exact and invertible.
  All statements are about the *generated* first-match tables (`Gen.opTryFrom`, `Gen.opInto`,
  `Gen.vendorTryFrom`, `Gen.opSwitch`), checked over all 256 byte values by the kernel
  (`decide +kernel`), and then lifted to every trailing payload.
-/
namespace C11

abbrev opOf (b : Nat) : Option Nat :=
  opOfByte Gen.opTryFrom Gen.opTryFromVendorArms Gen.vendorTryFrom b

def nameOf (i : Nat) : String := Gen.operations.getD i "?"

def vendorIdx : Option Nat := Gen.operations.idxOf? "Vendor"

/-! #### per-run obligations (complete finite checks) -/

theorem ob_names : (List.range 256).all (fun b => (opOf b).map nameOf == Spec.opName b) = true := by
  decide +kernel

theorem ob_roundtrip : (List.range 256).all (fun b =>
    match opOf b with
    | some i => opToByte Gen.opInto i b == some b
    | none => true) = true := by
  decide +kernel

theorem ob_into_independent : (List.range (Gen.operations.length)).all (fun i =>
    some i == vendorIdx || (List.range 256).all (fun w => opToByte Gen.opInto i w == opToByte Gen.opInto i 0)) = true := by
  decide +kernel

theorem ob_idx_bound : (List.range 256).all (fun b =>
    match opOf b with
    | some i => decide (i < Gen.operations.length)
    | none => true) = true := by
  decide +kernel

theorem ob_vendor_range : (List.range 256).all (fun b =>
    (firstMatch Gen.vendorTryFrom b).isSome == (decide (Gen.c_VENDOR_FIRST ≤ b) && decide (b ≤ Gen.c_VENDOR_LAST))) = true := by
  decide +kernel

theorem ob_vendor_consts : Gen.c_VENDOR_FIRST = 0x40 ∧ Gen.c_VENDOR_LAST = 0x7F := by decide

theorem ob_kind (c : Cfg) : (List.range 256).all (fun b =>
    reqKind (Gen.reqTables c) b == (Spec.cmdClass b).kind) = true := by
  rcases c with ⟨_|_, _|_, _|_⟩ <;> decide +kernel

theorem ob_status : Gen.statusInvalidCommand = Spec.statusInvalidCommand := by decide

/-! #### property theorems -/

/-- exactly the assigned command codes and the vendor range 0x42–0x7F are recognised, each as
    the operation the specification names -/
theorem recognised (b : Byte) : (opOf b.toNat).map nameOf = Spec.opName b.toNat := by
  have := forall_lt_of_all 256 _ ob_names b.toNat (UInt8.toNat_lt b)
  simpa using this

/-- every recognised byte converts to an operation that converts back to the same byte -/
theorem roundtrip (b : Byte) (i : Nat) (h : opOf b.toNat = some i) :
    opToByte Gen.opInto i b.toNat = some b.toNat := by
  have := forall_lt_of_all 256 _ ob_roundtrip b.toNat (UInt8.toNat_lt b)
  rw [h] at this
  simpa using this

/-- no two bytes share a (non-vendor) operation; vendor operations carry their byte -/
theorem injective (b b' : Byte) (i : Nat) (h : opOf b.toNat = some i) (h' : opOf b'.toNat = some i)
    (hv : some i ≠ vendorIdx) : b = b' := by
  have r := roundtrip b i h
  have r' := roundtrip b' i h'
  have hi : i < Gen.operations.length := by
    have := forall_lt_of_all 256 _ ob_idx_bound b.toNat (UInt8.toNat_lt b)
    rw [h] at this
    simpa using this
  have ind := forall_lt_of_all _ _ ob_into_independent i hi
  simp only [Bool.or_eq_true, beq_iff_eq] at ind
  rcases ind with hvi | hall
  · exact absurd hvi hv
  · have e1 := forall_lt_of_all 256 _ hall b.toNat (UInt8.toNat_lt b)
    have e2 := forall_lt_of_all 256 _ hall b'.toNat (UInt8.toNat_lt b')
    simp only [beq_iff_eq] at e1 e2
    rw [e1] at r; rw [e2] at r'
    have : b.toNat = b'.toNat := by
      rw [r] at r'; exact Option.some.inj r'
    exact UInt8.toNat_inj.mp this

/-- the vendor conversion accepts exactly `FIRST..=LAST` = 0x40–0x7F -/
theorem vendor_range (b : Byte) :
    (firstMatch Gen.vendorTryFrom b.toNat).isSome = true ↔ (0x40 ≤ b.toNat ∧ b.toNat ≤ 0x7F) := by
  have := forall_lt_of_all 256 _ ob_vendor_range b.toNat (UInt8.toNat_lt b)
  have hc := ob_vendor_consts
  simp only [beq_iff_eq] at this
  rw [this, hc.1, hc.2]
  simp

theorem kind_eq (c : Cfg) (b : Byte) : reqKind (Gen.reqTables c) b.toNat = (Spec.cmdClass b.toNat).kind := by
  have := forall_lt_of_all 256 _ (ob_kind c) b.toNat (UInt8.toNat_lt b)
  simpa using this

/-- parameter-less commands decode from their byte alone, whatever bytes follow -/
theorem paramless (c : Cfg) (b : Byte) (rest : Input) (v : String)
    (h : Spec.cmdClass b.toNat = .paramless v) :
    requestDeserialize (Gen.reqTables c) (b :: rest) = .ok v none := by
  simp only [requestDeserialize]
  rw [kind_eq c b, h]
  simp [Spec.CmdClass.kind, requestBody]

/-- vendor commands (0x42–0x7F) decode to the vendor request carrying the byte, whatever follows -/
theorem vendor (c : Cfg) (b : Byte) (rest : Input) (h : Spec.cmdClass b.toNat = .vendor) :
    requestDeserialize (Gen.reqTables c) (b :: rest) = .ok "Vendor" (some (.nat b.toNat)) := by
  simp only [requestDeserialize]
  rw [kind_eq c b, h]
  simp [Spec.CmdClass.kind, requestBody]

/-- recognised-but-unsupported commands and every unassigned byte are InvalidCommand (0x01),
    whatever bytes follow -/
theorem invalid (c : Cfg) (b : Byte) (rest : Input) (h : Spec.cmdClass b.toNat = .invalid) :
    requestDeserialize (Gen.reqTables c) (b :: rest) = .err Spec.statusInvalidCommand := by
  simp only [requestDeserialize]
  rw [kind_eq c b, h]
  simp [Spec.CmdClass.kind, requestBody, Gen.reqTables, ob_status]

/-- the prototype credential-management code 0x41 decodes exactly like 0x0A -/
theorem alias (c : Cfg) (rest : Input) :
    requestDeserialize (Gen.reqTables c) (0x41 :: rest) = requestDeserialize (Gen.reqTables c) (0x0A :: rest) := by
  have h1 := kind_eq c 0x41
  have h2 := kind_eq c 0x0A
  have e1 : Spec.cmdClass (0x41 : Byte).toNat = .params "CredentialManagement" := by decide
  have e2 : Spec.cmdClass (0x0A : Byte).toNat = .params "CredentialManagement" := by decide
  rw [e1] at h1; rw [e2] at h2
  simp only [requestDeserialize]
  rw [h1, h2]
  simp [Spec.CmdClass.kind, requestBody]

/-! non-vacuity: each class is inhabited -/
example : Spec.cmdClass (0x04 : Byte).toNat = .paramless "GetInfo" := by decide
example : Spec.cmdClass (0x55 : Byte).toNat = .vendor := by decide
example : Spec.cmdClass (0x40 : Byte).toNat = .invalid := by decide
example : Spec.cmdClass (0x0D : Byte).toNat = .invalid := by decide

end C11
