import Props.GenTables
import Spec.Tables
import Ctap.Dispatch
/-
  C10 — each request reaches exactly the authenticator method for its command.
-/
namespace C10

/-- the arm a specification row demands -/
def armOf (row : String × String × Bool × String × Bool) : Arm :=
  (row.1, [(row.2.1, row.2.2.1)], [row.2.2.2.1], row.2.2.2.2)

/-! #### per-run obligations: the generated arm tables are the specification's (as maps) -/
theorem ob_dispatch2 : Gen.dispatch2.length = Spec.dispatch2.length ∧
    Spec.dispatch2.all (fun row => Gen.dispatch2.lookup row.1 == some (armOf row).2) = true := by decide
theorem ob_dispatch1 : Gen.dispatch1.length = Spec.dispatch1.length ∧
    Spec.dispatch1.all (fun row => Gen.dispatch1.lookup row.1 == some (armOf row).2) = true := by decide
theorem ob_rpc : Gen.rpc2Delegates = true ∧ Gen.rpc1Delegates = true := by decide
theorem ob_large_blobs_default : Gen.largeBlobsDefaultError = "InvalidCommand" := by decide
theorem ob_version_default : Gen.versionDefault = "U2F_V2" := by decide

/-! #### property theorem -/

/-- what must happen: exactly one handler runs, once, with the payload iff the command has one;
    its error is returned unchanged (when it can fail), otherwise the same-named response -/
def expected {σ : Type} (b : Behaviour σ) (row : String × String × Bool × String × Bool) (s : σ) :
    σ × List (String × Bool) × Except Nat String :=
  let (s', e) := b.run row.2.1 row.2.2.1 s
  (s', [(row.2.1, row.2.2.1)],
    match e with
    | some err => if row.2.2.2.2 then .error err else .ok row.2.2.2.1
    | none => .ok row.2.2.2.1)

theorem dispatch_of_lookup {σ : Type} (arms : List Arm) (b : Behaviour σ)
    (row : String × String × Bool × String × Bool) (s : σ)
    (h : arms.lookup row.1 = some (armOf row).2) :
    dispatch arms b row.1 s = some (expected b row s) := by
  obtain ⟨v, m, p, r, canFail⟩ := row
  rcases hr : b.run m p s with ⟨s', _ | err⟩ <;> cases canFail <;>
    simp [dispatch, h, armOf, expected, runCalls, hr]

/-- **CTAP2.** For every state type, every authenticator behaviour, every state and every request
    variant: the dispatcher does exactly what the specification row says. -/
theorem ctap2 {σ : Type} (b : Behaviour σ) (s : σ) (row : String × String × Bool × String × Bool)
    (hrow : row ∈ Spec.dispatch2) : dispatch Gen.dispatch2 b row.1 s = some (expected b row s) := by
  apply dispatch_of_lookup
  have := List.all_eq_true.mp ob_dispatch2.2 row hrow
  simpa using this

/-- **CTAP1.** -/
theorem ctap1 {σ : Type} (b : Behaviour σ) (s : σ) (row : String × String × Bool × String × Bool)
    (hrow : row ∈ Spec.dispatch1) : dispatch Gen.dispatch1 b row.1 s = some (expected b row s) := by
  apply dispatch_of_lookup
  have := List.all_eq_true.mp ob_dispatch1.2 row hrow
  simpa using this

/-- GetInfo and CTAP1 Version cannot fail, whatever the handler reports -/
theorem infallible {σ : Type} (b : Behaviour σ) (s : σ) :
    dispatch Gen.dispatch2 b "GetInfo" s = some ((b.run "get_info" false s).1, [("get_info", false)], .ok "GetInfo") ∧
    dispatch Gen.dispatch1 b "Version" s = some ((b.run "version" false s).1, [("version", false)], .ok "Version") := by
  constructor
  · have := ctap2 b s ("GetInfo", "get_info", false, "GetInfo", false) (by decide)
    rw [this]; simp only [expected]
    cases (b.run "get_info" false s).2 <;> rfl
  · have := ctap1 b s ("Version", "version", false, "Version", false) (by decide)
    rw [this]; simp only [expected]
    cases (b.run "version" false s).2 <;> rfl

/-! non-vacuity: the specification tables cover every request variant of the generated switch -/
example : Spec.dispatch2.length = 10 ∧ Spec.dispatch1.length = 3 := by decide
example : ("Vendor", "vendor", true, "Vendor", true) ∈ Spec.dispatch2 := by decide

end C10
