import Props.Obligations
import Ctap.CapThm
import Ctap.MsgThm
import Props.C13
/-
  C12 — size and range limits are exact; accepted values are never altered to fit.
  Generic reader theorems (G-CAP) instantiated at the limits the specification names; per-run
  obligations that the members regenerated from the source have exactly those limits.
-/
namespace C12

/-- where each bounded member sits in the generated request schemas, and the reader the
    specification calls for there -/
def sites (c : Cfg) : List (Option Ty × Ty) := [
  (((Gen.reqRoles c).lookup "MakeCredential").bind (walkTy · [2, 0]), Spec.bstrMax 64),      -- user id
  (((Gen.reqRoles c).lookup "MakeCredential").bind (walkTy · [1, 0]), Spec.tstrMax 256),     -- rp id
  (((Gen.reqRoles c).lookup "MakeCredential").bind (walkTy · [3, 0, 1]), Spec.tstrMax 32),   -- parameter type
  (((Gen.reqRoles c).lookup "MakeCredential").bind (walkTy · [3, 0, 0]), .leaf .i32),        -- alg
  (((Gen.reqRoles c).lookup "MakeCredential").bind (walkTy · [4]), .vec 16 Spec.descriptorRef), -- exclude list
  (((Gen.reqRoles c).lookup "GetAssertion").bind (walkTy · [2]), .vec 10 Spec.descriptorRef),   -- allow list
  (((Gen.reqRoles c).lookup "GetAssertion").bind (walkTy · [3, 0, 1]), Spec.bstrMax 80),     -- hmac-secret saltEnc
  (((Gen.reqRoles c).lookup "GetAssertion").bind (walkTy · [3, 0, 2]), Spec.bstrMax 32),     -- hmac-secret saltAuth
  (((Gen.reqRoles c).lookup "GetAssertion").bind (walkTy · [3, 0, 0]), .leaf .coseEcdh),     -- key agreement
  (((Gen.reqRoles c).lookup "CredentialManagement").bind (walkTy · [1, 0]), .leaf (.byteArray 32)), -- rpIdHash
  (((Gen.reqRoles c).lookup "ClientPin").bind (walkTy · [0]), Spec.u8),
  (((Gen.reqRoles c).lookup "ClientPin").bind (walkTy · [8]), Spec.u8),
  (((Gen.reqRoles c).lookup "CredentialManagement").bind (walkTy · [2]), Spec.u8),
  (((Gen.reqRoles c).lookup "MakeCredential").bind (walkTy · [8]), Spec.u32),
  (((Gen.reqRoles c).lookup "MakeCredential").bind (walkTy · [9]), Spec.u32),
  (((Gen.reqRoles c).lookup "GetAssertion").bind (walkTy · [6]), Spec.u32),
  (((Gen.reqRoles c).lookup "LargeBlobs").bind (walkTy · [0]), Spec.u32),
  (((Gen.reqRoles c).lookup "LargeBlobs").bind (walkTy · [2]), Spec.u32),
  (((Gen.reqRoles c).lookup "LargeBlobs").bind (walkTy · [3]), Spec.u32),
  (((Gen.reqRoles c).lookup "MakeCredential").bind (walkTy · [2]), Spec.userEntity)]         -- icon 128 via skipLong

theorem ob_sites (c : Cfg) : (sites c).all (fun p => p.1 == some p.2) = true := by
  rcases c with ⟨_|_, _|_, _|_⟩ <;> decide

/-! #### exact limits (each: accepted and delivered unchanged iff within the limit) -/

theorem user_id (b r : Input) (hl : b.length < 4294967296) :
    decode (Spec.bstrMax 64) (encBytes b ++ r) = if b.length ≤ 64 then .ok (.bytes b, r) else .error .other := by
  simp only [Spec.bstrMax, decode]; exact bytes_exact 64 b r hl

theorem rp_id (s r : Input) (hl : s.length < 4294967296) (hv : validUtf8 s = true) :
    decode (Spec.tstrMax 256) (encText s ++ r) = if s.length ≤ 256 then .ok (.text s, r) else .error .other := by
  simp only [Spec.tstrMax, decode]; exact str_exact 256 s r hl hv

theorem param_type (s r : Input) (hl : s.length < 4294967296) (hv : validUtf8 s = true) :
    decode (Spec.tstrMax 32) (encText s ++ r) = if s.length ≤ 32 then .ok (.text s, r) else .error .other := by
  simp only [Spec.tstrMax, decode]; exact str_exact 32 s r hl hv

theorem salt_enc (b r : Input) (hl : b.length < 4294967296) :
    decode (Spec.bstrMax 80) (encBytes b ++ r) = if b.length ≤ 80 then .ok (.bytes b, r) else .error .other := by
  simp only [Spec.bstrMax, decode]; exact bytes_exact 80 b r hl

theorem salt_auth (b r : Input) (hl : b.length < 4294967296) :
    decode (Spec.bstrMax 32) (encBytes b ++ r) = if b.length ≤ 32 then .ok (.bytes b, r) else .error .other := by
  simp only [Spec.bstrMax, decode]; exact bytes_exact 32 b r hl

theorem rp_id_hash (b r : Input) (hl : b.length < 4294967296) :
    decode (.leaf (.byteArray 32)) (encBytes b ++ r) = if b.length = 32 then .ok (.bytes b, r) else .error .other := by
  simp only [decode]; exact byteArray_exact 32 b r hl

theorem cose_coordinate (b r : Input) (hl : b.length < 4294967296) :
    decBytesCap 32 (encBytes b ++ r) = if b.length ≤ 32 then .ok (b, r) else .error .other := by
  simp only [decBytesCap, decBytes_encBytes b r hl]
  by_cases h : b.length ≤ 32
  · rw [if_neg (by omega), if_pos h]
  · rw [if_pos (by omega), if_neg h]

theorem uint8 (n : Nat) (r : Input) (hn : n < 18446744073709551616) :
    decode Spec.u8 (encHead 0 n ++ r) = if n < 256 then .ok (.nat n, r) else .error .other := by
  simp only [Spec.u8, decode]; exact uint_exact .u8 n r hn

theorem uint32 (n : Nat) (r : Input) (hn : n < 18446744073709551616) :
    decode Spec.u32 (encHead 0 n ++ r) = if n < 4294967296 then .ok (.nat n, r) else .error .other := by
  simp only [Spec.u32, decode]; exact uint_exact .u32 n r hn

theorem algorithm (i : Int) (r : Input) (hlo : -18446744073709551616 ≤ i) (hhi : i < 18446744073709551616) :
    decode (.leaf .i32) (encInt i ++ r) = if i32Range i then .ok (.int i, r) else .error .other := by
  simp only [decode]; exact i32_exact i r hlo hhi

theorem ob_descriptor_wf : wf Spec.descriptorRef = true := by decide +kernel

theorem allow_list (vs : List Val) (r : Input) (hw : ∀ v ∈ vs, wt Spec.descriptorRef v = true)
    (hl : vs.length < 4294967296) :
    decode (.vec 10 Spec.descriptorRef)
        (encHead 4 vs.length ++ ((vs.map (fun v => encode Spec.descriptorRef v)).flatten ++ r)) =
      if vs.length ≤ 10 then .ok (.list vs, r) else .error .other :=
  vec_exact 10 _ ob_descriptor_wf vs r hw hl

theorem exclude_list (vs : List Val) (r : Input) (hw : ∀ v ∈ vs, wt Spec.descriptorRef v = true)
    (hl : vs.length < 4294967296) :
    decode (.vec 16 Spec.descriptorRef)
        (encHead 4 vs.length ++ ((vs.map (fun v => encode Spec.descriptorRef v)).flatten ++ r)) =
      if vs.length ≤ 16 then .ok (.list vs, r) else .error .other :=
  vec_exact 16 _ ob_descriptor_wf vs r hw hl

/-- user icon: at most 128 bytes kept verbatim, beyond that dropped — never rejected (C13.user_icon) -/
theorem user_icon (s : List Byte) :
    Mode.apply (.skipLong 128) (.text s) = .ok (if s.length ≤ 128 then some (.text s) else none) :=
  C13.user_icon s

/-! #### inside an otherwise valid message -/

/-- a member whose value is one past its limit makes the whole parameter map fail with a plain CBOR
    error (status 0x12), whatever members precede or follow it -/
theorem over_limit_in_message (off : Nat) (fs : Fields) (pre : List Ent) (i : Nat) (f : FieldInfo) (t : Ty)
    (bad junk : List Byte) (m : Nat)
    (hnth_pre : ∀ e ∈ pre, fs.nth e.idx = some (e.f, e.t)) (hreads : ∀ e ∈ pre, ReadsAs e.f e.t e.bytes e.out)
    (hnd : ((pre.map (·.idx)) ++ [i]).Nodup) (hoff : off + fs.length < 18446744073709551616)
    (hn : pre.length + (m + 1) < 4294967296)
    (hnth : fs.nth i = some (f, t)) (hbad : FailsWith f t bad .other) :
    decode (.indexed off fs)
        (encHead 5 (pre.length + (m + 1)) ++
          ((pre.map (fun e => keyIdx off e.idx e.f ++ e.bytes)).flatten ++ ((keyIdx off i f ++ bad) ++ junk)))
      = .error .other := by
  have hndp : (pre.map (·.idx)).Nodup := (List.nodup_append.mp hnd).1
  have hall : ∀ st ∈ pre.map (fun e => fieldStep (keyIdx off) e.idx e.f e.bytes e.out),
      st.holds (decHead64 0) (fun k i s => decIdxEntry fs off 0 k i s) := by
    intro st hst
    simp only [List.mem_map] at hst
    obtain ⟨e, he, rfl⟩ := hst
    have hlt := Fields.nth_lt fs e.idx _ (hnth_pre e he)
    apply fieldStep_holds (decHead64 0) _ (keyIdx off) (fun i _ => off + i) e.idx e.f e.t
    · intro x; exact decHead64_encHead 0 (off + e.idx) x (by omega) (by omega)
    · intro inp s
      have := decIdx_lookup fs off 0 e.idx e.f e.t inp s (hnth_pre e he)
      simpa using this
    · exact hreads e he
  have hch := chain_fieldSteps (keyIdx off) pre (List.replicate fs.length none) hndp
    (fun e _ => slotSeen_replicate _ _)
  have hlt := Fields.nth_lt fs i _ hnth
  have hun : slotSeen (setAll pre (List.replicate fs.length none)) i = false := by
    have hget := setAll_get pre (List.replicate fs.length none) i hndp (by
      intro e he; simpa using Fields.nth_lt fs e.idx _ (hnth_pre e he))
    have hnone : pre.find? (fun e => e.idx == i) = none := by
      rw [List.find?_eq_none]
      intro e he
      simp only [beq_iff_eq]
      intro hei
      have := (List.nodup_append.mp hnd).2.2 e.idx (by simp; exact ⟨e, he, rfl⟩) i (by simp)
      exact this hei
    rw [hnone] at hget
    simp only [slotSeen, hget, List.getElem?_replicate, hlt, if_true]
  have hstep := oneStep_fails (decHead64 0) (fun k i s => decIdxEntry fs off 0 k i s) (keyIdx off)
    (fun i _ => off + i) i f t
    (by intro x; exact decHead64_encHead 0 (off + i) x (by omega) (by omega))
    (by intro inp s; have := decIdx_lookup fs off 0 i f t inp s hnth; simpa using this)
    bad junk .other hbad _ hun
  have := indexed_steps_err off fs _ (keyIdx off i f ++ bad) junk .other m hall hch (by simpa using hn)
    (by rw [runSteps_fieldSteps]; exact hstep)
  simp only [List.length_map, stepsBytes, List.map_map] at this
  exact this

/-! non-vacuity -/
example : (if (64 : Nat) ≤ 64 then 1 else 0) = 1 ∧ (if (65 : Nat) ≤ 64 then 1 else 0) = 0 := by decide

end C12
