import Props.Obligations
import Ctap.MsgThm
/-
  C06 — unknown options, extensions and entity members are skipped, not fatal.
-/
namespace C06

/-- the host map types the specification lets platforms extend, located in the generated schemas -/
def hosts (c : Cfg) : List (Option Ty × Ty) := [
  (((Gen.reqRoles c).lookup "MakeCredential").bind (walkTy · [6]), Spec.authenticatorOptions),
  (((Gen.reqRoles c).lookup "GetAssertion").bind (walkTy · [4]), Spec.authenticatorOptions),
  (((Gen.reqRoles c).lookup "MakeCredential").bind (walkTy · [5]), Spec.mcExtensions c),
  (((Gen.reqRoles c).lookup "GetAssertion").bind (walkTy · [3]), Spec.gaExtensionsIn c),
  (((Gen.reqRoles c).lookup "MakeCredential").bind (walkTy · [1]), Spec.rpEntity),
  (((Gen.reqRoles c).lookup "MakeCredential").bind (walkTy · [2]), Spec.userEntity),
  (((Gen.reqRoles c).lookup "MakeCredential").bind (walkTy · [4, 0]), Spec.descriptorRef),
  (((Gen.reqRoles c).lookup "GetAssertion").bind (walkTy · [2, 0]), Spec.descriptorRef),
  (((Gen.reqRoles c).lookup "CredentialManagement").bind (walkTy · [1, 1]), Spec.descriptorRef),
  (((Gen.reqRoles c).lookup "MakeCredential").bind (walkTy · [3, 0]), Spec.credParam)]

/-! #### per-run obligations: every host is a text-keyed struct that does not deny unknown
    members (the schema universe has no `deny_unknown_fields`: the translator refuses that
    attribute), with exactly the specification's known keys -/
theorem ob_hosts (c : Cfg) : (hosts c).all (fun p => p.1 == some p.2 &&
    (match p.2 with | .text _ => true | _ => false)) = true := by
  rcases c with ⟨_|_, _|_, _|_⟩ <;> decide

/-- the real-world extras the property names are unknown to every host they can appear in -/
def extras : List String := ["transports", "credBlob", "minPinLength", "credProps", "hmac-secret-mc", "prf"]

theorem ob_extras_unknown (c : Cfg) : (hosts c).all (fun p =>
    match p.2 with
    | .text fs => extras.all (fun n => !matchesAny fs 0 (.name (Spec.ascii n)))
    | _ => false) = true := by
  rcases c with ⟨_|_, _|_, _|_⟩ <;> decide +kernel

/-! #### property theorem -/

/-- **Unknown members are irrelevant.**  For every text-keyed host, every list of entries — known
    members in any order, interleaved at any positions with unknown text-keyed members holding *any*
    well-formed definite-length item (any nesting depth and size below 2^32) — decoding gives
    exactly what decoding the same entries without the unknown ones gives, and consumes exactly the
    map: the bytes that follow are untouched. -/
theorem unknown_skipped (fs : Fields) (ents : List TEnt) (r : Input)
    (hknown : ∀ e ∈ knownOf ents, fs.nth e.idx = some (e.f, e.t) ∧ ReadsAs e.f e.t e.bytes e.out ∧
        validUtf8 e.f.key = true ∧ e.f.key.length < 4294967296 ∧ keyFreshBefore e.f fs e.idx = true)
    (hunk : ∀ n x, TEnt.unknown n x ∈ ents → validUtf8 n = true ∧ n.length < 4294967296 ∧
        okItem x = true ∧ matchesAny fs 0 (.name n) = false)
    (hnd : ((knownOf ents).map (·.idx)).Nodup) (hn : ents.length < 4294967296) :
    decode (.text fs) (encHead 5 ents.length ++ (stepsBytes (ents.map TEnt.step) ++ r)) =
    decode (.text fs) (encHead 5 (knownOf ents).length ++
      (stepsBytes ((knownOf ents).map (fun e => TEnt.step (.known e))) ++ r)) := by
  rw [text_message fs ents r hknown hunk hnd hn]
  have hk : knownOf ((knownOf ents).map TEnt.known) = knownOf ents := by
    induction ents with
    | nil => rfl
    | cons a rest ih =>
      cases a with
      | known e =>
        simp only [knownOf, List.map_cons, List.cons.injEq, true_and]
        exact ih (fun e h => hknown e (by simp [knownOf, h])) (fun n x h => hunk n x (by simp [h]))
          (by simpa [knownOf] using (List.nodup_cons.mp (by simpa [knownOf] using hnd)).2) (by simp at hn ⊢; omega)
      | unknown n x =>
        simp only [knownOf]
        exact ih (fun e h => hknown e (by simpa [knownOf] using h)) (fun n x h => hunk n x (by simp [h]))
          (by simpa [knownOf] using hnd) (by simp at hn ⊢; omega)
  have hlen : (knownOf ents).length ≤ ents.length := by
    clear hknown hunk hnd hn hk
    induction ents with
    | nil => simp [knownOf]
    | cons a rest ih => cases a <;> simp [knownOf] <;> omega
  have := text_message fs ((knownOf ents).map TEnt.known) r
    (by rw [hk]; exact hknown) (by
      intro n x h
      simp only [List.mem_map] at h
      obtain ⟨e, _, he⟩ := h
      cases he)
    (by rw [hk]; exact hnd) (by simp; omega)
  simp only [List.length_map, List.map_map, hk] at this
  rw [show ((knownOf ents).map (fun e => TEnt.step (.known e))) = List.map (TEnt.step ∘ TEnt.known) (knownOf ents) from rfl, this]

/-- lifting to the enclosing message: a host that decodes to the same value from both byte strings
    is read identically by the enclosing struct, so the whole request decodes identically -/
theorem lift (f : FieldInfo) (t : Ty) (b₁ b₂ : List Byte) (v : Val)
    (h₁ : ∀ x, decode t (b₁ ++ x) = .ok (v, x)) (h₂ : ∀ x, decode t (b₂ ++ x) = .ok (v, x))
    (hm : f.mode.apply v = .ok (some v))
    (hn₁ : f.mode.acceptsNull = true → ∀ x, (b₁ ++ x).head? ≠ some 0xf6)
    (hn₂ : f.mode.acceptsNull = true → ∀ x, (b₂ ++ x).head? ≠ some 0xf6) :
    ReadsAs f t b₁ (some v) ∧ ReadsAs f t b₂ (some v) :=
  ⟨readsAs_of_decode f t b₁ v h₁ hm hn₁, readsAs_of_decode f t b₂ v h₂ hm hn₂⟩

/-! non-vacuity: a tagged, nested, float-bearing unknown value is a well-formed item -/
example : okItem (.tag 24 [0x18] (.arr (.cons (.atom 7 27 [0x3f, 0xf0, 0, 0, 0, 0, 0, 0])
    (.cons (.map (.cons (.str 3 [0x61]) (.cons (.atom 1 25 [1, 0]) .nil))) .nil)))) = true := by decide

end C06
