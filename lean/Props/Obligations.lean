import Props.GenTables
import Spec.Schemas
/-
  Per-run obligations tying the schemas regenerated from /repo's current source (`Gen.*`) to the
  hand-written specification schemas (`Spec.*`), for each of the 8 feature configurations.
  They are decided by the kernel (`decide`) each time the generated data changes.
-/
namespace Ob

theorem reqRoles_eq (c : Cfg) : Gen.reqRoles c = Spec.reqRoles c := by
  rcases c with ⟨_|_, _|_, _|_⟩ <;> decide

theorem respRoles_eq (c : Cfg) : Gen.respRoles c = Spec.respRoles c := by
  rcases c with ⟨_|_, _|_, _|_⟩ <;> decide

theorem adExtRoles_eq (c : Cfg) : Gen.adExtRoles c = Spec.adExtRoles c := by
  rcases c with ⟨_|_, _|_, _|_⟩ <;> decide

end Ob
