import Props.Obligations
import Ctap.FilterThm
import Ctap.LeafThm
/-
  C14 — algorithm and attestation-format lists are filtered in order, never rejected.
-/
namespace C14

/-! #### per-run obligations: the filtering types in the generated request / response schemas are
    the specification's (known algorithms -7, -8; literal "public-key"; capacity 2; formats
    "none", "packed"; capacity 2) -/
def sites (c : Cfg) : List (Option Ty × Ty) := [
  (((Gen.reqRoles c).lookup "MakeCredential").bind (walkTy · [3]), Spec.credParams),
  (((Gen.respRoles c).lookup "GetInfo").bind (walkTy · [9]), Spec.credParams),
  (((Gen.reqRoles c).lookup "MakeCredential").bind (walkTy · [10]), Spec.attFmtPref),
  (((Gen.reqRoles c).lookup "GetAssertion").bind (walkTy · [8]), Spec.attFmtPref)]

theorem ob_sites (c : Cfg) : (sites c).all (fun p => p.1 == some p.2) = true := by
  rcases c with ⟨_|_, _|_, _|_⟩ <;> decide

/-! #### parameters -/

/-- the filter on one decoded entry `{alg, type}` -/
abbrev wanted : Val → Option Val := filterParam [-7, -8] (Spec.ascii "public-key")

/-- an entry is kept iff its type is "public-key" and its algorithm is ES256 (-7) or EdDSA (-8) -/
theorem wanted_entry (alg : Int) (ty : List Byte) :
    wanted (.record [some (.int alg), some (.text ty)]) =
      if ty = Spec.ascii "public-key" ∧ (alg = -7 ∨ alg = -8) then some (.int alg) else none := by
  simp only [wanted, filterParam, List.contains_cons, List.contains_nil, Bool.or_false, Bool.and_eq_true,
    decide_eq_true_eq, Bool.or_eq_true, beq_iff_eq]

/-- **Parameter lists.**  Whatever the list of decoded entries (any length, any algorithms, any
    type strings), the result is exactly the first two entries that are "public-key" with ES256 or
    EdDSA, in the platform's order — and there is no error outcome at all in this step. -/
theorem params_filtered (vs : List Val) :
    filterFold 2 [-7, -8] (Spec.ascii "public-key") vs [] = (vs.filterMap wanted).take 2 :=
  filterFold_spec 2 _ _ vs

/-- at the decoder: once the entries have been read (`seqLoop` without capacity: more than 12, or
    64, entries are fine), the value is the filtered list -/
theorem params_decode (elem : Ty) (inp : Input) (n : Nat) (r r' : Input) (vs : List Val)
    (hh : decHead32 4 inp = .ok (n, r))
    (hs : seqLoop (fun i => decode elem i) none n r [] = .ok (vs, r')) :
    decode (.filtered 2 [-7, -8] (Spec.ascii "public-key") (Spec.ascii "public-key") elem) inp
      = .ok (.list ((vs.filterMap wanted).take 2), r') := by
  simp only [decode, hh, hs, params_filtered]

/-! #### attestation formats -/

/-- reading `texts` (each valid UTF-8, shorter than 2^32) with the format loop is the list-level
    fold over their classifications -/
theorem attFmtLoop_eq (de : List (List Byte × Nat)) (cap : Nat) (texts : List (List Byte)) (r : Input)
    (known : List Val) (unk : Bool)
    (hv : ∀ t ∈ texts, validUtf8 t = true ∧ t.length < 4294967296) :
    attFmtLoop de cap texts.length ((texts.map encText).flatten ++ r) known unk
      = .ok (attFmtFold cap (texts.map (lookupStr de)) known unk, r) := by
  induction texts generalizing known unk with
  | nil => simp [attFmtLoop, attFmtFold]
  | cons t rest ih =>
    have ht := hv t (by simp)
    have hrest : ∀ t ∈ rest, validUtf8 t = true ∧ t.length < 4294967296 := fun t h => hv t (by simp [h])
    simp only [List.length_cons, List.map_cons, List.flatten_cons, List.append_assoc, attFmtLoop]
    rw [decText_encText t _ ht.2, ht.1]
    simp only [if_true]
    cases hl : lookupStr de t with
    | none => simp only [attFmtFold]; exact ih known true hrest
    | some i => simp only [attFmtFold]; exact ih _ unk hrest

/-- **Format preference lists.**  For every list of texts: the known formats are reported in the
    platform's order (first two), and the presence of any other text is reported as the flag. -/
theorem formats_decode (de : List (List Byte × Nat)) (texts : List (List Byte)) (r : Input)
    (hv : ∀ t ∈ texts, validUtf8 t = true ∧ t.length < 4294967296) (hn : texts.length < 4294967296) :
    decLeaf (.attFmtPref de 2) (encHead 4 texts.length ++ ((texts.map encText).flatten ++ r))
      = .ok (.record [some (.list (((texts.map (lookupStr de)).filterMap (fun c => c.map Val.nat)).take 2)),
                      some (.bool ((texts.map (lookupStr de)).any Option.isNone))], r) := by
  simp only [decLeaf]
  rw [decHead32_encHead 4 _ _ (by omega) hn]
  simp only []
  rw [attFmtLoop_eq de 2 texts r [] false hv, attFmtFold_eq 2 _ [] false (by simp)]
  simp

/-! non-vacuity -/
example : wanted (.record [some (.int (-7)), some (.text (Spec.ascii "public-key"))]) = some (.int (-7)) := by
  rw [wanted_entry]; simp
example : wanted (.record [some (.int (-257)), some (.text (Spec.ascii "public-key"))]) = none := by
  rw [wanted_entry]; simp

end C14
