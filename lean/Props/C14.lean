import Props.Obligations
import Ctap.FilterThm
import Ctap.LeafThm
import Ctap.RoundTrip
/-
  C14 — algorithm and attestation-format lists are filtered in order, never rejected.
-/
namespace C14

/-! #### per-run obligations: the filtering types in the generated request / response schemas are
    the specification's (known algorithms -7, -8; literal "public-key"; capacity 2; formats
    "none", "packed"; capacity 2) -/
def sites (c : Cfg) : List (Option Ty × Ty) := [
  (((Gen.reqRoles c).lookup "MakeCredential").bind (walkTy · [3]), Spec.credParams),
  (((Gen.respRoles c).lookup "GetInfo").bind (walkTy · [9]), Spec.credParams),
  (((Gen.reqRoles c).lookup "MakeCredential").bind (walkTy · [10]), Spec.attFmtPref),
  (((Gen.reqRoles c).lookup "GetAssertion").bind (walkTy · [8]), Spec.attFmtPref)]

theorem ob_sites (c : Cfg) : (sites c).all (fun p => p.1 == some p.2) = true := by
  rcases c with ⟨_|_, _|_, _|_⟩ <;> decide

/-! #### parameters -/

/-- the filter on one decoded entry `{alg, type}` -/
abbrev wanted : Val → Option Val := filterParam [-7, -8] (Spec.ascii "public-key")

/-- an entry is kept iff its type is "public-key" and its algorithm is ES256 (-7) or EdDSA (-8) -/
theorem wanted_entry (alg : Int) (ty : List Byte) :
    wanted (.record [some (.int alg), some (.text ty)]) =
      if ty = Spec.ascii "public-key" ∧ (alg = -7 ∨ alg = -8) then some (.int alg) else none := by
  simp only [wanted, filterParam, List.contains_cons, List.contains_nil, Bool.or_false, Bool.and_eq_true,
    decide_eq_true_eq, Bool.or_eq_true, beq_iff_eq]

/-- **Parameter lists.**  Whatever the list of decoded entries (any length, any algorithms, any
    type strings), the result is exactly the first two entries that are "public-key" with ES256 or
    EdDSA, in the platform's order — and there is no error outcome at all in this step. -/
theorem params_filtered (vs : List Val) :
    filterFold 2 [-7, -8] (Spec.ascii "public-key") vs [] = (vs.filterMap wanted).take 2 :=
  filterFold_spec 2 _ _ vs

/-- at the decoder: once the entries have been read (`seqLoop` without capacity: more than 12, or
    64, entries are fine), the value is the filtered list -/
theorem params_decode (elem : Ty) (inp : Input) (n : Nat) (r r' : Input) (vs : List Val)
    (hh : decHead32 4 inp = .ok (n, r))
    (hs : seqLoop (fun i => decode elem i) none n r [] = .ok (vs, r')) :
    decode (.filtered 2 [-7, -8] (Spec.ascii "public-key") (Spec.ascii "public-key") elem) inp
      = .ok (.list ((vs.filterMap wanted).take 2), r') := by
  simp only [decode, hh, hs, params_filtered]

/-! #### attestation formats -/

/-- reading `texts` (each valid UTF-8, shorter than 2^32) with the format loop is the list-level
    fold over their classifications -/
theorem attFmtLoop_eq (de : List (List Byte × Nat)) (cap : Nat) (texts : List (List Byte)) (r : Input)
    (known : List Val) (unk : Bool)
    (hv : ∀ t ∈ texts, validUtf8 t = true ∧ t.length < 4294967296) :
    attFmtLoop de cap texts.length ((texts.map encText).flatten ++ r) known unk
      = .ok (attFmtFold cap (texts.map (lookupStr de)) known unk, r) := by
  induction texts generalizing known unk with
  | nil => simp [attFmtLoop, attFmtFold]
  | cons t rest ih =>
    have ht := hv t (by simp)
    have hrest : ∀ t ∈ rest, validUtf8 t = true ∧ t.length < 4294967296 := fun t h => hv t (by simp [h])
    simp only [List.length_cons, List.map_cons, List.flatten_cons, List.append_assoc, attFmtLoop]
    rw [decText_encText t _ ht.2, ht.1]
    simp only [if_true]
    cases hl : lookupStr de t with
    | none => simp only [attFmtFold]; exact ih known true hrest
    | some i => simp only [attFmtFold]; exact ih _ unk hrest

/-- **Format preference lists.**  For every list of texts: the known formats are reported in the
    platform's order (first two), and the presence of any other text is reported as the flag. -/
theorem formats_decode (de : List (List Byte × Nat)) (texts : List (List Byte)) (r : Input)
    (hv : ∀ t ∈ texts, validUtf8 t = true ∧ t.length < 4294967296) (hn : texts.length < 4294967296) :
    decLeaf (.attFmtPref de 2) (encHead 4 texts.length ++ ((texts.map encText).flatten ++ r))
      = .ok (.record [some (.list (((texts.map (lookupStr de)).filterMap (fun c => c.map Val.nat)).take 2)),
                      some (.bool ((texts.map (lookupStr de)).any Option.isNone))], r) := by
  simp only [decLeaf]
  rw [decHead32_encHead 4 _ _ (by omega) hn]
  simp only []
  rw [attFmtLoop_eq de 2 texts r [] false hv, attFmtFold_eq 2 _ [] false (by simp)]
  simp

/-! #### every entry is examined, wherever it stands

  The lists are *filtered*, not *cut*: an entry that is not well-formed makes the whole list (and
  with it the request) fail whatever its position — also behind entries that already filled the two
  kept slots.  ("Once two algorithms are kept the rest can be skipped" is a different decoder.) -/

theorem seqLoop_fault {α : Type} (elem : Input → Res α) (pre : List (List Byte × α)) (bad junk : List Byte) (e : DErr)
    (m : Nat) (acc : List α)
    (hpre : ∀ p ∈ pre, ∀ x, elem (p.1 ++ x) = .ok (p.2, x))
    (hbad : ∀ x, elem (bad ++ x) = .error e) :
    seqLoop elem none (pre.length + (m + 1)) ((pre.map (·.1)).flatten ++ (bad ++ junk)) acc = .error e := by
  induction pre generalizing acc with
  | nil => simp [seqLoop, hbad]
  | cons p rest ih =>
    have hlen : (p :: rest).length + (m + 1) = (rest.length + (m + 1)) + 1 := by simp; omega
    rw [hlen, seqLoop]
    simp only [List.map_cons, List.flatten_cons, List.append_assoc, hpre p (by simp), Bool.false_eq_true, if_false]
    exact ih _ (fun q hq => hpre q (by simp [hq]))

theorem seqLoop_all {α : Type} (elem : Input → Res α) (ents : List (List Byte × α)) (r : Input) (acc : List α)
    (h : ∀ p ∈ ents, ∀ x, elem (p.1 ++ x) = .ok (p.2, x)) :
    seqLoop elem none ents.length ((ents.map (·.1)).flatten ++ r) acc = .ok (acc ++ ents.map (·.2), r) := by
  induction ents generalizing acc with
  | nil => simp [seqLoop]
  | cons p rest ih =>
    rw [List.length_cons, seqLoop]
    simp only [List.map_cons, List.flatten_cons, List.append_assoc, h p (by simp), Bool.false_eq_true, if_false]
    rw [ih _ (fun q hq => h q (by simp [hq]))]
    simp

/-- **Parameter lists: a faulty entry anywhere.**  `pre` are entries that decode (recognised or
    not, any number of them — two recognised ones included), `bad` an entry the element reader
    rejects with `e`: the list is rejected with `e`. -/
theorem params_fault_anywhere (elem : Ty) (pre : List (List Byte × Val)) (bad junk : List Byte) (e : DErr) (m : Nat)
    (hpre : ∀ p ∈ pre, ∀ x, decode elem (p.1 ++ x) = .ok (p.2, x))
    (hbad : ∀ x, decode elem (bad ++ x) = .error e)
    (hn : pre.length + (m + 1) < 4294967296) :
    decode (.filtered 2 [-7, -8] (Spec.ascii "public-key") (Spec.ascii "public-key") elem)
        (encHead 4 (pre.length + (m + 1)) ++ ((pre.map (·.1)).flatten ++ (bad ++ junk))) = .error e := by
  simp only [decode]
  rw [decHead32_encHead 4 _ _ (by omega) hn]
  simp only []
  rw [seqLoop_fault (fun i => decode elem i) pre bad junk e m [] hpre hbad]

/-- **Parameter lists: all entries well-formed.**  Whatever their number and whatever is kept, the
    value is the filter of *all* of them. -/
theorem params_all_entries (elem : Ty) (ents : List (List Byte × Val)) (r : Input)
    (h : ∀ p ∈ ents, ∀ x, decode elem (p.1 ++ x) = .ok (p.2, x)) (hn : ents.length < 4294967296) :
    decode (.filtered 2 [-7, -8] (Spec.ascii "public-key") (Spec.ascii "public-key") elem)
        (encHead 4 ents.length ++ ((ents.map (·.1)).flatten ++ r))
      = .ok (.list (((ents.map (·.2)).filterMap wanted).take 2), r) := by
  simp only [decode]
  rw [decHead32_encHead 4 _ _ (by omega) hn]
  simp only []
  rw [seqLoop_all (fun i => decode elem i) ents r [] h]
  simp only [List.nil_append, params_filtered]

/-- **Format lists: a faulty entry anywhere** — after any number of well-formed texts (two known
    formats and an unknown one included), an entry that is not a well-formed text string is an error. -/
theorem formats_fault_anywhere (de : List (List Byte × Nat)) (texts : List (List Byte)) (bad junk : List Byte) (e : DErr)
    (m : Nat) (hv : ∀ t ∈ texts, validUtf8 t = true ∧ t.length < 4294967296)
    (hbad : ∀ x, decText (bad ++ x) = .error e) (hn : texts.length + (m + 1) < 4294967296) :
    decLeaf (.attFmtPref de 2) (encHead 4 (texts.length + (m + 1)) ++ ((texts.map encText).flatten ++ (bad ++ junk)))
      = .error e := by
  simp only [decLeaf]
  rw [decHead32_encHead 4 _ _ (by omega) hn]
  simp only []
  have key : ∀ (known : List Val) (unk : Bool),
      attFmtLoop de 2 (texts.length + (m + 1)) ((texts.map encText).flatten ++ (bad ++ junk)) known unk = .error e := by
    induction texts with
    | nil => intro known unk; simp [attFmtLoop, hbad]
    | cons t rest ih =>
      intro known unk
      have ht := hv t (by simp)
      have hlen : (t :: rest).length + (m + 1) = (rest.length + (m + 1)) + 1 := by simp; omega
      rw [hlen, attFmtLoop]
      simp only [List.map_cons, List.flatten_cons, List.append_assoc]
      rw [decText_encText t _ ht.2, ht.1]
      simp only [if_true]
      have ih' := ih (fun t h => hv t (by simp [h])) (by simp at hn ⊢; omega)
      cases lookupStr de t with
      | none => exact ih' known true
      | some i => exact ih' _ unk
  rw [key [] false]


/-! non-vacuity -/
example : wanted (.record [some (.int (-7)), some (.text (Spec.ascii "public-key"))]) = some (.int (-7)) := by
  rw [wanted_entry]; simp
example : wanted (.record [some (.int (-257)), some (.text (Spec.ascii "public-key"))]) = none := by
  rw [wanted_entry]; simp


/-! non-vacuity: `[ES256, ES256, 0]` — both slots are taken when the reader meets the third entry, an
    integer where a map is expected; the list is rejected -/
section NonVacuous
open Spec
private theorem bad0 (x : Input) : decode Spec.credParam ([0x00] ++ x) = .error .other := by
  simp [Spec.credParam, Spec.textMap, decode, decHead32, decHead]
private def es256 : Val := .record [some (.int (-7)), some (.text (ascii "public-key"))]
private theorem pre_ok : ∀ p ∈ [(encode Spec.credParam es256, es256), (encode Spec.credParam es256, es256)],
    ∀ x, decode Spec.credParam (p.1 ++ x) = .ok (p.2, x) := by
  intro p hp x
  simp only [List.mem_cons, List.not_mem_nil, or_false, or_self] at hp
  subst hp
  exact rt Spec.credParam (by decide +kernel) es256 x (by decide +kernel)
/-- the instance: every hypothesis of `params_fault_anywhere` is met by `[ES256, ES256, 0]` -/
example : True := by
  have _h := params_fault_anywhere Spec.credParam [(encode Spec.credParam es256, es256), (encode Spec.credParam es256, es256)]
    [0x00] [] .other 0 pre_ok bad0 (by decide)
  trivial
end NonVacuous

end C14
