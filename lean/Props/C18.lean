import Props.Obligations
import Spec.Tables
import Ctap.LeafThm
/-
  C18 — protocol identifier tables are exact: every listed name / number, nothing else.
  String and number tables live inside the schemas (`Ob.*Roles_eq` ties the generated ones to the
  specification's); the remaining tables are compared here.  G-TABLE (`lookupStr_zip_range`,
  `indexOf_iff`) turns "pairwise distinct spellings" into a statement about *every* string / number.
-/
namespace C18

/-! #### per-run obligations -/

theorem ob_status : Gen.statusCodes = Spec.statusCodes := by decide
theorem ob_permissions : Gen.flagsPermissions = Spec.permissions := by decide
theorem ob_flags : Gen.flagsAuthenticatorDataFlags = Spec.authDataFlags := by decide
theorem ob_control_enum : Gen.controlBytes = Spec.controlBytes := by decide
theorem ob_control_table : (List.range 256).all (fun b => firstMatch Gen.controlByteTryFrom b == Spec.controlByteOf b) = true := by
  decide +kernel
theorem ob_cred_protect_table : (List.range 256).all (fun b => firstMatch Gen.credProtectTryFrom b == Spec.credProtectOf b) = true := by
  decide +kernel
theorem ob_status_distinct : (Spec.statusCodes.map (·.2)).Nodup ∧ (Spec.statusCodes.map (·.1)).Nodup := by decide
theorem ob_perm_distinct : (Spec.permissions.map (·.2)).Nodup := by decide

/-- where each enumeration sits in the generated message schemas -/
def enumSites (c : Cfg) : List (Option Ty × Ty) := [
  (((Gen.respRoles c).lookup "GetInfo").bind (walkTy · [0, 0]), Spec.versions),
  (((Gen.respRoles c).lookup "GetInfo").bind (walkTy · [1, 0]), Spec.extensions),
  (((Gen.respRoles c).lookup "GetInfo").bind (walkTy · [8, 0]), Spec.transports),
  (((Gen.respRoles c).lookup "MakeCredential").bind (walkTy · [0]), Spec.attestationFormats),
  (((Gen.reqRoles c).lookup "ClientPin").bind (walkTy · [1]), Spec.pinSubcommands),
  (((Gen.reqRoles c).lookup "CredentialManagement").bind (walkTy · [0]), Spec.credMgmtSubcommands),
  (((Gen.respRoles c).lookup "CredentialManagement").bind (walkTy · [9]), Spec.credProtectPolicies)]

theorem ob_enum_sites (c : Cfg) : (enumSites c).all (fun p => p.1 == some p.2) = true := by
  rcases c with ⟨_|_, _|_, _|_⟩ <;> decide

/-! #### generic table theorems, instantiated -/

def names (l : List String) : List (List Byte) := l.map Spec.ascii

/-- decoding a string-valued enumeration accepts a text exactly when it is one of the listed
    spellings, and yields that variant; every other text is rejected -/
theorem strEnum_decode (l : List String) (hnd : (names l).Nodup) (s r : Input)
    (hl : s.length < 4294967296) (hv : validUtf8 s = true) (i : Nat) :
    decLeaf (.enumStr (names l) ((names l).zip (List.range l.length))) (encText s ++ r) = .ok (.nat i, r)
      ↔ (names l)[i]? = some s := by
  have hlen : (names l).length = l.length := by simp [names]
  simp only [decLeaf, decText_encText s r hl, hv, if_true]
  constructor
  · intro h
    cases hk : lookupStr ((names l).zip (List.range l.length)) s with
    | none => rw [hk] at h; cases h
    | some j =>
      rw [hk] at h
      have hj : j = i := by cases h; rfl
      subst hj
      rw [← hlen] at hk
      exact (lookupStr_zip_range _ hnd s j).mp hk
  · intro h
    have := (lookupStr_zip_range _ hnd s i).mpr h
    rw [hlen] at this
    simp [this]

theorem strEnum_reject (l : List String) (hnd : (names l).Nodup) (s r : Input)
    (hl : s.length < 4294967296) (hn : s ∉ names l) :
    decLeaf (.enumStr (names l) ((names l).zip (List.range l.length))) (encText s ++ r) = .error .other := by
  have hlen : (names l).length = l.length := by simp [names]
  have hnone := lookupStr_none_of_not_mem _ hnd s hn
  rw [hlen] at hnone
  simp only [decLeaf, decText_encText s r hl]
  by_cases hv : validUtf8 s = true
  · simp [hv, hnone]
  · simp [hv]

/-- each variant is written as exactly its spelling -/
theorem strEnum_encode (l : List String) (de : List (List Byte × Nat)) (i : Nat) (s : List Byte)
    (h : (names l)[i]? = some s) : encLeaf (.enumStr (names l) de) (.nat i) = encText s := by
  simp [encLeaf, h]

/-- number-valued enumerations: an unsigned integer `n` (any width the reader understands) is
    accepted exactly when it is a listed discriminant -/
theorem reprEnum_decode (discs : List Nat) (hnd : discs.Nodup) (n : Nat) (r : Input)
    (hn : n < 18446744073709551616) (i : Nat) :
    decLeaf (.enumRepr discs) (encHead 0 n ++ r) = .ok (.nat i, r) ↔ (n < 256 ∧ discs[i]? = some n) := by
  simp only [decLeaf, decHead8]
  rw [decHead_encHead 24 0 n r (by omega) hn (by simp), headBound_24]
  by_cases h256 : n < 256
  · simp only [h256, if_true, true_and]
    constructor
    · intro h
      cases hk : indexOf discs n with
      | none => rw [hk] at h; cases h
      | some j =>
        rw [hk] at h
        have hj : j = i := by cases h; rfl
        subst hj
        exact (indexOf_iff discs hnd n j).mp hk
    · intro h
      simp [(indexOf_iff discs hnd n i).mpr h]
  · simp [h256]

theorem reprEnum_encode (discs : List Nat) (i d : Nat) (h : discs[i]? = some d) :
    encLeaf (.enumRepr discs) (.nat i) = encHead 0 d := by
  simp [encLeaf, h]

/-! #### the concrete tables are pairwise distinct (hypotheses of the theorems above) -/

theorem versions_distinct : (names ["FIDO_2_0", "FIDO_2_1", "FIDO_2_1_PRE", "U2F_V2"]).Nodup := by decide
theorem extensions_distinct : (names ["credProtect", "hmac-secret", "largeBlobKey", "thirdPartyPayment"]).Nodup := by decide
theorem transports_distinct : (names ["nfc", "usb"]).Nodup := by decide
theorem formats_distinct : (names ["none", "packed"]).Nodup := by decide
theorem pin_subcommands_distinct : [1, 2, 3, 4, 5, 6, 7, 9].Nodup := by decide
theorem cm_subcommands_distinct : [1, 2, 3, 4, 5, 6, 7].Nodup := by decide
theorem policies_distinct : [1, 2, 3].Nodup := by decide

/-- U2F control bytes: exactly 3, 7, 8 -/
theorem control_byte (b : Byte) : firstMatch Gen.controlByteTryFrom b.toNat = Spec.controlByteOf b.toNat := by
  have := forall_lt_of_all 256 _ ob_control_table b.toNat (UInt8.toNat_lt b)
  simpa using this

/-- credential protection policy from a byte: exactly 1, 2, 3 -/
theorem cred_protect (b : Byte) : firstMatch Gen.credProtectTryFrom b.toNat = Spec.credProtectOf b.toNat := by
  have := forall_lt_of_all 256 _ ob_cred_protect_table b.toNat (UInt8.toNat_lt b)
  simpa using this

/-! non-vacuity -/
example : (names ["nfc", "usb"])[1]? = some [0x75, 0x73, 0x62] := by decide
example : [0x55, 0x53, 0x42] ∉ names ["nfc", "usb"] := by decide   -- "USB" (case variant) is not listed
example : ([1, 2, 3, 4, 5, 6, 7, 9] : List Nat)[7]? = some 9 := by decide
example : (8 : Nat) ∉ [1, 2, 3, 4, 5, 6, 7, 9] := by decide   -- PIN sub-command 8 is a gap

end C18
