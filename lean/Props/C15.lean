import Props.Obligations
import Ctap.RoundTrip
/-
  C15 — encoding then decoding (and decoding then encoding) is the identity.
  One generic theorem (`rt`, Ctap/RoundTrip.lean: structural induction over the schema universe,
  no bound on sizes) + per-run obligations that every bidirectional schema regenerated from the
  source is well-formed (`wf`: distinct keys, consistent string / number tables, …).
-/
namespace C15

/-- the bidirectional message types, by role -/
def bidirReq : List String := ["ClientPin", "CredentialManagement", "LargeBlobs"]
def bidirResp : List String := ["GetInfo", "ClientPin", "LargeBlobs"]

/-- nested bidirectional types, as schema values of the specification -/
def nested (c : Cfg) : List Ty := [
  Spec.hmacSecretInput, Spec.authenticatorOptions, Spec.mcExtensions c, Spec.gaExtensionsIn c,
  Spec.gaExtensionsOut c, Spec.rpEntity, Spec.userEntity, Spec.descriptor, Spec.descriptorRef,
  Spec.credParam, Spec.credParams, Spec.ctapOptions c, Spec.credMgmtParams,
  Spec.versions, Spec.extensions, Spec.transports, Spec.attestationFormats,
  Spec.pinSubcommands, Spec.credMgmtSubcommands, Spec.credProtectPolicies] ++
  (if c.g then [Spec.certifications] else [])

/-! #### per-run obligations -/

theorem ob_wf_req (c : Cfg) : bidirReq.all (fun n =>
    match (Gen.reqRoles c).lookup n with | some t => wf t | none => false) = true := by
  rcases c with ⟨_|_, _|_, _|_⟩ <;> decide +kernel

theorem ob_wf_resp (c : Cfg) : bidirResp.all (fun n =>
    match (Gen.respRoles c).lookup n with | some t => wf t | none => false) = true := by
  rcases c with ⟨_|_, _|_, _|_⟩ <;> decide +kernel

theorem ob_wf_nested (c : Cfg) : (nested c).all wf = true := by
  rcases c with ⟨_|_, _|_, _|_⟩ <;> decide +kernel

/-! #### property theorems -/

/-- **decode ∘ encode = id** for the bidirectional requests of the *generated* schemas -/
theorem request_roundtrip (c : Cfg) (n : String) (hn : n ∈ bidirReq) (t : Ty)
    (ht : (Gen.reqRoles c).lookup n = some t) (v : Val) (hv : wt t v = true) :
    decode t (encode t v) = .ok (v, []) := by
  have hall := List.all_eq_true.mp (ob_wf_req c) n hn
  rw [ht] at hall
  simpa using rt t hall v [] hv

theorem response_roundtrip (c : Cfg) (n : String) (hn : n ∈ bidirResp) (t : Ty)
    (ht : (Gen.respRoles c).lookup n = some t) (v : Val) (hv : wt t v = true) :
    decode t (encode t v) = .ok (v, []) := by
  have hall := List.all_eq_true.mp (ob_wf_resp c) n hn
  rw [ht] at hall
  simpa using rt t hall v [] hv

theorem nested_roundtrip (c : Cfg) (t : Ty) (ht : t ∈ nested c) (v : Val) (hv : wt t v = true) (r : Input) :
    decode t (encode t v ++ r) = .ok (v, r) :=
  rt t (List.all_eq_true.mp (ob_wf_nested c) t ht) v r hv

/-- **encode ∘ decode = id on reference encodings**: re-encoding what was decoded from the
    encoding of any well-typed value reproduces those bytes -/
theorem reencode (t : Ty) (hwf : wf t = true) (v₀ : Val) (hv : wt t v₀ = true) :
    ∀ v, decode t (encode t v₀) = .ok (v, []) → encode t v = encode t v₀ := by
  intro v h
  have := rt t hwf v₀ [] hv
  simp only [List.append_nil] at this
  rw [this] at h
  cases h; rfl

/-! non-vacuity: a concrete ClientPin request with a key-agreement key and a PIN hash -/
example : wt Spec.reqClientPin (.record [some (.nat 1), some (.nat 4), some (.record [some (.bytes [1,2]), some (.bytes [3])]),
    none, none, some (.bytes [9, 9]), none, none, some (.nat 255), some (.text [0x61])]) = true := by decide

end C15
