import Props.Obligations
import Props.C17
import Ctap.Canon
/-
  C02 — response encoding carries every member under its specified key, exactly.
-/
namespace C02

/-! ### "never as null" -/

mutual
/-- the schema cannot make the serializer write `null`: every member that may be unset is skipped
    when unset (or never written), and no member has the unit type -/
def noNull : Ty → Bool
  | .leaf .unit => false
  | .leaf _ => true
  | .vec _ t => noNull t
  | .filtered _ _ _ _ elem => noNull elem
  | .indexed _ fs => noNullF fs
  | .text fs => noNullF fs
  | .untagged alts => noNullA alts
def noNullF : Fields → Bool
  | .nil => true
  | .cons f t rest => (f.ser == .never || (f.ser == .skipNone && noNull t) ||
                       (f.ser == .always && f.required && f.mode == .plain && noNull t)) && noNullF rest
def noNullA : Fields → Bool
  | .nil => true
  | .cons _ t rest => noNull t && noNullA rest
end

mutual
def nullFree : CItem → Bool
  | .null => false
  | .arr xs => nullFreeL xs
  | .map kvs => nullFreeP kvs
  | _ => true
def nullFreeL : CItems → Bool
  | .nil => true
  | .cons x xs => nullFree x && nullFreeL xs
def nullFreeP : CPairs → Bool
  | .nil => true
  | .cons k v rest => nullFree k && nullFree v && nullFreeP rest
end

theorem nullFree_cInt (i : Int) : nullFree (cInt i) = true := by unfold cInt; split <;> rfl

theorem nullFree_cCose (k : CoseKind) (x y : Option (List Byte)) : nullFree (cCose k x y) = true := by
  cases k <;> cases x <;> cases y <;> simp [cCose, CoseKind.consts, nullFree, nullFreeP, nullFree_cInt]

theorem nullFreeL_ofList (xs : List CItem) (h : ∀ x ∈ xs, nullFree x = true) : nullFreeL (CItems.ofList xs) = true := by
  induction xs with
  | nil => rfl
  | cons x xs ih => simp [CItems.ofList, nullFreeL, h x (by simp), ih (fun y hy => h y (by simp [hy]))]

theorem nullFree_leaf (l : Leaf) (v : Val) (hn : noNull (.leaf l) = true) (h : wts (.leaf l) v = true) :
    nullFree (toCLeaf l v) = true := by
  cases l with
  | unit => simp [noNull] at hn
  | cosePub =>
    match v, h with
    | .variant k (.record [x, y]), _ => simp [toCLeaf, nullFree_cCose]
  | coseEcdh =>
    match v, h with
    | .record [some (.bytes x), some (.bytes y)], _ => simp [toCLeaf, nullFree_cCose]
  | i32 => cases v <;> simp [wts, wtLeaf] at h; simp [toCLeaf, nullFree_cInt]
  | _ => cases v <;> simp [wts, wtLeaf] at h <;> simp [toCLeaf, nullFree]

mutual
theorem nullFree_toC : ∀ (t : Ty) (v : Val), noNull t = true → wts t v = true → nullFree (toC t v) = true
  | .leaf l, v, hn, h => by simp only [toC]; exact nullFree_leaf l v hn h
  | .vec cap t, .list vs, hn, h => by
      simp only [noNull] at hn
      simp only [wts, Bool.and_eq_true, List.all_eq_true] at h
      simp only [toC, nullFree]
      apply nullFreeL_ofList
      intro x hx
      simp only [List.mem_map] at hx
      obtain ⟨v, hv, rfl⟩ := hx
      exact nullFree_toC t v hn (h.2 v hv)
  | .filtered cap known d lit elem, .list vs, hn, h => by
      simp only [noNull] at hn
      simp only [wts, Bool.and_eq_true, List.all_eq_true] at h
      simp only [toC, nullFree]
      apply nullFreeL_ofList
      intro x hx
      simp only [List.mem_map] at hx
      obtain ⟨v, hv, rfl⟩ := hx
      exact nullFree_toC elem _ hn (h.2 v hv)
  | .indexed off fs, .record s, hn, h => by
      simp only [noNull] at hn; simp only [wts] at h
      simp only [toC, nullFree]
      exact nullFreeF (cKeyIdx off) (fun i f => rfl) fs 0 s hn h
  | .text fs, .record s, hn, h => by
      simp only [noNull] at hn; simp only [wts] at h
      simp only [toC, nullFree]
      exact nullFreeF cKeyTxt (fun i f => rfl) fs 0 s hn h
  | .untagged alts, .variant i v, hn, h => by
      simp only [noNull] at hn; simp only [wts] at h
      simp only [toC]
      exact nullFreeA alts i v hn h
  | .vec _ _, .nat _, _, h | .vec _ _, .int _, _, h | .vec _ _, .bool _, _, h | .vec _ _, .unit, _, h
  | .vec _ _, .bytes _, _, h | .vec _ _, .text _, _, h | .vec _ _, .record _, _, h | .vec _ _, .variant _ _, _, h
  | .filtered _ _ _ _ _, .nat _, _, h | .filtered _ _ _ _ _, .int _, _, h | .filtered _ _ _ _ _, .bool _, _, h
  | .filtered _ _ _ _ _, .unit, _, h | .filtered _ _ _ _ _, .bytes _, _, h | .filtered _ _ _ _ _, .text _, _, h
  | .filtered _ _ _ _ _, .record _, _, h | .filtered _ _ _ _ _, .variant _ _, _, h
  | .indexed _ _, .nat _, _, h | .indexed _ _, .int _, _, h | .indexed _ _, .bool _, _, h | .indexed _ _, .unit, _, h
  | .indexed _ _, .bytes _, _, h | .indexed _ _, .text _, _, h | .indexed _ _, .list _, _, h | .indexed _ _, .variant _ _, _, h
  | .text _, .nat _, _, h | .text _, .int _, _, h | .text _, .bool _, _, h | .text _, .unit, _, h
  | .text _, .bytes _, _, h | .text _, .text _, _, h | .text _, .list _, _, h | .text _, .variant _ _, _, h
  | .untagged _, .nat _, _, h | .untagged _, .int _, _, h | .untagged _, .bool _, _, h | .untagged _, .unit, _, h
  | .untagged _, .bytes _, _, h | .untagged _, .text _, _, h | .untagged _, .list _, _, h | .untagged _, .record _, _, h => by
      simp [wts] at h
theorem nullFreeF (ckey : Nat → FieldInfo → CItem) (hk : ∀ i f, nullFree (ckey i f) = true) :
    ∀ (fs : Fields) (i : Nat) (s : Slots), noNullF fs = true → wtsFields fs s = true →
    nullFreeP (toCFields ckey fs i s) = true
  | .nil, _, _, _, _ => rfl
  | .cons f t rest, i, s, hn, h => by
      match s, h with
      | [], h => simp [wtsFields] at h
      | o :: s', h =>
        simp only [wtsFields, Bool.and_eq_true] at h
        simp only [noNullF, Bool.and_eq_true, Bool.or_eq_true, beq_iff_eq] at hn
        simp only [toCFields, List.head?_cons, Option.join_some, List.tail_cons]
        by_cases hem : emits f.ser o = true
        · simp only [hem, if_true, nullFreeP, Bool.and_eq_true, hk]
          refine ⟨⟨trivial, ?_⟩, nullFreeF ckey hk rest (i+1) s' hn.2 h.2⟩
          have hne : f.ser ≠ .never := by intro hx; rw [hx] at hem; simp [emits] at hem
          cases o with
          | none =>
            -- an emitted unset member would need `always`; the schema then makes it mandatory
            exfalso
            have h1 := h.1
            rcases hn.1 with (hnv | hsk) | hal
            · exact hne hnv
            · rw [hsk.1] at hem; simp [emits] at hem
            · simp [hal.1.1.1, hal.1.1.2, hal.1.2] at h1
          | some v =>
            have h1 := h.1
            simp only [Bool.and_eq_true] at h1
            rcases hn.1 with (hnv | hsk) | hal
            · exact absurd hnv hne
            · exact nullFree_toC t v hsk.2 h1.2
            · exact nullFree_toC t v hal.2 h1.2
        · simp only [hem, Bool.false_eq_true, if_false]
          exact nullFreeF ckey hk rest (i+1) s' hn.2 h.2
theorem nullFreeA : ∀ (alts : Fields) (i : Nat) (v : Val), noNullA alts = true → wtsAlt alts i v = true →
    nullFree (toCAlt alts i v) = true
  | .nil, _, _, _, h => by simp [wtsAlt] at h
  | .cons _ t _, 0, v, hn, h => by
      simp only [noNullA, Bool.and_eq_true] at hn; simp only [wtsAlt] at h; simp only [toCAlt]
      exact nullFree_toC t v hn.1 h
  | .cons _ _ rest, i+1, v, hn, h => by
      simp only [noNullA, Bool.and_eq_true] at hn; simp only [wtsAlt] at h; simp only [toCAlt]
      exact nullFreeA rest i v hn.2 h
end

/-! ### per-run obligations -/

theorem ob_no_null (c : Cfg) : (Gen.respRoles c).all (fun p => noNull p.2) = true := by
  rcases c with ⟨_|_, _|_, _|_⟩ <;> decide +kernel

theorem ob_indexed1 (c : Cfg) : (Gen.respRoles c).all (fun p =>
    match p.2 with | .indexed 1 _ => true | _ => false) = true := by
  rcases c with ⟨_|_, _|_, _|_⟩ <;> decide

/-! ### property theorems -/

/-- the members a response value has set, each once, under its key (position + 1), in key order;
    unset optional members do not occur -/
def members (fs : Fields) (s : Slots) : CPairs := toCFields (cKeyIdx 1) fs 0 s

/-- **The message.** For every response kind with a body, every value an authenticator can build
    and every buffer that is large enough: status 0x00 followed by exactly the canonical encoding of
    the map of the set members — or the status byte alone when no member is set. -/
theorem message (c : Cfg) (variant : String) (fs : Fields) (s : Slots) (cap : Nat) (prior : List Byte)
    (ht : Gen.respBodyTy c variant = some (some (.indexed 1 fs)))
    (hv : wts (.indexed 1 fs) (.record s) = true)
    (hcap : (encC (.map (members fs s))).length + 1 ≤ cap) (hprior : prior.length ≤ cap) :
    Gen.respSerialize c variant (.record s) cap prior =
      .ret (if encC (.map (members fs s)) = [0xA0] then [0x00] else 0x00 :: encC (.map (members fs s))) := by
  have he : encode (.indexed 1 fs) (.record s) = encC (.map (members fs s)) := by
    rw [e1 _ _ hv]; rfl
  rw [C17.model_response c variant _ (.record s) cap prior ht (by omega) hprior, he]
  simp [C17.expected, hcap]

/-- no member is written as `null`, at any depth -/
theorem never_null (c : Cfg) (variant : String) (t : Ty) (v : Val)
    (ht : (variant, t) ∈ Gen.respRoles c) (hv : wts t v = true) : nullFree (toC t v) = true :=
  nullFree_toC t v (List.all_eq_true.mp (ob_no_null c) _ ht) hv

/-- Reset / Selection / Vendor: the status byte alone -/
theorem parameterless (c : Cfg) (variant : String) (v : Val) (cap : Nat) (prior : List Byte)
    (ht : Gen.respBodyTy c variant = some none) (hcap : 1 ≤ cap) (hprior : prior.length ≤ cap) :
    Gen.respSerialize c variant v cap prior = .ret [0x00] :=
  C17.empty_response c variant v cap prior ht hcap hprior

/-- GetNextAssertion is encoded exactly like GetAssertion -/
theorem next_assertion (c : Cfg) : Gen.respBodyTy c "GetNextAssertion" = Gen.respBodyTy c "GetAssertion" := by
  rcases c with ⟨_|_, _|_, _|_⟩ <;> decide

/-! non-vacuity: a ClientPin response with `pinRetries` = 8 -/
example : encC (.map (members (Spec.Fields.ofList [Spec.iopt (.leaf .coseEcdh), Spec.iopt (Spec.bstrMax 48),
    Spec.iopt Spec.u8]) [none, none, some (.nat 8)])) = [0xa1, 0x03, 0x08] := by decide

end C02
