import Props.Obligations
import Ctap.Canon
import Ctap.KeyOrder
/-
  C03 — everything the authenticator emits is CTAP2 canonical CBOR.
-/
namespace C03

/-! #### per-run obligations: every pair of serialisable members of every struct reachable from a
    response body or an authenticator-data extension map is declared in canonical key order -/

theorem ob_sorted_resp (c : Cfg) : (Gen.respRoles c).all (fun p => sortedKeys p.2) = true := by
  rcases c with ⟨_|_, _|_, _|_⟩ <;> decide +kernel

theorem ob_sorted_adext (c : Cfg) : (Gen.adExtRoles c).all (fun p => sortedKeys p.2) = true := by
  rcases c with ⟨_|_, _|_, _|_⟩ <;> decide +kernel

/-- the other public serialisable types (requests that also derive Serialize, stand-alone entities) -/
theorem ob_sorted_req (c : Cfg) : ["ClientPin", "CredentialManagement", "LargeBlobs"].all (fun n =>
    match (Gen.reqRoles c).lookup n with | some t => sortedKeys t | none => false) = true := by
  rcases c with ⟨_|_, _|_, _|_⟩ <;> decide +kernel

/-! #### property theorems -/

/-- **Canonical form of every response body**, every configuration, every serialisable value (any
    combination of present members, any magnitudes): the bytes are the encoding of one canonical
    item — definite lengths, shortest heads, no tags / floats / undefined, keys strictly increasing
    in canonical order at every nesting level — and nothing else (no trailing bytes). -/
theorem response_canonical (c : Cfg) (variant : String) (t : Ty) (v : Val)
    (ht : (Gen.respRoles c).lookup variant = some t) (hv : wts t v = true) :
    ∃ i : CItem, canon i = true ∧ encode t v = encC i := by
  have hmem : (variant, t) ∈ Gen.respRoles c := by
    clear hv
    generalize Gen.respRoles c = l at ht
    induction l with
    | nil => simp [List.lookup] at ht
    | cons p rest ih =>
      obtain ⟨k, x⟩ := p
      simp only [List.lookup] at ht
      by_cases hk : variant = k
      · subst hk; simp at ht; subst ht; simp
      · have : (variant == k) = false := by simpa using hk
        rw [this] at ht
        simp only [List.mem_cons]; right; exact ih ht
  have hs := List.all_eq_true.mp (ob_sorted_resp c) (variant, t) hmem
  exact ⟨toC t v, canon_toC t v hs hv, e1 t v hv⟩

/-- the extension map embedded in authenticator data (both flavours) -/
theorem extensions_canonical (c : Cfg) (flavour : String) (t : Ty) (v : Val)
    (ht : (flavour, t) ∈ Gen.adExtRoles c) (hv : wts t v = true) :
    ∃ i : CItem, canon i = true ∧ encode t v = encC i :=
  ⟨toC t v, canon_toC t v (List.all_eq_true.mp (ob_sorted_adext c) _ ht) hv, e1 t v hv⟩

/-- **The order is the order of the bytes on the wire** (G-ORDER, `Ctap/KeyOrder.lean`): the key
    order `canon` speaks of coincides with CTAP2's rule on the *encoded* keys — lower major type
    first, then the shorter encoding, then bytewise — for all integer / byte-string / text keys
    in shortest form. -/
theorem key_order_is_wire_order (k k' : CItem) (hk : isKey k = true) (hk' : isKey k' = true) :
    keyLt k k' = ctapLt (encC k) (encC k') := keyLt_wire k k' hk hk'

/-- hence every response body, at every nesting depth, has the encodings of its map keys strictly
    increasing in CTAP2 canonical order -/
theorem response_wire_canonical (c : Cfg) (variant : String) (t : Ty) (v : Val)
    (ht : (Gen.respRoles c).lookup variant = some t) (hv : wts t v = true) :
    ∃ i : CItem, wireCanon i = true ∧ encode t v = encC i := by
  obtain ⟨i, hc, he⟩ := response_canonical c variant t v ht hv
  have hmem : (variant, t) ∈ Gen.respRoles c := by
    generalize Gen.respRoles c = l at ht
    induction l with
    | nil => simp [List.lookup] at ht
    | cons p rest ih =>
      obtain ⟨k, x⟩ := p
      simp only [List.lookup] at ht
      by_cases hk : variant = k
      · subst hk; simp at ht; subst ht; simp
      · have : (variant == k) = false := by simpa using hk
        rw [this] at ht
        simp only [List.mem_cons]; right; exact ih ht
  have hs := List.all_eq_true.mp (ob_sorted_resp c) (variant, t) hmem
  exact ⟨toC t v, canon_wireCanon _ (canon_toC t v hs hv) (deepKeys_toC t v), e1 t v hv⟩

/-- any schema, stated once: declared pairwise in canonical order ⇒ canonical output -/
theorem generic (t : Ty) (v : Val) (hs : sortedKeys t = true) (hv : wts t v = true) :
    canon (toC t v) = true ∧ wireCanon (toC t v) = true ∧ encode t v = encC (toC t v) :=
  ⟨canon_toC t v hs hv, canon_wireCanon _ (canon_toC t v hs hv) (deepKeys_toC t v), e1 t v hv⟩

/-! #### what the obligation rejects: the two orders found in the pinned tree (since repaired) -/
example : sortedKeys (Spec.textMap [Spec.topt "setMinPINLength" Spec.bool, Spec.topt "pinUvAuthToken" Spec.bool]) = false := by
  decide
example : sortedKeys (Spec.textMap [Spec.topt "FIPS-CMVP-2" Spec.u8, Spec.topt "CC-EAL" Spec.u8, Spec.topt "FIDO" Spec.u8]) = false := by
  decide
/-! non-vacuity -/
example : wts (Spec.ctapOptions ⟨false, false, false⟩)
    (.record [some (.bool true), some (.bool true), none, some (.bool false), none, none, none, some (.bool true)]) = true := by
  decide

end C03
