import Ctap.RoundTrip
import Ctap.SkipThm
/-
  G-LOOP: the `visit_map` loops, abstracted from any encoder.  A map body on the wire is a list
  of entries; each entry has a precondition on the decoder's slot state and an effect on it (or an
  error).  The loop is the composition of the effects, in wire order, and fails with the first
  failing entry's error.  Instances: a known member read from given value bytes (any order of
  members ⇒ G-PERM; omitted members ⇒ G-MISS), a repeated member (duplicate), a member whose value
  bytes the member's reader rejects (first fault wins), and — for text-keyed structs — an unknown
  member holding any skippable item (G-UNK).
-/

/-- one iteration of `visit_map`: read a key, handle the entry -/
def oneStep {κ : Type} (readKey : Input → Res κ) (entry : κ → Input → DSlots → Res DSlots)
    (inp : Input) (s : DSlots) : Res DSlots :=
  match readKey inp with
  | .error e => .error e
  | .ok (k, inp') => entry k inp' s

theorem mapLoop_succ {κ : Type} (readKey : Input → Res κ) (entry : κ → Input → DSlots → Res DSlots)
    (n : Nat) (inp : Input) (s : DSlots) :
    mapLoop readKey entry (n+1) inp s =
      match oneStep readKey entry inp s with
      | .error e => .error e
      | .ok (s', inp'') => mapLoop readKey entry n inp'' s' := by
  simp only [mapLoop, oneStep]
  cases readKey inp with
  | error e => rfl
  | ok p => rfl

/-- a wire entry that is read successfully: its bytes, its effect on the slots, its precondition -/
structure StepOk where
  bytes : List Byte
  effect : DSlots → DSlots
  pre : DSlots → Prop

def StepOk.holds {κ : Type} (readKey : Input → Res κ) (entry : κ → Input → DSlots → Res DSlots)
    (st : StepOk) : Prop :=
  ∀ x s, st.pre s → oneStep readKey entry (st.bytes ++ x) s = .ok (st.effect s, x)

/-- the preconditions hold along the way -/
def Chain : List StepOk → DSlots → Prop
  | [], _ => True
  | st :: rest, s => st.pre s ∧ Chain rest (st.effect s)

def runSteps (steps : List StepOk) (s : DSlots) : DSlots := steps.foldl (fun s st => st.effect s) s

def stepsBytes (steps : List StepOk) : List Byte := (steps.map (·.bytes)).flatten

/-- **the loop is the composition of its entries** -/
theorem steps_ok {κ : Type} (readKey : Input → Res κ) (entry : κ → Input → DSlots → Res DSlots)
    (steps : List StepOk) (r : Input) (s0 : DSlots)
    (hall : ∀ st ∈ steps, st.holds readKey entry) (hch : Chain steps s0) :
    mapLoop readKey entry steps.length (stepsBytes steps ++ r) s0 = .ok (runSteps steps s0, r) := by
  induction steps generalizing s0 with
  | nil => simp [mapLoop, runSteps, stepsBytes]
  | cons st rest ih =>
    simp only [List.length_cons, stepsBytes, List.map_cons, List.flatten_cons, List.append_assoc]
    rw [mapLoop_succ, hall st (by simp) _ s0 hch.1]
    simp only []
    have := ih (st.effect s0) (fun st' h => hall st' (by simp [h])) hch.2
    simp only [stepsBytes] at this
    rw [this]
    simp [runSteps]

/-- **first fault wins**: after any successfully read prefix, an entry that fails makes the whole
    loop fail with that entry's error, whatever follows -/
theorem steps_err {κ : Type} (readKey : Input → Res κ) (entry : κ → Input → DSlots → Res DSlots)
    (pre : List StepOk) (bad junk : List Byte) (e : DErr) (m : Nat) (s0 : DSlots)
    (hall : ∀ st ∈ pre, st.holds readKey entry) (hch : Chain pre s0)
    (hbad : oneStep readKey entry (bad ++ junk) (runSteps pre s0) = .error e) :
    mapLoop readKey entry (pre.length + (m + 1)) (stepsBytes pre ++ (bad ++ junk)) s0 = .error e := by
  induction pre generalizing s0 with
  | nil =>
    simp only [List.length_nil, Nat.zero_add, stepsBytes, List.map_nil, List.flatten_nil, List.nil_append]
    rw [mapLoop_succ]
    simp only [runSteps, List.foldl_nil] at hbad
    rw [hbad]
  | cons st rest ih =>
    simp only [List.length_cons, stepsBytes, List.map_cons, List.flatten_cons, List.append_assoc]
    rw [show rest.length + 1 + (m + 1) = (rest.length + (m + 1)) + 1 by omega, mapLoop_succ,
      hall st (by simp) _ s0 hch.1]
    simp only []
    have := ih (st.effect s0) (fun st' h => hall st' (by simp [h])) hch.2 (by simpa [runSteps] using hbad)
    simp only [stepsBytes] at this
    exact this

/-! ### instances -/

/-- "these value bytes are read by member `f : t` as slot content `o`" -/
def ReadsAs (f : FieldInfo) (t : Ty) (bytes : List Byte) (o : Option Val) : Prop :=
  ∀ i x cur, slotSeen cur i = false →
    fieldValue (fun y => decode t y) f i (bytes ++ x) cur = .ok (cur.set i (some o), x)

/-- "these value bytes make member `f : t`'s reader fail with `e`" -/
def FailsWith (f : FieldInfo) (t : Ty) (bytes : List Byte) (e : DErr) : Prop :=
  ∀ i x cur, slotSeen cur i = false → fieldValue (fun y => decode t y) f i (bytes ++ x) cur = .error e

/-- a well-typed value's encoding is read back as that value (from G-RT) -/
theorem readsAs_encode (f : FieldInfo) (t : Ty) (hrt : RT t) (hu : f.mode.acceptsNull = true → t.isUnit = false)
    (o : Option Val) (hw : slotOk f t o) : ReadsAs f t (encSlot t o) o :=
  fun i x cur hun => fieldValue_rt f t hrt hu o i x cur hun hw

/-- a member that was already seen: `duplicate_field` -/
theorem fieldValue_dup (dec : Input → Res Val) (f : FieldInfo) (i : Nat) (inp : Input) (cur : DSlots)
    (h : slotSeen cur i = true) : fieldValue dec f i inp cur = .error .other := by
  simp [fieldValue, h]

theorem slotSeen_set_ne (cur : DSlots) (i j : Nat) (o : Option (Option Val)) (h : i ≠ j) :
    slotSeen (cur.set i o) j = slotSeen cur j := by
  simp only [slotSeen, List.getElem?_set_ne h]

theorem slotSeen_set_self (cur : DSlots) (i : Nat) (o : Option Val) (h : i < cur.length) :
    slotSeen (cur.set i (some o)) i = true := by
  simp [slotSeen, List.getElem?_set_self h]

theorem slotSeen_replicate (n i : Nat) : slotSeen (List.replicate n none) i = false := by
  simp only [slotSeen]
  by_cases h : i < n
  · simp [List.getElem?_replicate, h]
  · simp [List.getElem?_replicate, h]

/-- the step of a known member of a struct whose key reader / entry function find field `i` -/
def fieldStep (key : Nat → FieldInfo → List Byte) (i : Nat) (f : FieldInfo) (bytes : List Byte)
    (o : Option Val) : StepOk :=
  { bytes := key i f ++ bytes, effect := fun s => s.set i (some o), pre := fun s => slotSeen s i = false }

theorem fieldStep_holds {κ : Type} (readKey : Input → Res κ) (entry : κ → Input → DSlots → Res DSlots)
    (key : Nat → FieldInfo → List Byte) (kOf : Nat → FieldInfo → κ) (i : Nat) (f : FieldInfo) (t : Ty)
    (hkey : ∀ x, readKey (key i f ++ x) = .ok (kOf i f, x))
    (hentry : ∀ inp s, entry (kOf i f) inp s = fieldValue (fun x => decode t x) f i inp s)
    (bytes : List Byte) (o : Option Val) (hr : ReadsAs f t bytes o) :
    (fieldStep key i f bytes o).holds readKey entry := by
  intro x s hpre
  simp only [fieldStep, List.append_assoc, oneStep, hkey, hentry]
  exact hr i x s hpre

/-! ### unknown members of text-keyed structs (G-UNK) -/

def matchesAny : Fields → Nat → TKey → Bool
  | .nil, _, _ => false
  | .cons f _ rest, i, k => f.matches i k || matchesAny rest (i + 1) k

theorem decTxt_unknown : ∀ (fs : Fields) (j : Nat) (k : TKey) (inp : Input) (s : DSlots),
    matchesAny fs j k = false →
    decTxtEntry fs j k inp s = (match skipOne inp with | .error e => .error e | .ok (_, r) => .ok (s, r))
  | .nil, _, _, inp, _, _ => by
      cases hsk : skipOne inp with
      | error e => simp [decTxtEntry, hsk]
      | ok p => simp [decTxtEntry, hsk]
  | .cons f t rest, j, k, inp, s, h => by
      simp only [matchesAny, Bool.or_eq_false_iff] at h
      rw [decTxtEntry, h.1]
      simp only [Bool.false_eq_true, if_false]
      exact decTxt_unknown rest (j+1) k inp s h.2

/-- an unknown text key followed by any well-formed item: consumed, no effect on the slots -/
def unknownStep (name : List Byte) (x : Item) : StepOk :=
  { bytes := encText name ++ encAny x, effect := id, pre := fun _ => True }

theorem unknownStep_holds (fs : Fields) (name : List Byte) (x : Item)
    (hv : validUtf8 name = true) (hl : name.length < 4294967296) (hx : okItem x = true)
    (hnm : matchesAny fs 0 (.name name) = false) :
    (unknownStep name x).holds readTKey (fun k i s => decTxtEntry fs 0 k i s) := by
  intro y s _
  simp only [unknownStep, List.append_assoc, oneStep, readTKey_encText name _ hv hl,
    decTxt_unknown fs 0 _ _ s hnm, skipOne_item x y hx, id]

/-! ### struct-level statements -/

theorem text_steps (fs : Fields) (steps : List StepOk) (r : Input)
    (hall : ∀ st ∈ steps, st.holds readTKey (fun k i s => decTxtEntry fs 0 k i s))
    (hch : Chain steps (List.replicate fs.length none)) (hn : steps.length < 4294967296) :
    decode (.text fs) (encHead 5 steps.length ++ (stepsBytes steps ++ r)) =
      (if requiredOk fs (runSteps steps (List.replicate fs.length none)) then
         .ok (.record ((runSteps steps (List.replicate fs.length none)).map Option.join), r)
       else .error .missing) := by
  simp only [decode]
  rw [decHead32_encHead 5 _ _ (by omega) hn]
  simp only []
  rw [steps_ok readTKey _ steps r _ hall hch]

theorem indexed_steps (off : Nat) (fs : Fields) (steps : List StepOk) (r : Input)
    (hall : ∀ st ∈ steps, st.holds (decHead64 0) (fun k i s => decIdxEntry fs off 0 k i s))
    (hch : Chain steps (List.replicate fs.length none)) (hn : steps.length < 4294967296) :
    decode (.indexed off fs) (encHead 5 steps.length ++ (stepsBytes steps ++ r)) =
      (if requiredOk fs (runSteps steps (List.replicate fs.length none)) then
         .ok (.record ((runSteps steps (List.replicate fs.length none)).map Option.join), r)
       else .error .missing) := by
  simp only [decode]
  rw [decHead32_encHead 5 _ _ (by omega) hn]
  simp only []
  rw [steps_ok (decHead64 0) _ steps r _ hall hch]

theorem indexed_steps_err (off : Nat) (fs : Fields) (pre : List StepOk) (bad junk : List Byte) (e : DErr)
    (m : Nat)
    (hall : ∀ st ∈ pre, st.holds (decHead64 0) (fun k i s => decIdxEntry fs off 0 k i s))
    (hch : Chain pre (List.replicate fs.length none)) (hn : pre.length + (m + 1) < 4294967296)
    (hbad : oneStep (decHead64 0) (fun k i s => decIdxEntry fs off 0 k i s) (bad ++ junk)
              (runSteps pre (List.replicate fs.length none)) = .error e) :
    decode (.indexed off fs) (encHead 5 (pre.length + (m + 1)) ++ (stepsBytes pre ++ (bad ++ junk))) = .error e := by
  simp only [decode]
  rw [decHead32_encHead 5 _ _ (by omega) hn]
  simp only []
  rw [steps_err (decHead64 0) _ pre bad junk e m _ hall hch hbad]

theorem text_steps_err (fs : Fields) (pre : List StepOk) (bad junk : List Byte) (e : DErr) (m : Nat)
    (hall : ∀ st ∈ pre, st.holds readTKey (fun k i s => decTxtEntry fs 0 k i s))
    (hch : Chain pre (List.replicate fs.length none)) (hn : pre.length + (m + 1) < 4294967296)
    (hbad : oneStep readTKey (fun k i s => decTxtEntry fs 0 k i s) (bad ++ junk)
              (runSteps pre (List.replicate fs.length none)) = .error e) :
    decode (.text fs) (encHead 5 (pre.length + (m + 1)) ++ (stepsBytes pre ++ (bad ++ junk))) = .error e := by
  simp only [decode]
  rw [decHead32_encHead 5 _ _ (by omega) hn]
  simp only []
  rw [steps_err readTKey _ pre bad junk e m _ hall hch hbad]

/-- steps without effect (unknown members) can be removed without changing the final slots -/
theorem runSteps_filter (steps : List StepOk) (keep : StepOk → Bool) (s : DSlots)
    (h : ∀ st ∈ steps, keep st = false → st.effect = id) :
    runSteps (steps.filter keep) s = runSteps steps s := by
  induction steps generalizing s with
  | nil => rfl
  | cons st rest ih =>
    simp only [List.filter_cons]
    by_cases hk : keep st = true
    · simp only [hk, if_true, runSteps, List.foldl_cons]
      exact ih _ (fun st' h' => h st' (by simp [h']))
    · have hk' : keep st = false := by simpa using hk
      simp only [hk', Bool.false_eq_true, if_false]
      rw [ih s (fun st' h' => h st' (by simp [h']))]
      simp [runSteps, h st (by simp) hk']

theorem chain_filter (steps : List StepOk) (keep : StepOk → Bool) (s : DSlots)
    (h : ∀ st ∈ steps, keep st = false → st.effect = id) (hch : Chain steps s) :
    Chain (steps.filter keep) s := by
  induction steps generalizing s with
  | nil => trivial
  | cons st rest ih =>
    simp only [List.filter_cons]
    by_cases hk : keep st = true
    · simp only [hk, if_true, Chain]
      exact ⟨hch.1, ih _ (fun st' h' => h st' (by simp [h'])) hch.2⟩
    · have hk' : keep st = false := by simpa using hk
      simp only [hk', Bool.false_eq_true, if_false]
      have := hch.2
      rw [h st (by simp) hk'] at this
      exact ih s (fun st' h' => h st' (by simp [h'])) this
