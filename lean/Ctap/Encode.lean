import Ctap.Schema
/-
  `encode : Ty → Val → List Byte` — the bytes the serde stack (serde_derive / serde-indexed /
  serde_repr / cosey / heapless / cbor-smol `ser.rs`) writes for a value.  The real serializer
  issues the bytes as a sequence of `write_all` chunks; `Ctap/Frame.lean` shows that for the two
  bounded writers in use only the *total* length decides success, so the model is flat.
  Ill-typed (type, value) pairs encode to `[]`; every theorem about `encode` carries a `WT`
  hypothesis that excludes them.
-/

/-- CBOR integer: major 0 for `i ≥ 0`, major 1 with argument `-1 - i` otherwise
    (`serialize_i8/i32`: `sign ^ value`) -/
def encInt (i : Int) : List Byte :=
  if i ≥ 0 then encHead 0 i.toNat else encHead 1 (-1 - i).toNat

def encBytes (b : List Byte) : List Byte := encHead 2 b.length ++ b
def encText (b : List Byte) : List Byte := encHead 3 b.length ++ b

/-- (kty, alg, crv?) constants of `cosey`'s `PublicKeyConstants` impls -/
def CoseKind.consts : CoseKind → Int × Int × Option Int
  | .p256 => (2, -7, some 1)
  | .ecdh => (2, -25, some 1)
  | .ed25519 => (1, -8, some 6)
  | .totp => (4, -9, none)

def CoseKind.ofIdx : Nat → Option CoseKind
  | 0 => some .p256 | 1 => some .ecdh | 2 => some .ed25519 | 3 => some .totp | _ => none

/-- `RawPublicKey::serialize`: members in the fixed order 1, 3, -1, -2, -3, present ones only -/
def encCose (k : CoseKind) (x y : Option (List Byte)) : List Byte :=
  let (kty, alg, crv) := k.consts
  let n := 2 + (if crv.isSome then 1 else 0) + (if x.isSome then 1 else 0) + (if y.isSome then 1 else 0)
  encHead 5 n ++ encInt 1 ++ encInt kty ++ encInt 3 ++ encInt alg
    ++ (match crv with | some c => encInt (-1) ++ encInt c | none => [])
    ++ (match x with | some b => encInt (-2) ++ encBytes b | none => [])
    ++ (match y with | some b => encInt (-3) ++ encBytes b | none => [])

def optBytes : Option Val → Option (List Byte)
  | some (.bytes b) => some b
  | _ => none

def encLeaf : Leaf → Val → List Byte
  | .uint _, .nat n => encHead 0 n
  | .i32, .int i => encInt i
  | .bool, .bool b => [if b then 0xf5 else 0xf4]
  | .unit, .unit => [0xf6]
  | .bytes _, .bytes b => encBytes b
  | .byteArray _, .bytes b => encBytes b
  | .str _, .text b => encText b
  | .enumStr ser _, .nat i => match ser[i]? with | some s => encText s | none => []
  | .enumRepr discs, .nat i => match discs[i]? with | some d => encHead 0 d | none => []
  | .coseEcdh, .record [x, y] => encCose .ecdh (optBytes x) (optBytes y)
  | .cosePub, .variant k (.record [x, y]) =>
      (match CoseKind.ofIdx k with
       | some kind => encCose kind (optBytes x) (optBytes y)
       | none => [])
  | _, _ => []

/-- does a slot produce a map entry? -/
def emits (s : SerMode) (o : Option Val) : Bool :=
  match s with
  | .always => true
  | .skipNone => o.isSome
  | .never => false

/-- integer map key of member `i` of an indexed struct (`usize` ⇒ u64 head) -/
def keyIdx (off : Nat) : Nat → FieldInfo → List Byte := fun i _ => encHead 0 (off + i)
/-- text map key of a serde_derive struct member -/
def keyTxt : Nat → FieldInfo → List Byte := fun _ f => encText f.key

mutual
def encode : Ty → Val → List Byte
  | .leaf l, v => encLeaf l v
  | .vec _ t, .list vs => encHead 4 vs.length ++ (vs.map (fun v => encode t v)).flatten
  | .filtered _ _ _ lit elem, .list vs =>
      encHead 4 vs.length ++
        (vs.map (fun v => encode elem (.record [some v, some (.text lit)]))).flatten
  | .indexed off fs, .record s => encHead 5 (countEmit fs s) ++ encFields (keyIdx off) fs 0 s
  | .text fs, .record s => encHead 5 (countEmit fs s) ++ encFields keyTxt fs 0 s
  | .untagged alts, .variant i v => encAlt alts i v
  | _, _ => []
/-- number of map entries written (`serialize_map(Some(count))` / `serialize_struct(len)`) -/
def countEmit : Fields → Slots → Nat
  | .nil, _ => 0
  | .cons f _ rest, s => (if emits f.ser s.head?.join then 1 else 0) + countEmit rest s.tail
/-- the entries of a struct in declaration order: key, then the value (`null` for an unset member
    that is not skipped) -/
def encFields (key : Nat → FieldInfo → List Byte) : Fields → Nat → Slots → List Byte
  | .nil, _, _ => []
  | .cons f t rest, i, s =>
    (if emits f.ser s.head?.join then
       key i f ++ (match s.head?.join with | some v => encode t v | none => [0xf6])
     else []) ++ encFields key rest (i+1) s.tail
def encAlt : Fields → Nat → Val → List Byte
  | .nil, _, _ => []
  | .cons _ t _, 0, v => encode t v
  | .cons _ _ rest, i+1, v => encAlt rest i v
end
