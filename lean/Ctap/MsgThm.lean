import Ctap.FaultThm
/-
  Message-level statements for the two struct kinds: a map body given as a list of entries
  (member index, value bytes, what the member's reader makes of them), in *any* order, for text
  structs interleaved with unknown members.
-/

/-- one known member on the wire -/
structure Ent where
  idx : Nat
  f : FieldInfo
  t : Ty
  bytes : List Byte
  out : Option Val

/-- slot state after reading the entries -/
def setAll (ents : List Ent) (s : DSlots) : DSlots := ents.foldl (fun s e => s.set e.idx (some e.out)) s

theorem runSteps_fieldSteps (key : Nat → FieldInfo → List Byte) (ents : List Ent) (s : DSlots) :
    runSteps (ents.map (fun e => fieldStep key e.idx e.f e.bytes e.out)) s = setAll ents s := by
  induction ents generalizing s with
  | nil => rfl
  | cons e rest ih => simp only [List.map_cons, runSteps, List.foldl_cons, setAll] at ih ⊢; exact ih _

theorem chain_fieldSteps (key : Nat → FieldInfo → List Byte) (ents : List Ent) (s : DSlots)
    (hnd : (ents.map (·.idx)).Nodup) (hun : ∀ e ∈ ents, slotSeen s e.idx = false) :
    Chain (ents.map (fun e => fieldStep key e.idx e.f e.bytes e.out)) s := by
  induction ents generalizing s with
  | nil => trivial
  | cons e rest ih =>
    simp only [List.map_cons, List.nodup_cons, List.mem_map, not_exists, not_and] at hnd
    refine ⟨hun e (by simp), ?_⟩
    apply ih _ hnd.2
    intro e' he'
    have hne : e.idx ≠ e'.idx := fun h => hnd.1 e' he' h.symm
    simp only [fieldStep]
    rw [slotSeen_set_ne _ _ _ _ hne]
    exact hun e' (by simp [he'])

/-- what slot `i` holds afterwards: the content of the (unique) entry for `i`, if any -/
theorem setAll_get (ents : List Ent) (s : DSlots) (i : Nat) (hnd : (ents.map (·.idx)).Nodup)
    (hlt : ∀ e ∈ ents, e.idx < s.length) :
    (setAll ents s)[i]? = match ents.find? (fun e => e.idx == i) with
      | some e => some (some e.out)
      | none => s[i]? := by
  induction ents generalizing s with
  | nil => rfl
  | cons e rest ih =>
    simp only [List.map_cons, List.nodup_cons, List.mem_map, not_exists, not_and] at hnd
    simp only [setAll, List.foldl_cons]
    have hlt' : ∀ e' ∈ rest, e'.idx < (s.set e.idx (some e.out)).length := by
      intro e' he'; simp; exact hlt e' (by simp [he'])
    have := ih (s.set e.idx (some e.out)) hnd.2 hlt'
    simp only [setAll] at this
    rw [this]
    by_cases hei : e.idx = i
    · subst hei
      have hnone : rest.find? (fun e' => e'.idx == e.idx) = none := by
        rw [List.find?_eq_none]
        intro e' he'
        simp only [beq_iff_eq]
        exact fun h => hnd.1 e' he' h
      simp [hnone, List.getElem?_set_self (hlt e (by simp))]
    · have : (e.idx == i) = false := by simpa using hei
      simp only [List.find?_cons, this]
      cases rest.find? (fun e' => e'.idx == i) with
      | some e' => rfl
      | none => simp [List.getElem?_set_ne hei]

/-- **Integer-keyed structs (request / response parameter maps).**  Entries in any order, each
    read by its member's reader: the result has exactly those members set (the others absent), or
    `missing` when a required one is not among them. -/
theorem indexed_message (off : Nat) (fs : Fields) (ents : List Ent) (r : Input)
    (hnth : ∀ e ∈ ents, fs.nth e.idx = some (e.f, e.t))
    (hreads : ∀ e ∈ ents, ReadsAs e.f e.t e.bytes e.out)
    (hnd : (ents.map (·.idx)).Nodup) (hoff : off + fs.length < 18446744073709551616)
    (hn : ents.length < 4294967296) :
    decode (.indexed off fs)
        (encHead 5 ents.length ++ ((ents.map (fun e => keyIdx off e.idx e.f ++ e.bytes)).flatten ++ r)) =
      (if requiredOk fs (setAll ents (List.replicate fs.length none)) then
         .ok (.record ((setAll ents (List.replicate fs.length none)).map Option.join), r)
       else .error .missing) := by
  have hall : ∀ st ∈ ents.map (fun e => fieldStep (keyIdx off) e.idx e.f e.bytes e.out),
      st.holds (decHead64 0) (fun k i s => decIdxEntry fs off 0 k i s) := by
    intro st hst
    simp only [List.mem_map] at hst
    obtain ⟨e, he, rfl⟩ := hst
    have hlt := Fields.nth_lt fs e.idx _ (hnth e he)
    apply fieldStep_holds (decHead64 0) _ (keyIdx off) (fun i _ => off + i) e.idx e.f e.t
    · intro x; exact decHead64_encHead 0 (off + e.idx) x (by omega) (by omega)
    · intro inp s
      have := decIdx_lookup fs off 0 e.idx e.f e.t inp s (hnth e he)
      simpa using this
    · exact hreads e he
  have hch := chain_fieldSteps (keyIdx off) ents (List.replicate fs.length none) hnd
    (fun e _ => slotSeen_replicate _ _)
  have := indexed_steps off fs _ r hall hch (by simpa using hn)
  simp only [List.length_map, runSteps_fieldSteps, stepsBytes, List.map_map] at this
  exact this

/-- an entry of a text-keyed map: a known member or an unknown one -/
inductive TEnt
  | known (e : Ent)
  | unknown (name : List Byte) (x : Item)

def TEnt.step : TEnt → StepOk
  | .known e => fieldStep keyTxt e.idx e.f e.bytes e.out
  | .unknown n x => unknownStep n x

def TEnt.isKnown : TEnt → Bool
  | .known _ => true
  | .unknown _ _ => false

def knownOf : List TEnt → List Ent
  | [] => []
  | .known e :: rest => e :: knownOf rest
  | .unknown _ _ :: rest => knownOf rest

theorem runSteps_tents (ents : List TEnt) (s : DSlots) :
    runSteps (ents.map TEnt.step) s = setAll (knownOf ents) s := by
  induction ents generalizing s with
  | nil => rfl
  | cons e rest ih =>
    cases e with
    | known e => simp only [List.map_cons, runSteps, List.foldl_cons, knownOf, setAll] at ih ⊢; exact ih _
    | unknown n x =>
      simp only [List.map_cons, runSteps, List.foldl_cons, knownOf] at ih ⊢
      exact ih s

theorem chain_tents (ents : List TEnt) (s : DSlots)
    (hnd : ((knownOf ents).map (·.idx)).Nodup) (hun : ∀ e ∈ knownOf ents, slotSeen s e.idx = false) :
    Chain (ents.map TEnt.step) s := by
  induction ents generalizing s with
  | nil => trivial
  | cons e rest ih =>
    cases e with
    | known e =>
      simp only [knownOf, List.map_cons, List.nodup_cons, List.mem_map, not_exists, not_and] at hnd
      refine ⟨hun e (by simp [knownOf]), ?_⟩
      apply ih _ hnd.2
      intro e' he'
      have hne : e.idx ≠ e'.idx := fun h => hnd.1 e' he' h.symm
      simp only [TEnt.step, fieldStep]
      rw [slotSeen_set_ne _ _ _ _ hne]
      exact hun e' (by simp [knownOf, he'])
    | unknown n x =>
      refine ⟨trivial, ?_⟩
      simp only [TEnt.step, unknownStep, id]
      exact ih s (by simpa [knownOf] using hnd) (fun e' he' => hun e' (by simpa [knownOf] using he'))

/-- **Text-keyed structs (options, extensions, entities, descriptors, parameters).**  Known
    members in any order, interleaved with unknown members holding any well-formed item: the result
    depends on the known members only. -/
theorem text_message (fs : Fields) (ents : List TEnt) (r : Input)
    (hknown : ∀ e ∈ knownOf ents, fs.nth e.idx = some (e.f, e.t) ∧ ReadsAs e.f e.t e.bytes e.out ∧
        validUtf8 e.f.key = true ∧ e.f.key.length < 4294967296 ∧ keyFreshBefore e.f fs e.idx = true)
    (hunk : ∀ n x, TEnt.unknown n x ∈ ents → validUtf8 n = true ∧ n.length < 4294967296 ∧
        okItem x = true ∧ matchesAny fs 0 (.name n) = false)
    (hnd : ((knownOf ents).map (·.idx)).Nodup) (hn : ents.length < 4294967296) :
    decode (.text fs) (encHead 5 ents.length ++ (stepsBytes (ents.map TEnt.step) ++ r)) =
      (if requiredOk fs (setAll (knownOf ents) (List.replicate fs.length none)) then
         .ok (.record ((setAll (knownOf ents) (List.replicate fs.length none)).map Option.join), r)
       else .error .missing) := by
  have hmem : ∀ e, TEnt.known e ∈ ents → e ∈ knownOf ents := by
    intro e he
    induction ents with
    | nil => simp at he
    | cons a rest ih =>
      cases a with
      | known e' =>
        simp only [List.mem_cons, TEnt.known.injEq] at he
        rcases he with rfl | he
        · simp [knownOf]
        · simp only [knownOf, List.mem_cons]; right
          exact ih (fun e h => hknown e (by simp [knownOf, h]))
            (fun n x h => hunk n x (by simp [h])) (by simpa [knownOf] using (List.nodup_cons.mp (by simpa [knownOf] using hnd)).2)
            (by simp at hn ⊢; omega) he
      | unknown n x =>
        simp only [List.mem_cons, reduceCtorEq, false_or] at he
        simp only [knownOf]
        exact ih (fun e h => hknown e (by simpa [knownOf] using h))
          (fun n x h => hunk n x (by simp [h])) (by simpa [knownOf] using hnd) (by simp at hn ⊢; omega) he
  have hall : ∀ st ∈ ents.map TEnt.step, st.holds readTKey (fun k i s => decTxtEntry fs 0 k i s) := by
    intro st hst
    simp only [List.mem_map] at hst
    obtain ⟨te, hte, rfl⟩ := hst
    cases te with
    | known e =>
      obtain ⟨hnth, hr, hv, hl, hfresh⟩ := hknown e (hmem e hte)
      apply fieldStep_holds readTKey _ keyTxt (fun _ f => TKey.name f.key) e.idx e.f e.t
      · intro x; exact readTKey_encText e.f.key x hv hl
      · intro inp s
        have := decTxt_lookup fs 0 e.idx e.f e.t inp s hnth hfresh
        simpa using this
      · exact hr
    | unknown n x =>
      obtain ⟨hv, hl, hx, hm⟩ := hunk n x hte
      exact unknownStep_holds fs n x hv hl hx hm
  have hch := chain_tents ents (List.replicate fs.length none) hnd (fun e _ => slotSeen_replicate _ _)
  have := text_steps fs _ r hall hch (by simpa using hn)
  simp only [List.length_map, runSteps_tents] at this
  exact this
