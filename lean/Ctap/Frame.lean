import Ctap.Basic
import Ctap.Utf8
/-
  Hand model of `ctap2::Response::serialize` (src/ctap2.rs): the caller's `heapless::Vec<u8, N>`
  is resized to its capacity, split into status byte and body area, the body is written by
  cbor-smol's `&mut [u8]` writer (a sequence of `write_all` chunks), and the vector is finally
  shrunk to what was written, or to the single status byte `Error::Other` on failure.
-/

/-- cbor-smol `impl Writer for &mut [u8]`: each chunk is written whole or the call fails.
    Returns the bytes written so far and whether every chunk fitted into `room`. -/
def writeChunks : List (List Byte) → Nat → List Byte → (List Byte × Bool)
  | [], _, acc => (acc, true)
  | c :: cs, room, acc =>
    if room < c.length then (acc, false)
    else writeChunks cs (room - c.length) (acc ++ c)

/-- `heapless::Vec::resize_default(n)` on a vector with capacity `cap`: `Err` iff `n > cap`,
    otherwise truncate or zero-extend (callers ignore the result with `.ok()`) -/
def resizeDefault (cap n : Nat) (v : List Byte) : List Byte :=
  if n > cap then v
  else if n ≤ v.length then v.take n
  else v ++ List.replicate (n - v.length) 0

/-- `Response::serialize::<N>` with `N = cap`, the buffer holding `prior` beforehand, and the
    CBOR body delivered as write chunks (`none` = a parameter-less response: `Ok([])`). -/
def responseSerialize (errStatus : Byte) (chunks : Option (List (List Byte))) (cap : Nat)
    (prior : List Byte) : Outcome (List Byte) :=
  let buf := resizeDefault cap cap prior
  match buf with
  | [] => .panic                                            -- `split_first_mut().unwrap()`
  | _ :: data =>
    let outcome : Option (List Byte) :=
      match chunks with
      | none => some []
      | some cs =>
        let (written, ok) := writeChunks cs data.length []
        if ok then some written else none
    match outcome with
    | some slice =>
      let data' := slice ++ data.drop slice.length
      let buf' := (0 : Byte) :: data'
      if slice = [0xA0] then .ret (resizeDefault cap 1 buf')
      else .ret (resizeDefault cap (slice.length + 1) buf')
    | none =>
      -- a failed write may have left a partial body behind the status byte; it is cut off
      .ret (resizeDefault cap 1 (errStatus :: data))
