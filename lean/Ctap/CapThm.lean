import Ctap.RoundTrip
/-
  G-CAP: the bounded readers accept exactly the values within their limit and deliver them
  unchanged; the next larger one is refused with a plain CBOR error (never `missing`, never a
  truncated, wrapped or clamped value).
-/

theorem bytes_exact (c : Nat) (b r : Input) (hl : b.length < 4294967296) :
    decLeaf (.bytes (some c)) (encBytes b ++ r) =
      if b.length ≤ c then .ok (.bytes b, r) else .error .other := by
  simp only [decLeaf, decBytes_encBytes b r hl]
  by_cases h : b.length ≤ c
  · rw [if_neg (by omega), if_pos h]
  · rw [if_pos (by omega), if_neg h]

theorem bytes_unbounded (b r : Input) (hl : b.length < 4294967296) :
    decLeaf (.bytes none) (encBytes b ++ r) = .ok (.bytes b, r) := by
  simp only [decLeaf, decBytes_encBytes b r hl]

theorem byteArray_exact (n : Nat) (b r : Input) (hl : b.length < 4294967296) :
    decLeaf (.byteArray n) (encBytes b ++ r) =
      if b.length = n then .ok (.bytes b, r) else .error .other := by
  simp only [decLeaf, decBytes_encBytes b r hl]

theorem str_exact (c : Nat) (s r : Input) (hl : s.length < 4294967296) (hv : validUtf8 s = true) :
    decLeaf (.str (some c)) (encText s ++ r) =
      if s.length ≤ c then .ok (.text s, r) else .error .other := by
  simp only [decLeaf, decText_encText s r hl, hv, if_true]
  by_cases h : s.length ≤ c
  · rw [if_neg (by omega), if_pos h]
  · rw [if_pos (by omega), if_neg h]

theorem uint_exact (w : IntW) (n : Nat) (r : Input) (hn : n < 18446744073709551616) :
    decLeaf (.uint w) (encHead 0 n ++ r) =
      if n < w.bound then .ok (.nat n, r) else .error .other := by
  simp only [decLeaf]
  rw [decHead_encHead w.maxAi 0 n r (by omega) hn (maxAi_cases w).1, (maxAi_cases w).2]
  by_cases h : n < w.bound <;> simp [h]

/-- signed 32-bit members: any CBOR integer (either sign, up to 64 bits of magnitude) is accepted
    iff it is in `i32`, and then delivered with its sign and value intact -/
theorem i32_exact (i : Int) (r : Input) (hlo : -18446744073709551616 ≤ i) (hhi : i < 18446744073709551616) :
    decLeaf .i32 (encInt i ++ r) = if i32Range i then .ok (.int i, r) else .error .other := by
  simp only [decLeaf, encInt]
  by_cases hi : i ≥ 0
  · rw [if_pos hi]
    obtain ⟨b, rest, hb, hm⟩ := encHead_cons 0 i.toNat (by omega)
    have hd := decHead_encHead 26 0 i.toNat r (by omega) (by omega) (by simp)
    rw [hb] at hd ⊢
    simp only [List.cons_append, hm, true_or, if_true]
    simp only [List.cons_append, headBound_26] at hd
    simp only [decHead32]
    rw [hd]
    by_cases h32 : i.toNat < 4294967296
    · by_cases hr : i.toNat > 2147483647
      · have : i32Range i = false := by simp [i32Range]; omega
        simp [h32, hr, this]
      · have : i32Range i = true := by simp [i32Range]; omega
        simp [h32, hr, this]; omega
    · have : i32Range i = false := by simp [i32Range]; omega
      simp [h32, this]
  · rw [if_neg hi]
    obtain ⟨b, rest, hb, hm⟩ := encHead_cons 1 (-1 - i).toNat (by omega)
    have hd := decHead_encHead 26 1 (-1 - i).toNat r (by omega) (by omega) (by simp)
    rw [hb] at hd ⊢
    simp only [List.cons_append, hm, or_true, if_true]
    simp only [List.cons_append, headBound_26] at hd
    simp only [decHead32]
    rw [hd]
    by_cases h32 : (-1 - i).toNat < 4294967296
    · by_cases hr : (-1 - i).toNat > 2147483647
      · have : i32Range i = false := by simp [i32Range]; omega
        simp [h32, hr, this]
      · have : i32Range i = true := by simp [i32Range]; omega
        simp [h32, hr, this]; omega
    · have : i32Range i = false := by simp [i32Range]; omega
      simp [h32, this]

/-- a list one (or more) past the capacity is refused as soon as element `cap + 1` has been read -/
theorem seq_over (elem : Input → Res Val) (enc : Val → List Byte) (cap : Nat)
    (vs : List Val) (r : Input) (acc : List Val)
    (h : ∀ v ∈ vs, ∀ x, elem (enc v ++ x) = .ok (v, x))
    (hc : cap < acc.length + vs.length) (ha : acc.length ≤ cap) :
    seqLoop elem (some cap) vs.length ((vs.map enc).flatten ++ r) acc = .error .other := by
  induction vs generalizing acc with
  | nil => simp at hc; omega
  | cons v vs ih =>
    simp only [List.length_cons, List.map_cons, List.flatten_cons, List.append_assoc, seqLoop]
    rw [h v (by simp)]
    simp only []
    by_cases hfull : acc.length ≥ cap
    · rw [if_pos (by simpa using hfull)]
    · rw [if_neg (by simpa using hfull)]
      exact ih (acc ++ [v]) (fun v' hv' => h v' (by simp [hv'])) (by simp at hc ⊢; omega) (by simp; omega)

/-- lists: accepted whole iff at most `cap` entries -/
theorem vec_exact (cap : Nat) (t : Ty) (hwf : wf t = true) (vs : List Val) (r : Input)
    (hw : ∀ v ∈ vs, wt t v = true) (hl : vs.length < 4294967296) :
    decode (.vec cap t) (encHead 4 vs.length ++ ((vs.map (fun v => encode t v)).flatten ++ r)) =
      if vs.length ≤ cap then .ok (.list vs, r) else .error .other := by
  simp only [decode]
  rw [decHead32_encHead 4 _ _ (by omega) hl]
  simp only []
  have hel : ∀ v ∈ vs, ∀ x, decode t (encode t v ++ x) = .ok (v, x) := fun v hv x => rt t hwf v x (hw v hv)
  by_cases h : vs.length ≤ cap
  · rw [seq_rt (fun i => decode t i) (fun v => encode t v) (some cap) vs r [] hel
      (by intro c hc; cases hc; simpa using h), if_pos h]
    simp
  · rw [seq_over (fun i => decode t i) (fun v => encode t v) cap vs r [] hel (by simp; omega) (by simp),
      if_neg h]

/-- a value of another major type is refused by every head-based reader -/
theorem wrong_major_bytes (cap : Option Nat) (m n : Nat) (rest : Input) (hm : m < 8) (hne : m ≠ 2) :
    decLeaf (.bytes cap) (encHead m n ++ rest) = .error .other := by
  simp only [decLeaf, decBytes, decHead32, decHead_wrong_major 26 m 2 n rest hm (by omega) hne]

theorem wrong_major_str (cap : Option Nat) (m n : Nat) (rest : Input) (hm : m < 8) (hne : m ≠ 3) :
    decLeaf (.str cap) (encHead m n ++ rest) = .error .other := by
  simp only [decLeaf, decText, decHead32, decHead_wrong_major 26 m 3 n rest hm (by omega) hne]

theorem wrong_major_uint (w : IntW) (m n : Nat) (rest : Input) (hm : m < 8) (hne : m ≠ 0) :
    decLeaf (.uint w) (encHead m n ++ rest) = .error .other := by
  simp only [decLeaf, decHead_wrong_major w.maxAi m 0 n rest hm (by omega) hne]

theorem wrong_major_vec (cap : Nat) (t : Ty) (m n : Nat) (rest : Input) (hm : m < 8) (hne : m ≠ 4) :
    decode (.vec cap t) (encHead m n ++ rest) = .error .other := by
  simp only [decode, decHead32, decHead_wrong_major 26 m 4 n rest hm (by omega) hne]

theorem wrong_major_struct (fs : Fields) (off m n : Nat) (rest : Input) (hm : m < 8) (hne : m ≠ 5) :
    decode (.text fs) (encHead m n ++ rest) = .error .other ∧
    decode (.indexed off fs) (encHead m n ++ rest) = .error .other := by
  simp only [decode, decHead32, decHead_wrong_major 26 m 5 n rest hm (by omega) hne, and_self]
