import Ctap.Utf8
/-
  UTF-8 structure lemmas behind C13 / C04 / C19: well-formed text is a sequence of scalars of 1–4
  bytes, each one boundary byte followed by continuation bytes; hence scanning back at most 3 bytes
  from any position finds the start of the character containing it.
-/

/-- number of bytes of the well-formed scalar at the head of `s` (0 if there is none);
    same case analysis as `validUtf8` -/
def scalarLen : List Byte → Nat
  | [] => 0
  | b0 :: rest =>
    if b0 < 0x80 then 1
    else if 0xC2 ≤ b0 && b0 ≤ 0xDF then
      match rest with
      | b1 :: _ => if isCont b1 then 2 else 0
      | _ => 0
    else if 0xE0 ≤ b0 && b0 ≤ 0xEF then
      match rest with
      | b1 :: b2 :: _ =>
        if second3 b0 b1 && isCont b2 then 3 else 0
      | _ => 0
    else if 0xF0 ≤ b0 && b0 ≤ 0xF4 then
      match rest with
      | b1 :: b2 :: b3 :: _ =>
        if second4 b0 b1 && isCont b2 && isCont b3 then 4 else 0
      | _ => 0
    else 0

/-- `validUtf8` peels one scalar at a time -/
theorem validUtf8_step (s : List Byte) (hs : s ≠ []) :
    validUtf8 s = (decide (scalarLen s ≠ 0) && validUtf8 (s.drop (scalarLen s))) := by
  match s, hs with
  | b0 :: rest, _ =>
    conv => lhs; unfold validUtf8
    unfold scalarLen
    by_cases h1 : b0 < 0x80
    · simp [h1]
    · simp only [h1, if_false]
      by_cases h2 : (0xC2 ≤ b0 && b0 ≤ 0xDF) = true
      · simp only [h2, if_true]
        match rest with
        | [] => simp
        | b1 :: r => by_cases hc : isCont b1 = true <;> simp [hc]
      · simp only [h2, if_false, Bool.false_eq_true]
        by_cases h3 : (0xE0 ≤ b0 && b0 ≤ 0xEF) = true
        · simp only [h3, if_true]
          match rest with
          | [] => simp
          | [_] => simp
          | b1 :: b2 :: r =>
            by_cases h5 : second3 b0 b1 = true <;> by_cases hc : isCont b2 = true <;> simp [h5, hc]
        · simp only [h3, if_false, Bool.false_eq_true]
          by_cases h4 : (0xF0 ≤ b0 && b0 ≤ 0xF4) = true
          · simp only [h4, if_true]
            match rest with
            | [] => simp
            | [_] => simp
            | [_, _] => simp
            | b1 :: b2 :: b3 :: r =>
              by_cases h5 : second4 b0 b1 = true <;> by_cases hc : isCont b2 = true <;>
                by_cases hd : isCont b3 = true <;> simp [h5, hc, hd]
          · simp [h4]

theorem isCont_not_boundary (b : Byte) (h : isCont b = true) : isBoundaryByte b = false := by
  simp only [isCont, Bool.and_eq_true, decide_eq_true_eq] at h
  simp only [isBoundaryByte, Bool.or_eq_false_iff, decide_eq_false_iff_not]
  obtain ⟨h1, h2⟩ := h
  rw [UInt8.le_iff_toNat_le] at h1 h2
  constructor
  · rw [UInt8.lt_iff_toNat_lt]; simp at h1 ⊢; omega
  · rw [UInt8.le_iff_toNat_le]; simp at h2 ⊢; omega

theorem second3_not_boundary (b0 b1 : Byte) (h : second3 b0 b1 = true) : isBoundaryByte b1 = false := by
  unfold second3 at h
  split at h
  · apply isCont_not_boundary
    simp only [Bool.and_eq_true, decide_eq_true_eq] at h
    simp only [isCont, Bool.and_eq_true, decide_eq_true_eq]
    rw [UInt8.le_iff_toNat_le] at h ⊢; rw [UInt8.le_iff_toNat_le] at h ⊢
    simp at h ⊢; omega
  · split at h
    · apply isCont_not_boundary
      simp only [Bool.and_eq_true, decide_eq_true_eq] at h
      simp only [isCont, Bool.and_eq_true, decide_eq_true_eq]
      rw [UInt8.le_iff_toNat_le] at h ⊢; rw [UInt8.le_iff_toNat_le] at h ⊢
      simp at h ⊢; omega
    · exact isCont_not_boundary _ h

theorem second4_not_boundary (b0 b1 : Byte) (h : second4 b0 b1 = true) : isBoundaryByte b1 = false := by
  unfold second4 at h
  split at h
  · apply isCont_not_boundary
    simp only [Bool.and_eq_true, decide_eq_true_eq] at h
    simp only [isCont, Bool.and_eq_true, decide_eq_true_eq]
    rw [UInt8.le_iff_toNat_le] at h ⊢; rw [UInt8.le_iff_toNat_le] at h ⊢
    simp at h ⊢; omega
  · split at h
    · apply isCont_not_boundary
      simp only [Bool.and_eq_true, decide_eq_true_eq] at h
      simp only [isCont, Bool.and_eq_true, decide_eq_true_eq]
      rw [UInt8.le_iff_toNat_le] at h ⊢; rw [UInt8.le_iff_toNat_le] at h ⊢
      simp at h ⊢; omega
    · exact isCont_not_boundary _ h

theorem lead_is_boundary (b0 : Byte) (h : b0 < 0x80 ∨ 0xC2 ≤ b0) : isBoundaryByte b0 = true := by
  simp only [isBoundaryByte, Bool.or_eq_true, decide_eq_true_eq]
  rcases h with h | h
  · left; exact h
  · right; rw [UInt8.le_iff_toNat_le] at h ⊢; simp at h ⊢; omega

/-- shape of a scalar: one boundary byte followed by `k - 1 ≤ 3` continuation bytes -/
theorem scalar_shape (s : List Byte) (h : scalarLen s ≠ 0) :
    ∃ b0 cs rest, s = b0 :: (cs ++ rest) ∧ scalarLen s = cs.length + 1 ∧ cs.length ≤ 3 ∧
      isBoundaryByte b0 = true ∧ (∀ c ∈ cs, isBoundaryByte c = false) := by
  match s with
  | [] => simp [scalarLen] at h
  | b0 :: rest =>
    unfold scalarLen at h ⊢
    by_cases h1 : b0 < 0x80
    · exact ⟨b0, [], rest, by simp, by simp [h1], by simp, lead_is_boundary b0 (Or.inl h1), by simp⟩
    · simp only [h1, if_false] at h ⊢
      by_cases h2 : (0xC2 ≤ b0 && b0 ≤ 0xDF) = true
      · simp only [h2, if_true] at h ⊢
        have hb : isBoundaryByte b0 = true := by
          apply lead_is_boundary; right
          simp only [Bool.and_eq_true, decide_eq_true_eq] at h2; exact h2.1
        match rest with
        | [] => simp at h
        | b1 :: r =>
          by_cases hc : isCont b1 = true
          · exact ⟨b0, [b1], r, by simp, by simp [hc], by simp, hb, by simpa using isCont_not_boundary b1 hc⟩
          · simp [hc] at h
      · simp only [h2, if_false, Bool.false_eq_true] at h ⊢
        by_cases h3 : (0xE0 ≤ b0 && b0 ≤ 0xEF) = true
        · simp only [h3, if_true] at h ⊢
          have hb : isBoundaryByte b0 = true := by
            apply lead_is_boundary; right
            simp only [Bool.and_eq_true, decide_eq_true_eq] at h3
            have := h3.1; rw [UInt8.le_iff_toNat_le] at this ⊢; simp at this ⊢; omega
          match rest with
          | [] => simp at h
          | [_] => simp at h
          | b1 :: b2 :: r =>
            by_cases h5 : second3 b0 b1 = true <;> by_cases hc : isCont b2 = true
            · refine ⟨b0, [b1, b2], r, by simp, by simp [h5, hc], by simp, hb, ?_⟩
              intro c hcm; simp at hcm
              rcases hcm with rfl | rfl
              · exact second3_not_boundary b0 _ h5
              · exact isCont_not_boundary _ hc
            all_goals simp [h5, hc] at h
        · simp only [h3, if_false, Bool.false_eq_true] at h ⊢
          by_cases h4 : (0xF0 ≤ b0 && b0 ≤ 0xF4) = true
          · simp only [h4, if_true] at h ⊢
            have hb : isBoundaryByte b0 = true := by
              apply lead_is_boundary; right
              simp only [Bool.and_eq_true, decide_eq_true_eq] at h4
              have := h4.1; rw [UInt8.le_iff_toNat_le] at this ⊢; simp at this ⊢; omega
            match rest with
            | [] => simp at h
            | [_] => simp at h
            | [_, _] => simp at h
            | b1 :: b2 :: b3 :: r =>
              by_cases h5 : second4 b0 b1 = true <;> by_cases hc : isCont b2 = true <;> by_cases hd : isCont b3 = true
              · refine ⟨b0, [b1, b2, b3], r, by simp, by simp [h5, hc, hd], by simp, hb, ?_⟩
                intro c hcm; simp at hcm
                rcases hcm with rfl | rfl | rfl
                · exact second4_not_boundary b0 _ h5
                · exact isCont_not_boundary _ hc
                · exact isCont_not_boundary _ hd
              all_goals simp [h5, hc, hd] at h
          · simp [h4] at h

/-! ### the character containing a byte position -/

theorem scalarLen_le_length (s : List Byte) : scalarLen s ≤ s.length := by
  by_cases h : scalarLen s = 0
  · omega
  · obtain ⟨b0, cs, rest, hs, hk, _, _, _⟩ := scalar_shape s h
    rw [hk, hs]; simp

/-- start offset of the character containing byte `idx` of a well-formed text: equivalently the
    length of the longest prefix made of whole characters and at most `idx` bytes long -/
def floorChars (s : List Byte) (idx : Nat) : Nat :=
  if h : scalarLen s = 0 then 0
  else if idx < scalarLen s then 0
  else scalarLen s + floorChars (s.drop (scalarLen s)) (idx - scalarLen s)
termination_by s.length
decreasing_by
  have := scalarLen_le_length s
  simp only [List.length_drop]
  omega

theorem rposition_append (p : Byte → Bool) (a b : List Byte) :
    rposition p (a ++ b) = match rposition p b with
      | some i => some (a.length + i)
      | none => rposition p a := by
  induction a with
  | nil => cases h : rposition p b <;> simp [h, rposition]
  | cons x a ih =>
    simp only [List.cons_append, rposition, ih]
    cases hb : rposition p b with
    | some i => simp; omega
    | none => simp

theorem rposition_lead (p : Byte → Bool) (b0 : Byte) (cs : List Byte) (h0 : p b0 = true)
    (hc : ∀ c ∈ cs, p c = false) : rposition p (b0 :: cs) = some 0 := by
  have : rposition p cs = none := by
    induction cs with
    | nil => rfl
    | cons c cs ih =>
      simp only [rposition, ih (fun c' h => hc c' (by simp [h]))]
      simp [hc c (by simp)]
  simp [rposition, this, h0]

theorem floorCharBoundary_unfold (w : Nat) (s : List Byte) (idx : Nat) (h : idx < s.length) :
    floorCharBoundary w s idx =
      match rposition isBoundaryByte ((s.drop (idx - w)).take (idx + 1 - (idx - w))) with
      | some i => .ret (idx - w + i)
      | none => .ub := by
  unfold floorCharBoundary
  rw [if_neg (by omega)]
  rfl

/-- **The scan finds the character start.**  For well-formed text and any position inside it,
    looking back at most 3 bytes never fails (no `unwrap_unchecked(None)`) and returns the start
    of the character containing that position. -/
theorem floorCharBoundary_valid : ∀ (n : Nat) (s : List Byte), s.length = n → validUtf8 s = true →
    ∀ idx, idx < s.length → floorCharBoundary 3 s idx = .ret (floorChars s idx) := by
  intro n
  induction n using Nat.strongRecOn with
  | _ n ih =>
    intro s hn hv idx hidx
    have hne : s ≠ [] := by intro h; subst h; simp at hidx
    rw [validUtf8_step s hne] at hv
    simp only [Bool.and_eq_true, decide_eq_true_eq] at hv
    obtain ⟨hk0, hv'⟩ := hv
    obtain ⟨b0, cs, rest, hs, hk, hcs3, hb0, hcs⟩ := scalar_shape s hk0
    have hdrop : s.drop (scalarLen s) = rest := by
      rw [hk, hs]; simp
    rw [floorCharBoundary_unfold 3 s idx hidx, floorChars, dif_neg hk0]
    by_cases hlt : idx < scalarLen s
    · -- inside the first character: the window starts at 0 and holds b0 followed by continuations
      rw [if_pos hlt]
      have hl : idx - 3 = 0 := by omega
      rw [hl]
      simp only [List.drop_zero, Nat.sub_zero, Nat.zero_add]
      have hw : s.take (idx + 1) = b0 :: cs.take idx := by
        rw [hs]; simp [List.take_append_of_le_length (by omega : idx ≤ cs.length)]
      rw [hw, rposition_lead isBoundaryByte b0 _ hb0 (fun c hc => hcs c (List.mem_of_mem_take hc))]
    · rw [if_neg hlt]
      have hk4 : scalarLen s ≤ 4 := by omega
      have hlen : s.length = scalarLen s + rest.length := by rw [hk, hs]; simp; omega
      have hidx' : idx - scalarLen s < rest.length := by omega
      have IH := ih rest.length (by omega) rest rfl (by rw [← hdrop]; exact hv') (idx - scalarLen s) hidx'
      rw [floorCharBoundary_unfold 3 rest _ hidx'] at IH
      rw [hdrop]
      generalize hk' : scalarLen s = k at *
      generalize hi' : idx - k = idx' at *
      have hidx_eq : idx = k + idx' := by omega
      -- the IH says the window of `rest` contains a boundary at the right place
      cases hr : rposition isBoundaryByte ((rest.drop (idx' - 3)).take (idx' + 1 - (idx' - 3))) with
      | none => rw [hr] at IH; cases IH
      | some i' =>
        rw [hr] at IH
        have hv2 : idx' - 3 + i' = floorChars rest idx' := Outcome.ret.inj IH
        have hsplit : s = s.take k ++ rest := by
          rw [← hdrop]; exact (List.take_append_drop k s).symm
        by_cases h3 : 3 ≤ idx'
        · -- the window lies entirely inside `rest`
          have e1 : idx - 3 = k + (idx' - 3) := by omega
          have e2 : s.drop (idx - 3) = rest.drop (idx' - 3) := by
            rw [e1, ← List.drop_drop, hdrop]
          have e3 : idx + 1 - (idx - 3) = idx' + 1 - (idx' - 3) := by omega
          rw [e2, e3, hr, e1]
          simp only []
          congr 1; omega
        · -- the window starts inside the first character
          have hle : idx - 3 ≤ k := by omega
          have hl0 : idx' - 3 = 0 := by omega
          rw [hl0] at hr hv2
          simp only [List.drop_zero, Nat.sub_zero, Nat.zero_add] at hr hv2
          have e2 : s.drop (idx - 3) = (s.take k).drop (idx - 3) ++ rest := by
            conv => lhs; rw [hsplit]
            rw [List.drop_append_of_le_length (by simp [List.length_take]; omega)]
          have hal : ((s.take k).drop (idx - 3)).length = k - (idx - 3) := by
            simp [List.length_take, List.length_drop]; omega
          have e3 : (s.drop (idx - 3)).take (idx + 1 - (idx - 3))
              = (s.take k).drop (idx - 3) ++ rest.take (idx' + 1) := by
            rw [e2, List.take_append, hal]
            have : idx + 1 - (idx - 3) - (k - (idx - 3)) = idx' + 1 := by omega
            rw [this, List.take_of_length_le (by rw [hal]; omega)]
          rw [e3, rposition_append, hr]
          simp only [hal]
          congr 1; omega

/-! ### whole-character prefixes -/

/-- `j` bytes of `s` are a whole number of well-formed characters -/
inductive CharEnd : List Byte → Nat → Prop
  | zero (s : List Byte) : CharEnd s 0
  | step (s : List Byte) (j : Nat) : scalarLen s ≠ 0 → CharEnd (s.drop (scalarLen s)) j →
      CharEnd s (scalarLen s + j)

/-- the scalar at the head depends only on its own bytes -/
theorem scalarLen_take_append (s y : List Byte) (h : scalarLen s ≠ 0) :
    scalarLen (s.take (scalarLen s) ++ y) = scalarLen s := by
  match s with
  | [] => simp [scalarLen] at h
  | b0 :: rest =>
    by_cases h1 : b0 < 0x80
    · have : scalarLen (b0 :: rest) = 1 := by simp [scalarLen, h1]
      rw [this]; simp [scalarLen, h1]
    · by_cases h2 : (0xC2 ≤ b0 && b0 ≤ 0xDF) = true
      · match rest with
        | [] => simp [scalarLen, h1, h2] at h
        | b1 :: r =>
          by_cases hc : isCont b1 = true
          · have : scalarLen (b0 :: b1 :: r) = 2 := by simp [scalarLen, h1, h2, hc]
            rw [this]; simp [scalarLen, h1, h2, hc]
          · simp [scalarLen, h1, h2, hc] at h
      · by_cases h3 : (0xE0 ≤ b0 && b0 ≤ 0xEF) = true
        · match rest with
          | [] => simp [scalarLen, h1, h2, h3] at h
          | [_] => simp [scalarLen, h1, h2, h3] at h
          | b1 :: b2 :: r =>
            by_cases h5 : (second3 b0 b1 && isCont b2) = true
            · have : scalarLen (b0 :: b1 :: b2 :: r) = 3 := by simp [scalarLen, h1, h2, h3, h5]
              rw [this]; simp [scalarLen, h1, h2, h3, h5]
            · simp [scalarLen, h1, h2, h3, h5] at h
        · by_cases h4 : (0xF0 ≤ b0 && b0 ≤ 0xF4) = true
          · match rest with
            | [] => simp [scalarLen, h1, h2, h3, h4] at h
            | [_] => simp [scalarLen, h1, h2, h3, h4] at h
            | [_, _] => simp [scalarLen, h1, h2, h3, h4] at h
            | b1 :: b2 :: b3 :: r =>
              by_cases h5 : (second4 b0 b1 && isCont b2 && isCont b3) = true
              · have : scalarLen (b0 :: b1 :: b2 :: b3 :: r) = 4 := by simp [scalarLen, h1, h2, h3, h4, h5]
                rw [this]; simp [scalarLen, h1, h2, h3, h4, h5]
              · simp [scalarLen, h1, h2, h3, h4, h5] at h
          · simp [scalarLen, h1, h2, h3, h4] at h

/-- prepending one well-formed character keeps a text well-formed -/
theorem validUtf8_scalar_append (s y : List Byte) (h : scalarLen s ≠ 0) :
    validUtf8 (s.take (scalarLen s) ++ y) = validUtf8 y := by
  have hne : s.take (scalarLen s) ++ y ≠ [] := by
    obtain ⟨b0, cs, rest, hs, hk, _, _, _⟩ := scalar_shape s h
    rw [hk, hs]; simp
  rw [validUtf8_step _ hne, scalarLen_take_append s y h]
  have hl : (s.take (scalarLen s)).length = scalarLen s := by
    rw [List.length_take]; have := scalarLen_le_length s; omega
  rw [List.drop_append_of_le_length (by omega), List.drop_of_length_le (by omega)]
  simp [h]

/-- a whole-character prefix of a well-formed text and the remainder are both well-formed -/
theorem CharEnd.valid {s : List Byte} {j : Nat} (h : CharEnd s j) (hv : validUtf8 s = true) :
    j ≤ s.length ∧ validUtf8 (s.take j) = true ∧ validUtf8 (s.drop j) = true := by
  induction h with
  | zero s => simp [hv, validUtf8]
  | step s j hk _ ih =>
    have hne : s ≠ [] := by intro h; subst h; simp [scalarLen] at hk
    rw [validUtf8_step s hne] at hv
    simp only [Bool.and_eq_true, decide_eq_true_eq] at hv
    obtain ⟨hj, ht, hd⟩ := ih hv.2
    have hle := scalarLen_le_length s
    refine ⟨by simp [List.length_drop] at hj; omega, ?_, ?_⟩
    · have : s.take (scalarLen s + j) = s.take (scalarLen s) ++ (s.drop (scalarLen s)).take j := by
        rw [List.take_add]
      rw [this, validUtf8_scalar_append s _ hk]; exact ht
    · rw [← List.drop_drop]; exact hd

theorem floorChars_charEnd (s : List Byte) (idx : Nat) : CharEnd s (floorChars s idx) := by
  induction s, idx using floorChars.induct with
  | case1 s idx h => rw [floorChars, dif_pos h]; exact .zero s
  | case2 s idx h hlt => rw [floorChars, dif_neg h, if_pos hlt]; exact .zero s
  | case3 s idx h hlt ih => rw [floorChars, dif_neg h, if_neg hlt]; exact .step s _ h ih

theorem floorChars_le (s : List Byte) (idx : Nat) : floorChars s idx ≤ idx := by
  induction s, idx using floorChars.induct with
  | case1 s idx h => rw [floorChars, dif_pos h]; omega
  | case2 s idx h hlt => rw [floorChars, dif_neg h, if_pos hlt]; omega
  | case3 s idx h hlt ih => rw [floorChars, dif_neg h, if_neg hlt]; omega

/-- maximality: no longer whole-character prefix fits in `idx` bytes -/
theorem floorChars_max {s : List Byte} {j : Nat} (h : CharEnd s j) (idx : Nat) (hj : j ≤ idx) :
    j ≤ floorChars s idx := by
  induction h generalizing idx with
  | zero s => omega
  | step s j hk _ ih =>
    rw [floorChars, dif_neg hk, if_neg (by omega)]
    have := ih (idx - scalarLen s) (by omega)
    omega

/-- **`truncate::<cap>` on well-formed text**: never a panic, never undefined behaviour; the
    result is the text itself when it fits, otherwise its longest whole-character prefix of at
    most `cap` bytes. -/
theorem truncateStr_valid (cap : Nat) (s : List Byte) (hv : validUtf8 s = true) :
    truncateStr cap 3 s = .ret (if s.length ≤ cap then s else s.take (floorChars s cap)) := by
  unfold truncateStr
  by_cases hfit : s.length ≤ cap
  · have : floorCharBoundary 3 s cap = .ret s.length := by
      unfold floorCharBoundary; rw [if_pos (by omega)]
    rw [this]
    simp only [if_pos hfit]
    have hb : isCharBoundaryAt s s.length = true := by
      unfold isCharBoundaryAt; split <;> simp
    simp [hb, hfit]
  · have hlt : cap < s.length := by omega
    rw [floorCharBoundary_valid s.length s rfl hv cap hlt]
    simp only [if_neg hfit]
    have hce := floorChars_charEnd s cap
    have hle := floorChars_le s cap
    obtain ⟨_, _, hd⟩ := hce.valid hv
    have hb : isCharBoundaryAt s (floorChars s cap) = true := by
      unfold isCharBoundaryAt
      by_cases h0 : floorChars s cap = 0
      · simp [h0]
      · rw [if_neg h0, if_neg (by omega)]
        -- the remainder is a non-empty well-formed text, so it starts with a boundary byte
        have hne : s.drop (floorChars s cap) ≠ [] := by
          intro h; have := congrArg List.length h; simp [List.length_drop] at this; omega
        rw [validUtf8_step _ hne] at hd
        simp only [Bool.and_eq_true, decide_eq_true_eq] at hd
        obtain ⟨b0, cs, rest, hs, _, _, hb0, _⟩ := scalar_shape _ hd.1
        have : s[floorChars s cap]? = some b0 := by
          have := congrArg (·[0]?) hs
          simpa [List.getElem?_drop] using this
        rw [this]; exact hb0
    simp [hb]
    omega
