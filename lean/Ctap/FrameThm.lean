import Ctap.Frame
/-
  G-CHUNK and the framing theorem behind C17 / C02: whatever the chunking of the body, whatever
  the buffer held before, `Response::serialize` leaves either status 0x00 + the whole body or the
  single error status byte.
-/

/-- G-CHUNK: sequential chunk writing succeeds iff the total fits, and then yields exactly the
    concatenation -/
theorem writeChunks_ok (cs : List (List Byte)) (room : Nat) (acc : List Byte)
    (h : cs.flatten.length ≤ room) : writeChunks cs room acc = (acc ++ cs.flatten, true) := by
  induction cs generalizing room acc with
  | nil => simp [writeChunks]
  | cons c cs ih =>
    simp only [List.flatten_cons, List.length_append] at h
    simp only [writeChunks]
    rw [if_neg (by omega), ih (room - c.length) (acc ++ c) (by omega)]
    simp

theorem writeChunks_fail (cs : List (List Byte)) (room : Nat) (acc : List Byte)
    (h : room < cs.flatten.length) : (writeChunks cs room acc).2 = false := by
  induction cs generalizing room acc with
  | nil => simp at h
  | cons c cs ih =>
    simp only [List.flatten_cons, List.length_append] at h
    simp only [writeChunks]
    by_cases hc : room < c.length
    · simp [hc]
    · rw [if_neg hc]; exact ih (room - c.length) (acc ++ c) (by omega)

theorem resizeDefault_full (cap : Nat) (v : List Byte) (h : v.length ≤ cap) :
    resizeDefault cap cap v = v ++ List.replicate (cap - v.length) 0 := by
  unfold resizeDefault
  rw [if_neg (by omega)]
  by_cases he : cap ≤ v.length
  · have : cap = v.length := by omega
    rw [if_pos he]; subst this; simp
  · rw [if_neg he]

/-- the framing theorem: for capacity ≥ 1 the result is a function of the body and the capacity
    only — never of the prior buffer content, never a truncated body, never a panic -/
theorem responseSerialize_spec (err : Byte) (cs : List (List Byte)) (cap : Nat) (prior : List Byte)
    (hcap : 1 ≤ cap) (hprior : prior.length ≤ cap) :
    responseSerialize err (some cs) cap prior =
      .ret (if cs.flatten.length + 1 ≤ cap then
              (if cs.flatten = [0xA0] then [0] else 0 :: cs.flatten)
            else [err]) := by
  unfold responseSerialize
  simp only [resizeDefault_full cap prior hprior]
  have hlen : (prior ++ List.replicate (cap - prior.length) (0 : Byte)).length = cap := by
    simp; omega
  generalize hb : prior ++ List.replicate (cap - prior.length) (0 : Byte) = buf at hlen
  cases buf with
  | nil => simp at hlen; omega
  | cons b data =>
    simp only [List.length_cons] at hlen
    by_cases hfit : cs.flatten.length + 1 ≤ cap
    · have hw := writeChunks_ok cs data.length [] (by omega)
      simp only [hw, List.nil_append, if_true, hfit]
      by_cases ha : cs.flatten = [0xA0]
      · simp only [ha, if_true]
        simp [resizeDefault]
        omega
      · simp only [ha, if_false]
        unfold resizeDefault
        rw [if_neg (by omega), if_pos (by simp)]
        simp
    · have hw := writeChunks_fail cs data.length [] (by omega)
      cases hwc : writeChunks cs data.length [] with
      | mk written ok =>
        rw [hwc] at hw
        simp only at hw
        subst hw
        simp only [hfit, if_false]
        simp [hwc, resizeDefault]
        omega

/-- parameter-less responses: the status byte alone -/
theorem responseSerialize_empty (err : Byte) (cap : Nat) (prior : List Byte)
    (hcap : 1 ≤ cap) (hprior : prior.length ≤ cap) :
    responseSerialize err none cap prior = .ret [0] := by
  unfold responseSerialize
  simp only [resizeDefault_full cap prior hprior]
  have hlen : (prior ++ List.replicate (cap - prior.length) (0 : Byte)).length = cap := by
    simp; omega
  generalize hb : prior ++ List.replicate (cap - prior.length) (0 : Byte) = buf at hlen
  cases buf with
  | nil => simp at hlen; omega
  | cons b data =>
    simp [resizeDefault]
    omega
