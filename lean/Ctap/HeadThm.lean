import Ctap.Basic
/-
  G-HEAD: the head readers invert the head writer exactly on their range, and reject
  non-minimal, indefinite, reserved and out-of-range heads.
-/

theorem readBE_be (k n : Nat) (r : Input) (h : n < 256 ^ k) : readBE k (be k n ++ r) = some (n, r) := by
  induction k generalizing n with
  | zero => simp at h; simp [be, readBE, h]
  | succ k ih =>
    have hp : 0 < 256 ^ k := Nat.pow_pos (by decide)
    have h1 : n / 256 ^ k < 256 := by
      rw [Nat.div_lt_iff_lt_mul hp]; rw [Nat.pow_succ] at h; omega
    have h2 : n % 256 ^ k < 256 ^ k := Nat.mod_lt _ hp
    simp [be, readBE, ih _ h2, Nat.mod_eq_of_lt h1]
    rw [Nat.mul_comm]; exact Nat.div_add_mod _ _

theorem be_length (k n : Nat) : (be k n).length = k := by
  induction k generalizing n with
  | zero => simp [be]
  | succ k ih => simp [be, ih]

/-- largest argument a reader with additional-info limit `maxAi` accepts, plus one -/
def headBound (maxAi : Nat) : Nat :=
  if maxAi < 24 then 24
  else if maxAi = 24 then 256
  else if maxAi = 25 then 65536
  else if maxAi = 26 then 4294967296
  else 18446744073709551616

theorem headBound_24 : headBound 24 = 256 := by decide
theorem headBound_26 : headBound 26 = 4294967296 := by decide
theorem headBound_27 : headBound 27 = 18446744073709551616 := by decide

/-- reading back a shortest-form head: accepted with the same argument iff the argument is in
    the reader's range -/
theorem decHead_encHead (maxAi m n : Nat) (r : Input) (hm : m < 8) (hn : n < 18446744073709551616)
    (hA : maxAi = 24 ∨ maxAi = 26 ∨ maxAi = 27) :
    decHead maxAi m (encHead m n ++ r) = if n < headBound maxAi then .ok (n, r) else .error .other := by
  have e1 : (m * 32 + 24) % 256 = m * 32 + 24 := by omega
  have e2 : (m * 32 + 25) % 256 = m * 32 + 25 := by omega
  have e3 : (m * 32 + 26) % 256 = m * 32 + 26 := by omega
  have e4 : (m * 32 + 27) % 256 = m * 32 + 27 := by omega
  have d1 : (m * 32 + 24) / 32 = m := by omega
  have d2 : (m * 32 + 25) / 32 = m := by omega
  have d3 : (m * 32 + 26) / 32 = m := by omega
  have d4 : (m * 32 + 27) / 32 = m := by omega
  have r1 : (m * 32 + 24) % 32 = 24 := by omega
  have r2 : (m * 32 + 25) % 32 = 25 := by omega
  have r3 : (m * 32 + 26) % 32 = 26 := by omega
  have r4 : (m * 32 + 27) % 32 = 27 := by omega
  unfold encHead
  simp only []
  split
  · have e0 : (m * 32 + n) % 256 = m * 32 + n := by omega
    have d0 : (m * 32 + n) / 32 = m := by omega
    have r0 : (m * 32 + n) % 32 = n := by omega
    rcases hA with h | h | h <;> subst h <;> simp [decHead, headBound, e0, d0, r0] <;> (repeat' split) <;> (first | rfl | omega | simp_all)
  split
  · have := readBE_be 1 n r (by simpa using (by omega : n < 256))
    rcases hA with h | h | h <;> subst h <;> simp [decHead, readArg, this, headBound, e1, d1, r1] <;> (repeat' split) <;> (first | rfl | omega | simp_all)
  split
  · have := readBE_be 2 n r (by simpa using (by omega : n < 65536))
    rcases hA with h | h | h <;> subst h <;> simp [decHead, readArg, this, headBound, e2, d2, r2] <;> (repeat' split) <;> (first | rfl | omega | simp_all)
  split
  · have := readBE_be 4 n r (by simpa using (by omega : n < 4294967296))
    rcases hA with h | h | h <;> subst h <;> simp [decHead, readArg, this, headBound, e3, d3, r3] <;> (repeat' split) <;> (first | rfl | omega | simp_all)
  · have := readBE_be 8 n r (by simpa using hn)
    rcases hA with h | h | h <;> subst h <;> simp [decHead, readArg, this, headBound, e4, d4, r4] <;> (repeat' split) <;> (first | rfl | omega | simp_all)

theorem decHead32_encHead (m n : Nat) (r : Input) (hm : m < 8) (hn : n < 4294967296) :
    decHead32 m (encHead m n ++ r) = .ok (n, r) := by
  have := decHead_encHead 26 m n r hm (by omega) (by simp)
  simp [headBound_26, hn] at this
  exact this

theorem decHead64_encHead (m n : Nat) (r : Input) (hm : m < 8) (hn : n < 18446744073709551616) :
    decHead64 m (encHead m n ++ r) = .ok (n, r) := by
  have := decHead_encHead 27 m n r hm hn (by simp)
  simp [headBound_27, hn] at this
  exact this

theorem decHead8_encHead (m n : Nat) (r : Input) (hm : m < 8) (hn : n < 256) :
    decHead8 m (encHead m n ++ r) = .ok (n, r) := by
  have := decHead_encHead 24 m n r hm (by omega) (by simp)
  simp [headBound_24, hn] at this
  exact this

/-- a head of another major type is never accepted -/
theorem decHead_wrong_major (maxAi m m' n : Nat) (r : Input) (hm : m < 8) (hm' : m' < 8) (hne : m ≠ m') :
    decHead maxAi m' (encHead m n ++ r) = .error .other := by
  unfold encHead
  simp only []
  split
  · simp [decHead]; intro h; omega
  split
  · simp [decHead]; intro h; omega
  split
  · simp [decHead]; intro h; omega
  split
  · simp [decHead]; intro h; omega
  · simp [decHead]; intro h; omega

theorem encHead_length_pos (m n : Nat) : 0 < (encHead m n).length := by
  unfold encHead; simp only []; repeat' split
  all_goals simp

theorem encHead_cons (m n : Nat) (hm : m < 8) :
    ∃ b rest, encHead m n = b :: rest ∧ b.toNat / 32 = m := by
  unfold encHead
  simp only []
  split
  · exact ⟨_, [], rfl, by simp; omega⟩
  split
  · exact ⟨_, _, rfl, by simp; omega⟩
  split
  · exact ⟨_, _, rfl, by simp; omega⟩
  split
  · exact ⟨_, _, rfl, by simp; omega⟩
  · exact ⟨_, _, rfl, by simp; omega⟩

