import Ctap.Decode
/-
  Well-typed values (`wt`: what an authenticator can hold in the Rust types, as an explicit
  decidable predicate) and well-formed schemas (`wf`: the side conditions the round-trip theorem
  needs from a schema — distinct keys, consistent string tables, …; decided per schema by
  `decide`).
-/

def i32Range (i : Int) : Bool := decide (-2147483648 ≤ i) && decide (i ≤ 2147483647)

def capOk (cap : Option Nat) (n : Nat) : Bool :=
  match cap with
  | some c => decide (n ≤ c)
  | none => true

/-- leaf values in the image of the Rust types -/
def wtLeaf : Leaf → Val → Bool
  | .uint w, .nat n => decide (n < w.bound)
  | .i32, .int i => i32Range i
  | .bool, .bool _ => true
  | .unit, .unit => true
  | .bytes cap, .bytes b => decide (b.length < 4294967296) && capOk cap b.length
  | .byteArray n, .bytes b => decide (b.length = n) && decide (n < 4294967296)
  | .str cap, .text s => validUtf8 s && decide (s.length < 4294967296) && capOk cap s.length
  | .enumStr ser _, .nat i => decide (i < ser.length)
  | .enumRepr discs, .nat i => decide (i < discs.length)
  | .coseEcdh, .record [some (.bytes x), some (.bytes y)] => decide (x.length ≤ 32) && decide (y.length ≤ 32)
  | _, _ => false

/-- the value fits the field's reader mode (so that reading it back is lossless) -/
def modeOk : Mode → Val → Bool
  | .trunc cap _, .text s => decide (s.length ≤ cap)
  | .skipLong cap, .text s => decide (s.length ≤ cap)
  | .trunc _ _, _ => false
  | .skipLong _, _ => false
  | _, _ => true

/-- may this member be unset? (then it is either skipped and optional on input, or written as
    `null` and read back through `deserialize_option`) -/
def noneOk (f : FieldInfo) : Bool :=
  match f.ser with
  | .skipNone => !f.required
  | .never => !f.required
  | .always => f.mode.acceptsNull

mutual
def wt : Ty → Val → Bool
  | .leaf l, v => wtLeaf l v
  | .vec cap t, .list vs => decide (vs.length ≤ cap) && decide (vs.length < 4294967296) && vs.all (fun v => wt t v)
  | .filtered cap known _ _ _, .list vs =>
      decide (vs.length ≤ cap) && decide (vs.length < 4294967296) &&
      vs.all (fun v => match v with | .int a => known.contains a | _ => false)
  | .indexed _ fs, .record s => wtFields fs s
  | .text fs, .record s => wtFields fs s
  | _, _ => false
def wtFields : Fields → Slots → Bool
  | .nil, s => s.isEmpty
  | .cons f t rest, s =>
    match s with
    | [] => false
    | o :: s' =>
      (match o with
       | none => noneOk f
       | some v => f.ser != .never && wt t v && modeOk f.mode v) && wtFields rest s'
end

/-! ### schema well-formedness -/

def wfLeaf : Leaf → Bool
  | .enumStr ser de =>
    (List.range ser.length).all (fun i =>
      match ser[i]? with
      | some s => lookupStr de s == some i && validUtf8 s && decide (s.length < 4294967296)
      | none => false)
  | .enumRepr discs => discs.all (fun d => decide (d < 256)) &&
      (List.range discs.length).all (fun i => match discs[i]? with | some d => indexOf discs d == some i | none => false)
  | .attFmtPref _ _ => false       -- decode only
  | .cosePub => false              -- encode only
  | .icon => false                 -- decode only
  | _ => true

/-- no field before position `i` answers to `f`'s key -/
def keyFreshBefore (f : FieldInfo) : Fields → Nat → Bool
  | _, 0 => true
  | .nil, _ => true
  | .cons g _ rest, i + 1 => !(g.key == f.key || g.aliases.contains f.key) && keyFreshBefore f rest i

def Ty.isUnit : Ty → Bool
  | .leaf .unit => true
  | _ => false

mutual
def wf : Ty → Bool
  | .leaf l => wfLeaf l
  | .vec _ t => wf t
  | .filtered _ known deLit serLit elem =>
      deLit == serLit && known.all i32Range && wf elem &&
      -- the entries written for the known algorithms are well-typed entries of `elem`
      known.all (fun a => wt elem (.record [some (.int a), some (.text serLit)]))
  | .indexed off fs => decide (off + fs.length < 18446744073709551616) && decide (fs.length < 4294967296) && wfFields false fs fs 0
  | .text fs => decide (fs.length < 4294967296) && wfFields true fs fs 0
  | .untagged _ => false           -- encode only
/-- `all` = the whole field list (for key freshness), walked with position `i` -/
def wfFields (txt : Bool) (all : Fields) : Fields → Nat → Bool
  | .nil, _ => true
  | .cons f t rest, i =>
    (f.ser == .never || wf t) &&
    (!txt || (validUtf8 f.key && decide (f.key.length < 4294967296) && keyFreshBefore f all i)) &&
    (!f.mode.acceptsNull || !t.isUnit) &&
    (f.ser == .never || (match f.mode with
       | .trunc _ _ => decide (t = .leaf (.str none))
       | .skipLong _ => decide (t = .leaf (.str none))
       | _ => true)) &&
    wfFields txt all rest (i + 1)
end
