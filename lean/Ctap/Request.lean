import Ctap.Decode
/-
  Interpreter for `ctap2::Request::deserialize` over *generated* tables:
  `impl TryFrom<u8> for Operation` (first-match byte ranges), the operation switch, and
  `From<CtapMappingError> for Error`.
-/

/-- first-match lookup in a byte-range table -/
def firstMatch : List (Nat × Nat × Option Nat) → Nat → Option Nat
  | [], _ => none
  | (lo, hi, r) :: rest, b => if lo ≤ b ∧ b ≤ hi then r else firstMatch rest b

/-- the tables `Request::deserialize` depends on -/
structure ReqTables where
  opTryFrom : List (Nat × Nat × Option Nat)        -- byte ranges → Operation variant index
  vendorArms : List Bool                           -- arms that go through `VendorOperation::try_from(code)?`
  vendorTryFrom : List (Nat × Nat × Option Nat)
  opSwitch : List (Nat × Nat × String)             -- variant index → (kind, request variant)
  emptyGuard : Bool
  statusInvalidCommand : Nat
  statusMissing : Nat
  statusOther : Nat
  reqTy : String → Option Ty                       -- request variant → parameter schema

/-- `Operation::try_from(byte)`: the matching arm and, for arms that delegate to
    `VendorOperation::try_from`, that conversion's verdict -/
def opOfByte (opTryFrom : List (Nat × Nat × Option Nat)) (vendorArms : List Bool)
    (vendorTryFrom : List (Nat × Nat × Option Nat)) (b : Nat) : Option Nat :=
  let rec go : List (Nat × Nat × Option Nat) → List Bool → Option Nat
    | [], _ => none
    | (lo, hi, r) :: rest, vs =>
      if lo ≤ b ∧ b ≤ hi then
        (if vs.head?.getD false then
           (match firstMatch vendorTryFrom b with
            | some _ => r
            | none => none)
         else r)
      else go rest vs.tail
  go opTryFrom vendorArms

def switchOf : List (Nat × Nat × String) → Nat → Option (Nat × String)
  | [], _ => none
  | (i, k, v) :: rest, op => if i = op then some (k, v) else switchOf rest op

inductive ReqOut
  | ok (variant : String) (payload : Option Val)
  | err (status : Nat)
  | panic

def statusOf (t : ReqTables) : DErr → ReqOut
  | .missing => .err t.statusMissing
  | .other => .err t.statusOther
  | .panic => .panic

/-- what the command byte alone decides: `(kind, request variant)` with kind
    0 = InvalidCommand, 1 = parameter-less request, 2 = CBOR parameters follow, 3 = vendor,
    4 = impossible (an `Operation` without a switch arm cannot compile) -/
def reqKind (t : ReqTables) (b : Nat) : Nat × String :=
  match opOfByte t.opTryFrom t.vendorArms t.vendorTryFrom b with
  | none => (0, "")
  | some o =>
    match switchOf t.opSwitch o with
    | none => (4, "")
    | some kv => kv

/-- the part of `Request::deserialize` after the command byte has been classified -/
def requestBody (t : ReqTables) (op : Byte) (rest : Input) (kind : Nat) (variant : String) : ReqOut :=
  if kind = 0 then .err t.statusInvalidCommand
  else if kind = 1 then .ok variant none
  else if kind = 3 then .ok variant (some (.nat op.toNat))
  else if kind = 2 then
    match t.reqTy variant with
    | none => .panic
    | some ty =>
      match decode ty rest with
      | .ok (v, _) => .ok variant (some v)
      | .error e => statusOf t e
  else .panic

def requestDeserialize (t : ReqTables) (data : Input) : ReqOut :=
  match data with
  | [] => .err t.statusOther             -- `data.is_empty()` guard / `split_first()` failure: same error
  | op :: rest => requestBody t op rest (reqKind t op.toNat).1 (reqKind t op.toNat).2

/-- `impl From<Operation> for u8` over the generated arm table: variant index ↦ byte; the
    vendor arm returns the byte wrapped in `VendorOperation` -/
def opToByte (into : List (Nat × Option Nat)) (i : Nat) (wrapped : Nat) : Option Nat :=
  match into.lookup i with
  | some (some b) => some b
  | some none => some wrapped
  | none => none

/-- lifting a complete finite check to a universally quantified statement -/
theorem forall_lt_of_all (n : Nat) (p : Nat → Bool) (h : (List.range n).all p = true) :
    ∀ b, b < n → p b = true := by
  intro b hb
  rw [List.all_eq_true] at h
  exact h b (List.mem_range.mpr hb)
