import Ctap.Decode
/-
  Interpreter for `ctap2::Request::deserialize` over *generated* tables:
  `impl TryFrom<u8> for Operation` (first-match byte ranges), the operation switch, and
  `From<CtapMappingError> for Error`.
-/

/-- first-match lookup in a byte-range table -/
def firstMatch : List (Nat × Nat × Option Nat) → Nat → Option Nat
  | [], _ => none
  | (lo, hi, r) :: rest, b => if lo ≤ b ∧ b ≤ hi then r else firstMatch rest b

/-- the tables `Request::deserialize` depends on -/
structure ReqTables where
  opTryFrom : List (Nat × Nat × Option Nat)        -- byte ranges → Operation variant index
  vendorArms : List Bool                           -- arms that go through `VendorOperation::try_from(code)?`
  vendorTryFrom : List (Nat × Nat × Option Nat)
  opSwitch : List (Nat × Nat × String)             -- variant index → (kind, request variant)
  emptyGuard : Bool
  statusInvalidCommand : Nat
  statusMissing : Nat
  statusOther : Nat
  reqTy : String → Option Ty                       -- request variant → parameter schema

/-- `Operation::try_from(byte)`: the matching arm and, for arms that delegate to
    `VendorOperation::try_from`, that conversion's verdict -/
def opOfByte (opTryFrom : List (Nat × Nat × Option Nat)) (vendorArms : List Bool)
    (vendorTryFrom : List (Nat × Nat × Option Nat)) (b : Nat) : Option Nat :=
  let rec go : List (Nat × Nat × Option Nat) → List Bool → Option Nat
    | [], _ => none
    | (lo, hi, r) :: rest, vs =>
      if lo ≤ b ∧ b ≤ hi then
        (if vs.head?.getD false then
           (match firstMatch vendorTryFrom b with
            | some _ => r
            | none => none)
         else r)
      else go rest vs.tail
  go opTryFrom vendorArms

def switchOf : List (Nat × Nat × String) → Nat → Option (Nat × String)
  | [], _ => none
  | (i, k, v) :: rest, op => if i = op then some (k, v) else switchOf rest op

inductive ReqOut
  | ok (variant : String) (payload : Option Val)
  | err (status : Nat)
  | panic

def statusOf (t : ReqTables) : DErr → ReqOut
  | .missing => .err t.statusMissing
  | .other => .err t.statusOther
  | .panic => .panic

def requestDeserialize (t : ReqTables) (data : Input) : ReqOut :=
  match data with
  | [] => if t.emptyGuard then .err t.statusOther else .err t.statusOther
  | op :: rest =>
    match opOfByte t.opTryFrom t.vendorArms t.vendorTryFrom op.toNat with
    | none => .err t.statusInvalidCommand
    | some o =>
      match switchOf t.opSwitch o with
      | none => .panic                          -- non-exhaustive match cannot compile; unreachable
      | some (kind, variant) =>
        if kind = 0 then .err t.statusInvalidCommand
        else if kind = 1 then .ok variant none
        else if kind = 3 then .ok variant (some (.nat op.toNat))
        else
          match t.reqTy variant with
          | none => .panic
          | some ty =>
            match decode ty rest with
            | .ok (v, _) => .ok variant (some v)
            | .error e => statusOf t e
