import Ctap.Arb
/-
  G-ARB: the generator helpers of `src/arbitrary.rs` never reach an `unwrap()` failure or the
  `from_utf8_unchecked` precondition violation, whatever the input bytes, and what they return is
  well-formed UTF-8 within capacity.
-/

theorem validUpToF_le : ∀ (fuel : Nat) (s : List Byte), validUpToF fuel s ≤ s.length
  | 0, _ => by simp [validUpToF]
  | fuel+1, s => by
    unfold validUpToF
    split
    · omega
    · have h1 := scalarLen_le_length s
      have h2 := validUpToF_le fuel (s.drop (scalarLen s))
      rw [List.length_drop] at h2
      omega

/-- the prefix `valid_up_to` designates is well-formed -/
theorem validUpToF_valid : ∀ (fuel : Nat) (s : List Byte), validUtf8 (s.take (validUpToF fuel s)) = true
  | 0, s => by simp [validUpToF, validUtf8]
  | fuel+1, s => by
    unfold validUpToF
    split
    · simp [validUtf8]
    · rename_i hk
      have ih := validUpToF_valid fuel (s.drop (scalarLen s))
      have : s.take (scalarLen s + validUpToF fuel (s.drop (scalarLen s))) =
          s.take (scalarLen s) ++ (s.drop (scalarLen s)).take (validUpToF fuel (s.drop (scalarLen s))) := by
        rw [List.take_add]
      rw [this, validUtf8_scalar_append s _ hk]
      exact ih

theorem validUpTo_valid (s : List Byte) : validUtf8 (s.take (validUpTo s)) = true := validUpToF_valid _ _
theorem validUpTo_le (s : List Byte) : validUpTo s ≤ s.length := validUpToF_le _ _

/-- what a helper may return: out of data, or a value satisfying `P` -/
def Fine {α : Type} (P : α → Prop) : AR α → Prop
  | .error e => e = .notEnough
  | .ok (a, _) => P a

theorem arbStr_fine (sh : ArbShape) (hc : sh.strClamp = true) (N : Nat) (u : List Byte) :
    Fine (fun s => validUtf8 s = true ∧ s.length ≤ N) (arbStr sh N u) := by
  unfold arbStr
  simp only [hc, if_true]
  generalize (fillLE 8 u) = n0
  unfold uPeek
  split
  · rename_i hp
    split at hp <;> simp at hp
    simp [Fine]
  · rename_i bs hp
    split at hp
    · cases hp
    · rename_i hlen
      simp only [Option.some.injEq] at hp
      have hbl : bs.length = min n0.1 N := by
        rw [← hp, List.length_take]; omega
      by_cases hv : validUtf8 bs = true
      · simp only [hv, if_true]
        have : bs.length ≤ N := by rw [hbl]; exact Nat.min_le_right _ _
        simp [this, Fine, hv]
      · simp only [hv, Bool.false_eq_true, if_false]
        have hi := validUpTo_le bs
        unfold uBytes
        have : ¬ n0.2.length < validUpTo bs := by omega
        simp only [this, if_false]
        have hvb := validUpTo_valid bs
        have htk : n0.2.take (validUpTo bs) = bs.take (validUpTo bs) := by
          have e : bs = n0.2.take (min n0.1 N) := hp.symm
          generalize validUpTo bs = k at *
          rw [e, List.take_take, Nat.min_eq_left (by omega)]
        have hvv : validUtf8 (n0.2.take (validUpTo bs)) = true := by rw [htk]; exact hvb
        have hl : (n0.2.take (validUpTo bs)).length ≤ N := by
          rw [List.length_take]
          have := Nat.min_le_right n0.1 N
          omega
        rw [if_neg (by simp [hvv]), if_pos hl]
        exact ⟨hvv, hl⟩

theorem arbBytes_fine (sh : ArbShape) (hc : sh.bytesClamp = true) (N : Nat) (u : List Byte) :
    Fine (fun b => b.length ≤ N) (arbBytes sh N u) := by
  unfold arbBytes
  simp only [hc, if_true]
  generalize (fillLE 8 u) = n0
  unfold uBytes
  split
  · rename_i e he
    split at he
    · cases he; rfl
    · cases he
  · rename_i b r he
    split at he
    · cases he
    · cases he
      have : (List.take (min n0.1 N) n0.2).length ≤ N := by
        rw [List.length_take]
        have := Nat.min_le_right n0.1 N
        omega
      rw [if_pos this]
      exact this

theorem arbByteArray_fine (N : Nat) (u : List Byte) : Fine (fun b => b.length = N) (arbByteArray N u) := by
  unfold arbByteArray uBytes
  split
  · rename_i e he
    split at he
    · cases he; rfl
    · cases he
  · rename_i b r he
    split at he
    · cases he
    · cases he
      have : (List.take N u).length = N := by rw [List.length_take]; omega
      rw [if_pos this]
      exact this

theorem intInRange0_le (width max : Nat) (u : List Byte) (h : max + 1 ≠ 256 ^ width) :
    (intInRange0 width max u).1 ≤ max := by
  unfold intInRange0
  split
  · simp
  · simp only [h, if_false]
    have := Nat.mod_lt (gather width max width 0 u).1 (show max + 1 > 0 by omega)
    omega

theorem vecLoop_fine {α : Type} (elem : List Byte → AR α) (P : α → Prop) (he : ∀ x, Fine P (elem x)) (N : Nat) :
    ∀ (k : Nat) (u : List Byte) (acc : List α), acc.length + k ≤ N → (∀ a ∈ acc, P a) →
      Fine (fun vs => vs.length ≤ N ∧ ∀ a ∈ vs, P a) (vecLoop elem N k u acc)
  | 0, u, acc, hk, hp => by simp only [vecLoop, Fine]; exact ⟨by omega, hp⟩
  | k+1, u, acc, hk, hp => by
    unfold vecLoop
    have h := he u
    split
    · rename_i e hx; rw [hx] at h; exact h
    · rename_i v u' hx
      rw [hx] at h
      have hlt : acc.length < N := by omega
      simp only [hlt, if_true]
      apply vecLoop_fine elem P he N k u' (acc ++ [v])
      · rw [List.length_append]; simp; omega
      · intro a ha
        rcases List.mem_append.mp ha with h1 | h1
        · exact hp a h1
        · simp at h1; subst h1; exact h

theorem arbVec_fine {α : Type} (sh : ArbShape) (hx : sh.vecMaxExtra = 0) (elem : List Byte → AR α) (P : α → Prop)
    (he : ∀ x, Fine P (elem x)) (N : Nat) (hN : N + 1 < 4294967296) (u : List Byte) :
    Fine (fun vs => vs.length ≤ N ∧ ∀ a ∈ vs, P a) (arbVec sh elem N u) := by
  unfold arbVec
  simp only [hx, Nat.add_zero]
  have hc := intInRange0_le 4 N u (by
    have : (256 : Nat) ^ 4 = 4294967296 := by decide
    omega)
  exact vecLoop_fine elem P he N _ _ [] (by simpa using hc) (by simp)

/-! ### the hand-written impls -/

def ArbShape.good (sh : ArbShape) : Bool := sh.strClamp && sh.bytesClamp && sh.vecMaxExtra == 0

def Draw.capOk : Draw → Bool
  | .vecChoose cap _ => decide (cap + 1 < 4294967296)
  | .vecEnum cap _ => decide (cap + 1 < 4294967296)
  | _ => true

/-- what the property promises about one drawn member -/
def Draw.holds : Draw → Option Val → Prop
  | .str cap, some (.text s) => validUtf8 s = true ∧ s.length ≤ cap
  | .optStr _, none => True
  | .optStr cap, some (.text s) => validUtf8 s = true ∧ s.length ≤ cap
  | .bytes cap, some (.bytes b) => b.length ≤ cap
  | .optUnit, none => True
  | .optUnit, some .unit => True
  | .bool, some (.bool _) => True
  | .vecChoose cap table, some (.list vs) => vs.length ≤ cap ∧ ∀ v ∈ vs, ∃ a, v = .int a ∧ (a ∈ table ∨ a = 0)
  | .vecEnum cap _, some (.list vs) => vs.length ≤ cap
  | .key, some (.record [some (.bytes x), some (.bytes y)]) => x.length ≤ 32 ∧ y.length ≤ 32
  | .optU32, none => True
  | .optU32, some (.nat _) => True
  | _, _ => False

theorem drawOne_fine (sh : ArbShape) (hs : sh.good = true) (d : Draw) (hd : d.capOk = true) (u : List Byte) :
    Fine (d.holds) (drawOne sh d u) := by
  simp only [ArbShape.good, Bool.and_eq_true, beq_iff_eq] at hs
  obtain ⟨⟨h1, h2⟩, h3⟩ := hs
  cases d with
  | str cap =>
    simp only [drawOne]
    have h := arbStr_fine sh h1 cap u
    split
    · rename_i e he; rw [he] at h; exact h
    · rename_i s r he; rw [he] at h; exact h
  | optStr cap =>
    simp only [drawOne]
    split
    · have h := arbStr_fine sh h1 cap (arbBool u).2
      split
      · rename_i e he; rw [he] at h; exact h
      · rename_i s r he; rw [he] at h; exact h
    · simp [Fine, Draw.holds]
  | bytes cap =>
    simp only [drawOne]
    have h := arbBytes_fine sh h2 cap u
    split
    · rename_i e he; rw [he] at h; exact h
    · rename_i s r he; rw [he] at h; exact h
  | optUnit =>
    simp only [drawOne, Fine]
    split <;> simp [Draw.holds]
  | bool => simp [drawOne, Fine, Draw.holds]
  | vecChoose cap table =>
    simp only [drawOne]
    simp only [Draw.capOk, decide_eq_true_eq] at hd
    have h := arbVec_fine sh h3
      (fun x => (.ok (Val.int (table.getD (arbChoose table.length x).1 0), (arbChoose table.length x).2) : AR Val))
      (fun v => ∃ a, v = .int a ∧ (a ∈ table ∨ a = 0))
      (by
        intro x
        simp only [Fine]
        refine ⟨_, rfl, ?_⟩
        rw [List.getD_eq_getElem?_getD]
        cases hg : table[(arbChoose table.length x).1]? with
        | none => right; rfl
        | some a => left; exact List.mem_of_getElem? hg)
      cap hd u
    split
    · rename_i e he; rw [he] at h; exact h
    · rename_i vs r he; rw [he] at h; exact h
  | key =>
    simp only [drawOne]
    have h := arbBytes_fine sh h2 32 u
    split
    · rename_i e he; rw [he] at h; exact h
    · rename_i x r he
      rw [he] at h
      have h' := arbBytes_fine sh h2 32 r
      split
      · rename_i e he'; rw [he'] at h'; exact h'
      · rename_i y r' he'; rw [he'] at h'; exact ⟨h, h'⟩
  | optU32 =>
    simp only [drawOne]
    split <;> simp [Fine, Draw.holds]
  | vecEnum cap count =>
    simp only [drawOne]
    simp only [Draw.capOk, decide_eq_true_eq] at hd
    have h := arbVec_fine sh h3
      (fun x => (.ok (Val.nat (arbEnum count x).1, (arbEnum count x).2) : AR Val)) (fun _ => True)
      (by intro x; simp [Fine]) cap hd u
    split
    · rename_i e he; rw [he] at h; exact h
    · rename_i vs r he; rw [he] at h; exact h.1

/-- pointwise: value `i` satisfies what draw `i` promises -/
def holdsAll : List Draw → List (Option Val) → Prop
  | [], [] => True
  | d :: ds, v :: vs => d.holds v ∧ holdsAll ds vs
  | _, _ => False

theorem holdsAll_snoc : ∀ (ds : List Draw) (vs : List (Option Val)) (d : Draw) (v : Option Val),
    holdsAll ds vs → d.holds v → holdsAll (ds ++ [d]) (vs ++ [v])
  | [], [], _, _, _, h => by simp [holdsAll, h]
  | [], _ :: _, _, _, h, _ => by simp [holdsAll] at h
  | _ :: _, [], _, _, h, _ => by simp [holdsAll] at h
  | d0 :: ds, v0 :: vs, d, v, h, hv => by
    simp only [List.cons_append, holdsAll] at h ⊢
    exact ⟨h.1, holdsAll_snoc ds vs d v h.2 hv⟩

theorem drawAll_fine (sh : ArbShape) (hs : sh.good = true) :
    ∀ (ds done : List Draw) (u : List Byte) (acc : List (Option Val)), (∀ d ∈ ds, d.capOk = true) →
      holdsAll done acc → Fine (holdsAll (done ++ ds)) (drawAll sh ds u acc)
  | [], done, u, acc, _, ha => by simp only [drawAll, Fine, List.append_nil]; exact ha
  | d :: ds, done, u, acc, hc, ha => by
    unfold drawAll
    have h := drawOne_fine sh hs d (hc d (by simp)) u
    split
    · rename_i e he; rw [he] at h; exact h
    · rename_i v r he
      rw [he] at h
      have := drawAll_fine sh hs ds (done ++ [d]) r (acc ++ [v]) (fun x hx => hc x (by simp [hx]))
        (holdsAll_snoc done acc d v ha h)
      simpa using this

/-- **G-ARB.** A hand-written generator (any list of draws within `u32` capacities) over helpers
    of the extracted shape, on any input bytes: either the bytes ran out, or every member is
    well-formed UTF-8 / within its capacity.  No `unwrap()` failure and no `from_utf8_unchecked`
    on ill-formed bytes is reachable. -/
theorem generator_fine (sh : ArbShape) (hs : sh.good = true) (ds : List Draw) (hc : ∀ d ∈ ds, d.capOk = true)
    (u : List Byte) : Fine (holdsAll ds) (drawAll sh ds u []) := by
  simpa using drawAll_fine sh hs ds [] u [] hc (by simp [holdsAll])
