import Ctap.Canon
/-
  G-EXT: schema extension.  `ext t t'` says `t'` is `t` with additional *optional* members
  (integer-keyed structs: appended after all existing keys; text-keyed structs: anywhere) and
  possibly larger byte-string capacities, all existing members keeping key, type, optionality and
  reader.  Then every value of `t` is written identically under `t'` (`embed` leaves the new
  members unset).
-/

def FieldInfo.optionalSkip (f : FieldInfo) : Bool := !f.required && (f.ser == .skipNone || f.ser == .never)

def allOptional : Fields → Bool
  | .nil => true
  | .cons f _ rest => f.optionalSkip && allOptional rest

mutual
def ext : Ty → Ty → Bool
  | .leaf l, .leaf l' =>
    (match l, l' with
     | .bytes (some c), .bytes (some c') => decide (c ≤ c')
     | _, _ => l == l')
  | .vec c t, .vec c' t' => c == c' && ext t t'
  | .filtered a b c d e, .filtered a' b' c' d' e' => a == a' && b == b' && c == c' && d == d' && decide (e = e')
  | .indexed o fs, .indexed o' fs' => o == o' && extI fs fs'
  | .text fs, .text fs' => extT fs fs'
  | .untagged fs, .untagged fs' => extU fs fs'
  | _, _ => false
termination_by structural _ t' => t'
/-- integer keys are positions: existing members stay where they are, new ones come last -/
def extI : Fields → Fields → Bool
  | .nil, fs' => allOptional fs'
  | .cons _ _ _, .nil => false
  | .cons f t r, .cons f' t' r' => f == f' && ext t t' && extI r r'
termination_by structural _ fs' => fs'
/-- text keys: the old members form a subsequence of the new ones -/
def extT : Fields → Fields → Bool
  | .nil, fs' => allOptional fs'
  | .cons _ _ _, .nil => false
  | .cons f t r, .cons f' t' r' =>
    if f == f' then ext t t' && extT r r' else f'.optionalSkip && extT (.cons f t r) r'
termination_by structural _ fs' => fs'
def extU : Fields → Fields → Bool
  | .nil, .nil => true
  | .cons _ t r, .cons _ t' r' => ext t t' && extU r r'
  | _, _ => false
termination_by structural _ fs' => fs'
end

mutual
/-- a value of `t` seen as a value of `t'`: new members unset -/
def embed : Ty → Ty → Val → Val
  | .vec _ t, .vec _ t', .list vs => .list (vs.map (fun v => embed t t' v))
  | .indexed _ fs, .indexed _ fs', .record s => .record (embedI fs fs' s)
  | .text fs, .text fs', .record s => .record (embedT fs fs' s)
  | .untagged fs, .untagged fs', .variant i v => .variant i (embedU fs fs' i v)
  | _, _, v => v
termination_by structural _ t' _ => t'
def embedI : Fields → Fields → Slots → Slots
  | .nil, fs', _ => List.replicate fs'.length none
  | .cons _ _ _, .nil, s => s
  | .cons _ t r, .cons _ t' r', s =>
    (s.head?.join.map (fun v => embed t t' v)) :: embedI r r' s.tail
termination_by structural _ fs' _ => fs'
def embedT : Fields → Fields → Slots → Slots
  | .nil, fs', _ => List.replicate fs'.length none
  | .cons _ _ _, .nil, s => s
  | .cons f t r, .cons f' t' r', s =>
    if f == f' then (s.head?.join.map (fun v => embed t t' v)) :: embedT r r' s.tail
    else none :: embedT (.cons f t r) r' s
termination_by structural _ fs' _ => fs'
def embedU : Fields → Fields → Nat → Val → Val
  | .cons _ t _, .cons _ t' _, 0, v => embed t t' v
  | .cons _ _ r, .cons _ _ r', i+1, v => embedU r r' i v
  | _, _, _, v => v
termination_by structural _ fs' _ _ => fs'
end

theorem enc_none_tail (key : Nat → FieldInfo → List Byte) : ∀ (fs : Fields) (i : Nat),
    allOptional fs = true → encFields key fs i (List.replicate fs.length none) = [] ∧
      countEmit fs (List.replicate fs.length none) = 0
  | .nil, _, _ => ⟨rfl, rfl⟩
  | .cons f t rest, i, h => by
      simp only [allOptional, Bool.and_eq_true, FieldInfo.optionalSkip, Bool.not_eq_eq_eq_not, Bool.not_true,
        Bool.or_eq_true, beq_iff_eq] at h
      have hem : emits f.ser none = false := by
        rcases h.1.2 with hs | hs <;> rw [hs] <;> rfl
      have ih := enc_none_tail key rest (i+1) h.2
      simp only [Fields.length, List.replicate_succ, encFields, countEmit, List.head?_cons, Option.join_some,
        List.tail_cons, hem, Bool.false_eq_true, if_false, List.nil_append, ih.1, ih.2]
      exact ⟨trivial, trivial⟩

theorem encFields_txt_pos : ∀ (fs : Fields) (i j : Nat) (s : Slots),
    encFields keyTxt fs i s = encFields keyTxt fs j s
  | .nil, _, _, _ => rfl
  | .cons f t rest, i, j, s => by
      simp only [encFields, keyTxt]
      rw [encFields_txt_pos rest (i+1) (j+1) s.tail]

theorem ext_leaf (l l' : Leaf) (v : Val) (h : ext (.leaf l) (.leaf l') = true) : encLeaf l v = encLeaf l' v := by
  by_cases heq : l = l'
  · subst heq; rfl
  · -- the only non-identical case: a byte-string capacity that grew
    have hb : ∃ c c', l = .bytes (some c) ∧ l' = .bytes (some c') := by
      unfold ext at h
      split at h
      · exact ⟨_, _, rfl, rfl⟩
      · exact absurd (by simpa using h) heq
    obtain ⟨c, c', rfl, rfl⟩ := hb
    cases v <;> rfl

mutual
/-- **G-EXT (encoding).** A value of `t` is written byte-for-byte identically under any extension
    `t'` of `t`. -/
theorem ext_encode : ∀ (t t' : Ty) (v : Val), ext t t' = true → wts t v = true →
    encode t v = encode t' (embed t t' v)
  | .leaf l, .leaf l', v, h, _ => by simp only [encode, embed]; exact ext_leaf l l' v h
  | .vec c t, .vec c' t', .list vs, h, hw => by
      simp only [ext, Bool.and_eq_true] at h
      simp only [wts, Bool.and_eq_true, List.all_eq_true] at hw
      simp only [encode, embed, List.length_map, List.map_map]
      congr 2
      apply List.map_congr_left
      intro v hv
      exact ext_encode t t' v h.2 (hw.2 v hv)
  | .filtered a b c d e, .filtered a' b' c' d' e', .list vs, h, _ => by
      simp only [ext, Bool.and_eq_true, beq_iff_eq, decide_eq_true_eq] at h
      obtain ⟨⟨⟨⟨_, _⟩, _⟩, hd⟩, he⟩ := h
      subst hd he
      simp only [encode, embed]
  | .indexed o fs, .indexed o' fs', .record s, h, hw => by
      simp only [ext, Bool.and_eq_true, beq_iff_eq] at h
      obtain ⟨ho, hf⟩ := h
      subst ho
      simp only [wts] at hw
      simp only [encode, embed]
      have := extI_encode (keyIdx o) fs fs' 0 s hf hw
      rw [this.1, this.2]
  | .text fs, .text fs', .record s, h, hw => by
      simp only [ext] at h
      simp only [wts] at hw
      simp only [encode, embed]
      have := extT_encode fs fs' s h hw
      rw [this.1, this.2]
  | .untagged fs, .untagged fs', .variant i v, h, hw => by
      simp only [ext] at h
      simp only [wts] at hw
      simp only [encode, embed]
      exact extU_encode fs fs' i v h hw
  | .leaf _, .vec _ _, _, h, _ | .leaf _, .filtered _ _ _ _ _, _, h, _ | .leaf _, .indexed _ _, _, h, _
  | .leaf _, .text _, _, h, _ | .leaf _, .untagged _, _, h, _
  | .vec _ _, .leaf _, _, h, _ | .vec _ _, .filtered _ _ _ _ _, _, h, _ | .vec _ _, .indexed _ _, _, h, _
  | .vec _ _, .text _, _, h, _ | .vec _ _, .untagged _, _, h, _
  | .filtered _ _ _ _ _, .leaf _, _, h, _ | .filtered _ _ _ _ _, .vec _ _, _, h, _ | .filtered _ _ _ _ _, .indexed _ _, _, h, _
  | .filtered _ _ _ _ _, .text _, _, h, _ | .filtered _ _ _ _ _, .untagged _, _, h, _
  | .indexed _ _, .leaf _, _, h, _ | .indexed _ _, .vec _ _, _, h, _ | .indexed _ _, .filtered _ _ _ _ _, _, h, _
  | .indexed _ _, .text _, _, h, _ | .indexed _ _, .untagged _, _, h, _
  | .text _, .leaf _, _, h, _ | .text _, .vec _ _, _, h, _ | .text _, .filtered _ _ _ _ _, _, h, _
  | .text _, .indexed _ _, _, h, _ | .text _, .untagged _, _, h, _
  | .untagged _, .leaf _, _, h, _ | .untagged _, .vec _ _, _, h, _ | .untagged _, .filtered _ _ _ _ _, _, h, _
  | .untagged _, .indexed _ _, _, h, _ | .untagged _, .text _, _, h, _ => by simp [ext] at h
  | .vec _ _, .vec _ _, .nat _, _, hw | .vec _ _, .vec _ _, .int _, _, hw | .vec _ _, .vec _ _, .bool _, _, hw
  | .vec _ _, .vec _ _, .unit, _, hw | .vec _ _, .vec _ _, .bytes _, _, hw | .vec _ _, .vec _ _, .text _, _, hw
  | .vec _ _, .vec _ _, .record _, _, hw | .vec _ _, .vec _ _, .variant _ _, _, hw
  | .filtered _ _ _ _ _, .filtered _ _ _ _ _, .nat _, _, hw | .filtered _ _ _ _ _, .filtered _ _ _ _ _, .int _, _, hw
  | .filtered _ _ _ _ _, .filtered _ _ _ _ _, .bool _, _, hw | .filtered _ _ _ _ _, .filtered _ _ _ _ _, .unit, _, hw
  | .filtered _ _ _ _ _, .filtered _ _ _ _ _, .bytes _, _, hw | .filtered _ _ _ _ _, .filtered _ _ _ _ _, .text _, _, hw
  | .filtered _ _ _ _ _, .filtered _ _ _ _ _, .record _, _, hw | .filtered _ _ _ _ _, .filtered _ _ _ _ _, .variant _ _, _, hw
  | .indexed _ _, .indexed _ _, .nat _, _, hw | .indexed _ _, .indexed _ _, .int _, _, hw | .indexed _ _, .indexed _ _, .bool _, _, hw
  | .indexed _ _, .indexed _ _, .unit, _, hw | .indexed _ _, .indexed _ _, .bytes _, _, hw | .indexed _ _, .indexed _ _, .text _, _, hw
  | .indexed _ _, .indexed _ _, .list _, _, hw | .indexed _ _, .indexed _ _, .variant _ _, _, hw
  | .text _, .text _, .nat _, _, hw | .text _, .text _, .int _, _, hw | .text _, .text _, .bool _, _, hw
  | .text _, .text _, .unit, _, hw | .text _, .text _, .bytes _, _, hw | .text _, .text _, .text _, _, hw
  | .text _, .text _, .list _, _, hw | .text _, .text _, .variant _ _, _, hw
  | .untagged _, .untagged _, .nat _, _, hw | .untagged _, .untagged _, .int _, _, hw | .untagged _, .untagged _, .bool _, _, hw
  | .untagged _, .untagged _, .unit, _, hw | .untagged _, .untagged _, .bytes _, _, hw | .untagged _, .untagged _, .text _, _, hw
  | .untagged _, .untagged _, .list _, _, hw | .untagged _, .untagged _, .record _, _, hw => by simp [wts] at hw
theorem extI_encode (key : Nat → FieldInfo → List Byte) : ∀ (fs fs' : Fields) (i : Nat) (s : Slots),
    extI fs fs' = true → wtsFields fs s = true →
    encFields key fs i s = encFields key fs' i (embedI fs fs' s) ∧ countEmit fs s = countEmit fs' (embedI fs fs' s)
  | .nil, fs', i, s, h, _ => by
      simp only [extI] at h
      have := enc_none_tail key fs' i h
      simp only [embedI, encFields, countEmit, this.1, this.2, and_self]
  | .cons _ _ _, .nil, _, _, h, _ => by simp [extI] at h
  | .cons f t r, .cons f' t' r', i, s, h, hw => by
      simp only [extI, Bool.and_eq_true, beq_iff_eq] at h
      obtain ⟨⟨hf, ht⟩, hr⟩ := h
      subst hf
      match s, hw with
      | [], hw => simp [wtsFields] at hw
      | o :: s', hw =>
        simp only [wtsFields, Bool.and_eq_true] at hw
        have ih := extI_encode key r r' (i+1) s' hr hw.2
        simp only [embedI, encFields, countEmit, List.head?_cons, Option.join_some, List.tail_cons]
        cases o with
        | none => simp only [Option.map_none, ih.1, ih.2]; exact ⟨rfl, rfl⟩
        | some v =>
          have hv := hw.1
          simp only [Bool.and_eq_true] at hv
          have hev := ext_encode t t' v ht hv.2
          simp only [Option.map_some, ih.1, ih.2, hev]; exact ⟨rfl, rfl⟩
theorem extT_encode : ∀ (fs fs' : Fields) (s : Slots), extT fs fs' = true → wtsFields fs s = true →
    encFields keyTxt fs 0 s = encFields keyTxt fs' 0 (embedT fs fs' s) ∧ countEmit fs s = countEmit fs' (embedT fs fs' s)
  | .nil, fs', s, h, _ => by
      simp only [extT] at h
      have := enc_none_tail keyTxt fs' 0 h
      simp only [embedT, encFields, countEmit, this.1, this.2, and_self]
  | .cons _ _ _, .nil, _, h, _ => by simp [extT] at h
  | .cons f t r, .cons f' t' r', s, h, hw => by
      simp only [extT] at h
      by_cases hff : (f == f') = true
      · simp only [hff, if_true, Bool.and_eq_true] at h
        have hf : f = f' := by simpa using hff
        subst hf
        match s, hw with
        | [], hw => simp [wtsFields] at hw
        | o :: s', hw =>
          simp only [wtsFields, Bool.and_eq_true] at hw
          have ih := extT_encode r r' s' h.2 hw.2
          simp only [embedT, hff, if_true, encFields, countEmit, List.head?_cons, Option.join_some, List.tail_cons, keyTxt]
          rw [encFields_txt_pos r 1 0 s', encFields_txt_pos r' 1 0 (embedT r r' s')]
          cases o with
          | none => simp only [Option.map_none, ih.1, ih.2]; exact ⟨rfl, rfl⟩
          | some v =>
            have hv := hw.1
            simp only [Bool.and_eq_true] at hv
            have hev := ext_encode t t' v h.1 hv.2
            simp only [Option.map_some, ih.1, ih.2, hev]; exact ⟨rfl, rfl⟩
      · have hff' : (f == f') = false := by simpa using hff
        simp only [hff', Bool.false_eq_true, if_false, Bool.and_eq_true, FieldInfo.optionalSkip,
          Bool.not_eq_eq_eq_not, Bool.not_true, Bool.or_eq_true, beq_iff_eq] at h
        have ih := extT_encode (.cons f t r) r' s h.2 hw
        have hem : emits f'.ser none = false := by
          rcases h.1.2 with hs | hs <;> rw [hs] <;> rfl
        simp only [embedT, hff', Bool.false_eq_true, if_false]
        rw [ih.1, ih.2]
        simp only [encFields, countEmit, List.head?_cons, Option.join_some, List.tail_cons, hem,
          Bool.false_eq_true, if_false, List.nil_append, Nat.zero_add]
        rw [encFields_txt_pos r' 1 0]
        exact ⟨rfl, trivial⟩
theorem extU_encode : ∀ (fs fs' : Fields) (i : Nat) (v : Val), extU fs fs' = true → wtsAlt fs i v = true →
    encAlt fs i v = encAlt fs' i (embedU fs fs' i v)
  | .nil, .nil, _, _, _, hw => by simp [wtsAlt] at hw
  | .nil, .cons _ _ _, _, _, h, _ => by simp [extU] at h
  | .cons _ _ _, .nil, _, _, h, _ => by simp [extU] at h
  | .cons _ t r, .cons _ t' r', 0, v, h, hw => by
      simp only [extU, Bool.and_eq_true] at h; simp only [wtsAlt] at hw
      simp only [encAlt, embedU]; exact ext_encode t t' v h.1 hw
  | .cons _ t r, .cons _ t' r', i+1, v, h, hw => by
      simp only [extU, Bool.and_eq_true] at h; simp only [wtsAlt] at hw
      simp only [encAlt, embedU]; exact extU_encode r r' i v h.2 hw
end

/-! ### G-EXT (values): the embedding of a value an authenticator can hold is one it can hold -/

theorem modeOk_embed (m : Mode) (t t' : Ty) (v : Val) : modeOk m (embed t t' v) = modeOk m v := by
  cases v <;> cases t <;> cases t' <;> cases m <;> simp [embed, modeOk]

theorem noneOk_of_optionalSkip (f : FieldInfo) (h : f.optionalSkip = true) : noneOk f = true := by
  simp only [FieldInfo.optionalSkip, Bool.and_eq_true, Bool.not_eq_eq_eq_not, Bool.not_true, Bool.or_eq_true, beq_iff_eq] at h
  unfold noneOk
  rcases h.2 with hs | hs <;> rw [hs] <;> simp [h.1]

theorem wtFields_none : ∀ (fs : Fields), allOptional fs = true → wtFields fs (List.replicate fs.length none) = true
  | .nil, _ => rfl
  | .cons f t rest, h => by
    simp only [allOptional, Bool.and_eq_true] at h
    simp only [Fields.length, List.replicate_succ, wtFields, noneOk_of_optionalSkip f h.1, Bool.true_and]
    exact wtFields_none rest h.2

theorem ext_wtLeaf (l l' : Leaf) (v : Val) (h : ext (.leaf l) (.leaf l') = true) (hw : wtLeaf l v = true) :
    wtLeaf l' v = true := by
  by_cases heq : l = l'
  · subst heq; exact hw
  · have hb : ∃ c c', l = .bytes (some c) ∧ l' = .bytes (some c') ∧ c ≤ c' := by
      unfold ext at h
      split at h
      · rename_i c c'
        exact ⟨c, c', rfl, rfl, by simpa using h⟩
      · exact absurd (by simpa using h) heq
    obtain ⟨c, c', rfl, rfl, hc⟩ := hb
    cases v <;> simp_all [wtLeaf, capOk]
    omega

mutual
theorem ext_wt : ∀ (t t' : Ty) (v : Val), ext t t' = true → wt t v = true → wt t' (embed t t' v) = true
  | .leaf l, .leaf l', v, h, hw => by
      simp only [embed, wt] at hw ⊢
      exact ext_wtLeaf l l' v h hw
  | .vec c t, .vec c' t', .list vs, h, hw => by
      simp only [ext, Bool.and_eq_true, beq_iff_eq] at h
      simp only [wt, Bool.and_eq_true, decide_eq_true_eq, List.all_eq_true] at hw
      simp only [embed, wt, Bool.and_eq_true, decide_eq_true_eq, List.all_eq_true, List.length_map, List.mem_map,
        forall_exists_index, and_imp, forall_apply_eq_imp_iff₂]
      refine ⟨⟨by rw [← h.1]; exact hw.1.1, hw.1.2⟩, ?_⟩
      intro v hv
      exact ext_wt t t' v h.2 (hw.2 v hv)
  | .filtered a b c d e, .filtered a' b' c' d' e', .list vs, h, hw => by
      simp only [ext, Bool.and_eq_true, beq_iff_eq, decide_eq_true_eq] at h
      obtain ⟨⟨⟨⟨ha, hb⟩, hc⟩, hd⟩, he⟩ := h
      subst ha hb hc hd he
      simpa only [embed] using hw
  | .indexed o fs, .indexed o' fs', .record s, h, hw => by
      simp only [ext, Bool.and_eq_true] at h
      simp only [wt] at hw
      simp only [embed, wt]
      exact extI_wt fs fs' s h.2 hw
  | .text fs, .text fs', .record s, h, hw => by
      simp only [ext] at h
      simp only [wt] at hw
      simp only [embed, wt]
      exact extT_wt fs fs' s h hw
  | .leaf _, .vec _ _, _, h, _ => by simp [ext] at h
  | .leaf _, .filtered _ _ _ _ _, _, h, _ => by simp [ext] at h
  | .leaf _, .indexed _ _, _, h, _ => by simp [ext] at h
  | .leaf _, .text _, _, h, _ => by simp [ext] at h
  | .leaf _, .untagged _, _, h, _ => by simp [ext] at h
  | .vec _ _, .leaf _, _, h, _ => by simp [ext] at h
  | .vec _ _, .filtered _ _ _ _ _, _, h, _ => by simp [ext] at h
  | .vec _ _, .indexed _ _, _, h, _ => by simp [ext] at h
  | .vec _ _, .text _, _, h, _ => by simp [ext] at h
  | .vec _ _, .untagged _, _, h, _ => by simp [ext] at h
  | .filtered _ _ _ _ _, .leaf _, _, h, _ => by simp [ext] at h
  | .filtered _ _ _ _ _, .vec _ _, _, h, _ => by simp [ext] at h
  | .filtered _ _ _ _ _, .indexed _ _, _, h, _ => by simp [ext] at h
  | .filtered _ _ _ _ _, .text _, _, h, _ => by simp [ext] at h
  | .filtered _ _ _ _ _, .untagged _, _, h, _ => by simp [ext] at h
  | .indexed _ _, .leaf _, _, h, _ => by simp [ext] at h
  | .indexed _ _, .vec _ _, _, h, _ => by simp [ext] at h
  | .indexed _ _, .filtered _ _ _ _ _, _, h, _ => by simp [ext] at h
  | .indexed _ _, .text _, _, h, _ => by simp [ext] at h
  | .indexed _ _, .untagged _, _, h, _ => by simp [ext] at h
  | .text _, .leaf _, _, h, _ => by simp [ext] at h
  | .text _, .vec _ _, _, h, _ => by simp [ext] at h
  | .text _, .filtered _ _ _ _ _, _, h, _ => by simp [ext] at h
  | .text _, .indexed _ _, _, h, _ => by simp [ext] at h
  | .text _, .untagged _, _, h, _ => by simp [ext] at h
  | .untagged _, _, _, _, hw => by simp [wt] at hw
  | .vec _ _, .vec _ _, .nat _, _, hw => by simp [wt] at hw
  | .vec _ _, .vec _ _, .int _, _, hw => by simp [wt] at hw
  | .vec _ _, .vec _ _, .bool _, _, hw => by simp [wt] at hw
  | .vec _ _, .vec _ _, .unit, _, hw => by simp [wt] at hw
  | .vec _ _, .vec _ _, .bytes _, _, hw => by simp [wt] at hw
  | .vec _ _, .vec _ _, .text _, _, hw => by simp [wt] at hw
  | .vec _ _, .vec _ _, .record _, _, hw => by simp [wt] at hw
  | .vec _ _, .vec _ _, .variant _ _, _, hw => by simp [wt] at hw
  | .filtered _ _ _ _ _, .filtered _ _ _ _ _, .nat _, _, hw => by simp [wt] at hw
  | .filtered _ _ _ _ _, .filtered _ _ _ _ _, .int _, _, hw => by simp [wt] at hw
  | .filtered _ _ _ _ _, .filtered _ _ _ _ _, .bool _, _, hw => by simp [wt] at hw
  | .filtered _ _ _ _ _, .filtered _ _ _ _ _, .unit, _, hw => by simp [wt] at hw
  | .filtered _ _ _ _ _, .filtered _ _ _ _ _, .bytes _, _, hw => by simp [wt] at hw
  | .filtered _ _ _ _ _, .filtered _ _ _ _ _, .text _, _, hw => by simp [wt] at hw
  | .filtered _ _ _ _ _, .filtered _ _ _ _ _, .record _, _, hw => by simp [wt] at hw
  | .filtered _ _ _ _ _, .filtered _ _ _ _ _, .variant _ _, _, hw => by simp [wt] at hw
  | .indexed _ _, .indexed _ _, .nat _, _, hw => by simp [wt] at hw
  | .indexed _ _, .indexed _ _, .int _, _, hw => by simp [wt] at hw
  | .indexed _ _, .indexed _ _, .bool _, _, hw => by simp [wt] at hw
  | .indexed _ _, .indexed _ _, .unit, _, hw => by simp [wt] at hw
  | .indexed _ _, .indexed _ _, .bytes _, _, hw => by simp [wt] at hw
  | .indexed _ _, .indexed _ _, .text _, _, hw => by simp [wt] at hw
  | .indexed _ _, .indexed _ _, .list _, _, hw => by simp [wt] at hw
  | .indexed _ _, .indexed _ _, .variant _ _, _, hw => by simp [wt] at hw
  | .text _, .text _, .nat _, _, hw => by simp [wt] at hw
  | .text _, .text _, .int _, _, hw => by simp [wt] at hw
  | .text _, .text _, .bool _, _, hw => by simp [wt] at hw
  | .text _, .text _, .unit, _, hw => by simp [wt] at hw
  | .text _, .text _, .bytes _, _, hw => by simp [wt] at hw
  | .text _, .text _, .text _, _, hw => by simp [wt] at hw
  | .text _, .text _, .list _, _, hw => by simp [wt] at hw
  | .text _, .text _, .variant _ _, _, hw => by simp [wt] at hw
theorem extI_wt : ∀ (fs fs' : Fields) (s : Slots), extI fs fs' = true → wtFields fs s = true →
    wtFields fs' (embedI fs fs' s) = true
  | .nil, fs', s, h, _ => by
      simp only [extI] at h
      simp only [embedI]
      exact wtFields_none fs' h
  | .cons _ _ _, .nil, _, h, _ => by simp [extI] at h
  | .cons f t r, .cons f' t' r', s, h, hw => by
      simp only [extI, Bool.and_eq_true, beq_iff_eq] at h
      obtain ⟨⟨hf, ht⟩, hr⟩ := h
      subst hf
      cases s with
      | nil => simp [wtFields] at hw
      | cons o s' =>
        simp only [wtFields, Bool.and_eq_true] at hw
        simp only [embedI, List.head?_cons, Option.join_some, List.tail_cons, wtFields, Bool.and_eq_true]
        refine ⟨?_, extI_wt r r' s' hr hw.2⟩
        cases o with
        | none => simpa using hw.1
        | some v =>
          simp only [Option.map_some, Bool.and_eq_true] at hw ⊢
          exact ⟨⟨hw.1.1.1, ext_wt t t' v ht hw.1.1.2⟩, by rw [modeOk_embed]; exact hw.1.2⟩
theorem extT_wt : ∀ (fs fs' : Fields) (s : Slots), extT fs fs' = true → wtFields fs s = true →
    wtFields fs' (embedT fs fs' s) = true
  | .nil, fs', s, h, _ => by
      simp only [extT] at h
      simp only [embedT]
      exact wtFields_none fs' h
  | .cons _ _ _, .nil, _, h, _ => by simp [extT] at h
  | .cons f t r, .cons f' t' r', s, h, hw => by
      simp only [extT] at h
      by_cases hff : (f == f') = true
      · simp only [hff, if_true, Bool.and_eq_true] at h
        have hf : f = f' := by simpa using hff
        subst hf
        cases s with
        | nil => simp [wtFields] at hw
        | cons o s' =>
          simp only [wtFields, Bool.and_eq_true] at hw
          simp only [embedT, hff, if_true, List.head?_cons, Option.join_some, List.tail_cons, wtFields, Bool.and_eq_true]
          refine ⟨?_, extT_wt r r' s' h.2 hw.2⟩
          cases o with
          | none => simpa using hw.1
          | some v =>
            simp only [Option.map_some, Bool.and_eq_true] at hw ⊢
            exact ⟨⟨hw.1.1.1, ext_wt t t' v h.1 hw.1.1.2⟩, by rw [modeOk_embed]; exact hw.1.2⟩
      · simp only [hff, Bool.false_eq_true, if_false, Bool.and_eq_true] at h
        simp only [embedT, hff, Bool.false_eq_true, if_false, wtFields, Bool.and_eq_true]
        exact ⟨by simpa using noneOk_of_optionalSkip f' h.1, extT_wt (.cons f t r) r' s h.2 hw⟩
end
