/-
  Interpreter for the dispatchers `ctap2::Authenticator::call_ctap2` / `ctap1::Authenticator::
  call_ctap1` over their *generated* arm tables.  An authenticator is an arbitrary behaviour over an
  arbitrary state type: the theorems quantify over all of them.
-/

/-- an arm: request variant, the trait methods it invokes in order (and whether each receives the
    request payload), the response variant it names, and whether handler errors propagate (`?`) -/
abbrev Arm := String × List (String × Bool) × List String × Bool

/-- any authenticator: a handler is a state transition that may report an error code -/
structure Behaviour (σ : Type) where
  run : String → Bool → σ → σ × Option Nat

/-- run the calls of an arm in order; stop at the first propagated error -/
def runCalls {σ : Type} (b : Behaviour σ) (prop : Bool) :
    List (String × Bool) → σ → List (String × Bool) → σ × List (String × Bool) × Option Nat
  | [], s, log => (s, log, none)
  | (m, p) :: rest, s, log =>
    let (s', e) := b.run m p s
    match e with
    | some err => if prop then (s', log ++ [(m, p)], some err) else runCalls b prop rest s' (log ++ [(m, p)])
    | none => runCalls b prop rest s' (log ++ [(m, p)])

/-- result: new state, call log, and either the error or the response variant -/
def dispatch {σ : Type} (arms : List Arm) (b : Behaviour σ) (variant : String) (s : σ) :
    Option (σ × List (String × Bool) × Except Nat String) :=
  match arms.lookup variant with
  | none => none
  | some (calls, resps, prop) =>
    let (s', log, e) := runCalls b prop calls s []
    match e with
    | some err => some (s', log, .error err)
    | none => some (s', log, .ok (resps.headD "?"))
