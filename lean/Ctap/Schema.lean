import Ctap.Basic
/-
  The universe of wire types (`Ty`/`Fields`), generic values (`Val`) and field metadata.
  A schema value of type `Ty` is *data*: `/verif/tools/gen.py` regenerates one per wire type
  and feature configuration from `/repo`'s current source on every run (`Gen/*.lean`), and
  `Spec/Schemas.lean` holds the hand-written ones transcribed from the CTAP specification.
-/

/-- widths of the unsigned readers of cbor-smol (`usize` is read as `u64`) -/
inductive IntW | u8 | u32 | u64
  deriving DecidableEq, Repr

def IntW.maxAi : IntW → Nat
  | .u8 => 24 | .u32 => 26 | .u64 => 27

def IntW.bound : IntW → Nat
  | .u8 => 256 | .u32 => 4294967296 | .u64 => 18446744073709551616

/-- the four COSE public-key kinds `cosey` 0.3.2 can emit -/
inductive CoseKind | p256 | ecdh | ed25519 | totp
  deriving DecidableEq, Repr

/-- Leaf wire types: everything that is not a container of other schema types. -/
inductive Leaf
  | uint (w : IntW)
  | i32
  | bool
  | unit                                   -- `()`, written / read as `null`
  | bytes (cap : Option Nat)               -- `Bytes<N>` (some N) / `&serde_bytes::Bytes` (none)
  | byteArray (n : Nat)                    -- `ByteArray<N>` / `&ByteArray<N>`
  | str (cap : Option Nat)                 -- `String<N>` (some N) / `&str` (none)
  | icon                                   -- `webauthn::Icon`: parses a text, stores nothing
  | enumStr (ser : List (List Byte)) (de : List (List Byte × Nat))
                                           -- `into = "&str"` table (by variant) / `try_from` arms in order
  | enumRepr (discs : List Nat)            -- `serde_repr` with `repr(u8)`: discriminant by variant
  | coseEcdh                               -- `cosey::EcdhEsHkdf256PublicKey`
  | cosePub                                -- `cosey::PublicKey` (serialise only)
  | attFmtPref (de : List (List Byte × Nat)) (cap : Nat)
                                           -- `AttestationFormatsPreference` (deserialise only)
  deriving DecidableEq, Repr

/-- how a struct field's value is read (serde `deserialize_with` / `Option`) -/
inductive Mode
  | plain                                  -- the field type's own reader
  | nullable                               -- `Option<T>` through `deserialize_option`: `null` ⇒ `None`
  | trunc (cap win : Nat)                  -- `deserialize_from_str_and_truncate`
  | skipLong (cap : Nat)                   -- `deserialize_from_str_and_skip_if_too_long`
  deriving DecidableEq, Repr

/-- how a struct field is written -/
inductive SerMode
  | always                                 -- no `skip_serializing_if`: an unset `Option` is written as `null`
  | skipNone                               -- `skip_serializing_if = "Option::is_none"`
  | never                                  -- `skip_serializing`
  deriving DecidableEq, Repr

structure FieldInfo where
  key : List Byte                          -- text key (`rename` / `rename_all` applied); unused for indexed structs
  aliases : List (List Byte)
  required : Bool                          -- absent on the wire ⇒ `missing_field`
  mode : Mode
  ser : SerMode
  deriving DecidableEq, Repr

mutual
inductive Ty
  | leaf (l : Leaf)
  | vec (cap : Nat) (t : Ty)                                  -- `heapless::Vec<T, N>`
  | filtered (cap : Nat) (known : List Int) (deLit serLit : List Byte) (elem : Ty)
                                                              -- `FilteredPublicKeyCredentialParameters`
  | indexed (off : Nat) (fs : Fields)                         -- serde-indexed struct
  | text (fs : Fields)                                        -- serde_derive struct (text keys)
  | untagged (alts : Fields)                                  -- `#[serde(untagged)]` enum (serialise only)
inductive Fields
  | nil
  | cons (f : FieldInfo) (t : Ty) (rest : Fields)
end

deriving instance DecidableEq for Ty, Fields

def Fields.length : Fields → Nat
  | .nil => 0
  | .cons _ _ rest => rest.length + 1

def Fields.nth : Fields → Nat → Option (FieldInfo × Ty)
  | .nil, _ => none
  | .cons f t _, 0 => some (f, t)
  | .cons _ _ rest, i+1 => rest.nth i

/-- Generic values.  `record` slots are positional (declaration order); an unset `Option`
    member is `none`.  Enumerations are `nat variantIndex`. -/
inductive Val
  | nat (n : Nat)
  | int (i : Int)
  | bool (b : Bool)
  | unit
  | bytes (b : List Byte)
  | text (b : List Byte)
  | list (vs : List Val)
  | record (slots : List (Option Val))
  | variant (i : Nat) (v : Val)

abbrev Slots := List (Option Val)

/-- decoder-side slot state: `none` = key not seen yet; `some v` = seen, with content `v`
    (`some none` after an explicit `null` / a dropped icon) -/
abbrev DSlots := List (Option (Option Val))

/-- child of a container type by position: element of a vector, member of a struct / union -/
def Ty.child : Ty → Nat → Option Ty
  | .vec _ t, 0 => some t
  | .filtered _ _ _ _ e, 0 => some e
  | .indexed _ fs, i => (fs.nth i).map (·.2)
  | .text fs, i => (fs.nth i).map (·.2)
  | .untagged fs, i => (fs.nth i).map (·.2)
  | _, _ => none

/-- follow a path of child positions -/
def walkTy : Ty → List Nat → Option Ty
  | t, [] => some t
  | t, i :: rest => match Ty.child t i with | some c => walkTy c rest | none => none
