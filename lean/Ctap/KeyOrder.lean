import Ctap.Canon
import Ctap.HeadThm
/-
  G-ORDER: the abstract key order `keyLt` used by G-CANON *is* the CTAP2 canonical order of the
  encoded keys (CTAP 2.1 §8 "Message Encoding": lower major type first; then the shorter
  encoding; then bytewise), for every pair of integer / byte-string / text keys in shortest form.
-/

/-- CTAP2 canonical order on encoded map keys -/
def ctapLt (a b : List Byte) : Bool :=
  match a, b with
  | x :: _, y :: _ =>
    if x.toNat / 32 ≠ y.toNat / 32 then decide (x.toNat / 32 < y.toNat / 32)
    else decide (a.length < b.length) || (a.length == b.length && lexLt a b)
  | _, _ => false

/-- length of a shortest-form head -/
def headLen (n : Nat) : Nat :=
  if n < 24 then 1 else if n < 256 then 2 else if n < 65536 then 3 else if n < 4294967296 then 5 else 9

theorem encHead_length (m n : Nat) : (encHead m n).length = headLen n := by
  unfold encHead headLen
  simp only []
  split
  · rfl
  · split
    · simp [be_length]
    · split
      · simp [be_length]
      · split <;> simp [be_length]

theorem headLen_mono {a b : Nat} (h : a ≤ b) : headLen a ≤ headLen b := by
  unfold headLen
  repeat' split
  all_goals omega

/-- big-endian of equal width: bytewise order is numeric order -/
theorem lexLt_be : ∀ (k a b : Nat), a < 256 ^ k → b < 256 ^ k → lexLt (be k a) (be k b) = decide (a < b)
  | 0, a, b, ha, hb => by
    simp at ha hb; subst ha; subst hb; simp [be, lexLt]
  | k+1, a, b, ha, hb => by
    have hp : 0 < 256 ^ k := Nat.pow_pos (by decide)
    have hqa : a / 256 ^ k < 256 := by
      rw [Nat.div_lt_iff_lt_mul hp]; rw [Nat.pow_succ] at ha; rw [Nat.mul_comm]; exact ha
    have hqb : b / 256 ^ k < 256 := by
      rw [Nat.div_lt_iff_lt_mul hp]; rw [Nat.pow_succ] at hb; rw [Nat.mul_comm]; exact hb
    have ih := lexLt_be k (a % 256 ^ k) (b % 256 ^ k) (Nat.mod_lt _ hp) (Nat.mod_lt _ hp)
    simp only [be, lexLt, ih]
    have ta : (UInt8.ofNat (a / 256 ^ k)).toNat = a / 256 ^ k := by
      rw [UInt8.toNat_ofNat']; exact Nat.mod_eq_of_lt hqa
    have tb : (UInt8.ofNat (b / 256 ^ k)).toNat = b / 256 ^ k := by
      rw [UInt8.toNat_ofNat']; exact Nat.mod_eq_of_lt hqb
    rw [ta, tb]
    have hda := Nat.div_add_mod a (256 ^ k)
    have hdb := Nat.div_add_mod b (256 ^ k)
    have hma := Nat.mod_lt a hp
    have hmb := Nat.mod_lt b hp
    by_cases hlt : a / 256 ^ k < b / 256 ^ k
    · have : a < b := by
        have : 256 ^ k * (a / 256 ^ k + 1) ≤ 256 ^ k * (b / 256 ^ k) := Nat.mul_le_mul_left _ hlt
        rw [Nat.mul_add, Nat.mul_one] at this
        omega
      simp [hlt, this]
    · by_cases heq : a / 256 ^ k = b / 256 ^ k
      · have hbeq : (UInt8.ofNat (a / 256 ^ k) == UInt8.ofNat (b / 256 ^ k)) = true := by rw [heq]; simp
        simp only [hlt, decide_false, Bool.false_or, hbeq, Bool.true_and]
        rw [heq] at hda
        congr 1
        apply propext
        constructor <;> intro h <;> omega
      · have hgt : b / 256 ^ k < a / 256 ^ k := by omega
        have : ¬ a < b := by
          have : 256 ^ k * (b / 256 ^ k + 1) ≤ 256 ^ k * (a / 256 ^ k) := Nat.mul_le_mul_left _ hgt
          rw [Nat.mul_add, Nat.mul_one] at this
          omega
        have hne : (UInt8.ofNat (a / 256 ^ k) == UInt8.ofNat (b / 256 ^ k)) = false := by
          rw [beq_eq_false_iff_ne]
          intro hc
          have := congrArg UInt8.toNat hc
          rw [ta, tb] at this
          exact heq this
        simp [hlt, hne, this]

def aiOf (n : Nat) : Nat :=
  if n < 24 then n else if n < 256 then 24 else if n < 65536 then 25 else if n < 4294967296 then 26 else 27
def wdOf (n : Nat) : Nat :=
  if n < 24 then 0 else if n < 256 then 1 else if n < 65536 then 2 else if n < 4294967296 then 4 else 8

theorem encHead_eq (m n : Nat) : encHead m n = UInt8.ofNat (m * 32 + aiOf n) :: be (wdOf n) n := by
  unfold encHead aiOf wdOf
  simp only []
  split
  · simp [be]
  · split
    · rfl
    · split
      · rfl
      · split <;> rfl

theorem wdOf_mono {a b : Nat} (h : a ≤ b) : wdOf a ≤ wdOf b := by
  unfold wdOf; repeat' split
  all_goals omega

theorem lt_pow_wd (n : Nat) (h : n < 18446744073709551616) (h24 : ¬ n < 24) : n < 256 ^ wdOf n := by
  unfold wdOf
  simp only [h24, if_false]
  split
  · omega
  · split
    · omega
    · split
      · omega
      · omega

theorem aiOf_lt (n : Nat) : aiOf n < 32 := by
  unfold aiOf; repeat' split
  all_goals omega

theorem aiOf_eq_of_wd {a b : Nat} (h : wdOf a = wdOf b) (ha : ¬ a < 24) : aiOf a = aiOf b := by
  unfold wdOf at h; unfold aiOf
  repeat' split at h
  all_goals (first | omega | (simp_all; done) | (repeat' split) <;> omega)

/-- **shortest-form heads of one major type sort like their arguments** -/
theorem ctapLt_encHead (m a b : Nat) (hm : m < 8) (ha : a < 18446744073709551616) (hb : b < 18446744073709551616) :
    ctapLt (encHead m a) (encHead m b) = decide (a < b) := by
  rw [encHead_eq m a, encHead_eq m b]
  have hia := aiOf_lt a
  have hib := aiOf_lt b
  have ta : (UInt8.ofNat (m * 32 + aiOf a)).toNat = m * 32 + aiOf a := by
    rw [UInt8.toNat_ofNat']; exact Nat.mod_eq_of_lt (by omega)
  have tb : (UInt8.ofNat (m * 32 + aiOf b)).toNat = m * 32 + aiOf b := by
    rw [UInt8.toNat_ofNat']; exact Nat.mod_eq_of_lt (by omega)
  have hma : (m * 32 + aiOf a) / 32 = m := by omega
  have hmb : (m * 32 + aiOf b) / 32 = m := by omega
  simp only [ctapLt, ta, tb, hma, hmb, ne_eq, not_true_eq_false, if_false, List.length_cons, be_length, lexLt]
  by_cases hw : wdOf a < wdOf b
  · have : a < b := by
      apply Nat.lt_of_not_le; intro hle
      have := wdOf_mono hle; omega
    simp [hw, this]
  · by_cases hw2 : wdOf b < wdOf a
    · have : ¬ a < b := by
        intro hlt
        have := wdOf_mono (Nat.le_of_lt hlt); omega
      have hne : (wdOf a + 1 == wdOf b + 1) = false := by
        rw [beq_eq_false_iff_ne]; omega
      have hnl : ¬ wdOf a + 1 < wdOf b + 1 := by omega
      simp [hnl, hne, this]
    · have hweq : wdOf a = wdOf b := by omega
      have hnl : ¬ wdOf a + 1 < wdOf b + 1 := by omega
      have heq : (wdOf a + 1 == wdOf b + 1) = true := by rw [hweq]; simp
      simp only [hnl, decide_false, Bool.false_or, heq, Bool.true_and]
      by_cases h24 : a < 24
      · -- both single-byte heads
        have hb24 : b < 24 := by
          apply Nat.lt_of_not_le; intro hle
          unfold wdOf at hweq
          simp only [h24, if_true] at hweq
          have : ¬ b < 24 := by omega
          simp only [this, if_false] at hweq
          repeat' split at hweq
          all_goals omega
        have ea : aiOf a = a := by unfold aiOf; simp [h24]
        have eb : aiOf b = b := by unfold aiOf; simp [hb24]
        have wa : wdOf a = 0 := by unfold wdOf; simp [h24]
        have wb : wdOf b = 0 := by unfold wdOf; simp [hb24]
        rw [ea, eb, wa, wb]
        simp only [be, lexLt, Bool.and_false, Bool.or_false]
        congr 1
        apply propext
        constructor <;> intro h <;> omega
      · have hb24 : ¬ b < 24 := by
          intro hlt
          unfold wdOf at hweq
          simp only [h24, if_false, hlt, if_true] at hweq
          repeat' split at hweq
          all_goals omega
        have hai := aiOf_eq_of_wd hweq h24
        rw [hai]
        have hnlt : ¬ m * 32 + aiOf b < m * 32 + aiOf b := by omega
        simp only [hnlt, decide_false, Bool.false_or, beq_self_eq_true, Bool.true_and]
        rw [hweq]
        exact lexLt_be (wdOf b) a b (by rw [← hweq]; exact lt_pow_wd a ha h24) (lt_pow_wd b hb hb24)

theorem lexLt_prefix : ∀ (p a b : List Byte), lexLt (p ++ a) (p ++ b) = lexLt a b
  | [], _, _ => rfl
  | x :: p, a, b => by
    simp only [List.cons_append, lexLt, Nat.lt_irrefl, decide_false, Bool.false_or, beq_self_eq_true, Bool.true_and]
    exact lexLt_prefix p a b

theorem head_major (m n : Nat) (hm : m < 8) (rest : List Byte) :
    ∃ x tl, encHead m n ++ rest = x :: tl ∧ x.toNat / 32 = m := by
  rw [encHead_eq]
  refine ⟨_, _, rfl, ?_⟩
  have := aiOf_lt n
  rw [UInt8.toNat_ofNat', Nat.mod_eq_of_lt (by omega)]
  omega

/-- different major types: the lower major type sorts first, whatever follows -/
theorem ctapLt_major (m m' n n' : Nat) (hm : m < 8) (hm' : m' < 8) (hne : m ≠ m') (r r' : List Byte) :
    ctapLt (encHead m n ++ r) (encHead m' n' ++ r') = decide (m < m') := by
  obtain ⟨x, tl, h1, h2⟩ := head_major m n hm r
  obtain ⟨y, tl', h3, h4⟩ := head_major m' n' hm' r'
  rw [h1, h3]
  simp only [ctapLt, h2, h4, ne_eq, hne, not_false_eq_true, if_true]

/-- byte / text string keys of one major type: (length, bytewise) on the payload is
    (length, bytewise) on the encoding -/
theorem ctapLt_payload (m : Nat) (hm : m < 8) (a b : List Byte) :
    ctapLt (encHead m a.length ++ a) (encHead m b.length ++ b) =
      (decide (a.length < b.length) || (a.length == b.length && lexLt a b)) := by
  obtain ⟨x, tl, h1, h2⟩ := head_major m a.length hm a
  obtain ⟨y, tl', h3, h4⟩ := head_major m b.length hm b
  have la : (encHead m a.length ++ a).length = headLen a.length + a.length := by
    rw [List.length_append, encHead_length]
  have lb : (encHead m b.length ++ b).length = headLen b.length + b.length := by
    rw [List.length_append, encHead_length]
  have hc : ctapLt (encHead m a.length ++ a) (encHead m b.length ++ b) =
      (decide ((encHead m a.length ++ a).length < (encHead m b.length ++ b).length) ||
        ((encHead m a.length ++ a).length == (encHead m b.length ++ b).length &&
          lexLt (encHead m a.length ++ a) (encHead m b.length ++ b))) := by
    rw [h1, h3]
    simp only [ctapLt, h2, h4, ne_eq, not_true_eq_false, if_false]
  rw [hc, la, lb]
  by_cases hlt : a.length < b.length
  · have := headLen_mono (Nat.le_of_lt hlt)
    have h' : headLen a.length + a.length < headLen b.length + b.length := by omega
    simp [hlt, h']
  · by_cases hgt : b.length < a.length
    · have := headLen_mono (Nat.le_of_lt hgt)
      have h1' : ¬ headLen a.length + a.length < headLen b.length + b.length := by omega
      have h2' : (headLen a.length + a.length == headLen b.length + b.length) = false := by
        rw [beq_eq_false_iff_ne]; omega
      have h3' : (a.length == b.length) = false := by rw [beq_eq_false_iff_ne]; omega
      simp [hlt, h1', h2', h3']
    · have heq : a.length = b.length := by omega
      rw [heq]
      simp only [Nat.lt_irrefl, decide_false, Bool.false_or, beq_self_eq_true, Bool.true_and]
      exact lexLt_prefix _ a b

/-- the items that occur as map keys in CTAP2 messages, with representable arguments -/
def isKey : CItem → Bool
  | .uint n => decide (n < 18446744073709551616)
  | .nint n => decide (n < 18446744073709551616)
  | .bytes _ => true
  | .text _ => true
  | _ => false

theorem ctapLt_major_l (m m' n n' : Nat) (hm : m < 8) (hm' : m' < 8) (hne : m ≠ m') (r' : List Byte) :
    ctapLt (encHead m n) (encHead m' n' ++ r') = decide (m < m') := by
  have h := ctapLt_major m m' n n' hm hm' hne [] r'
  simpa using h

theorem ctapLt_major_r (m m' n n' : Nat) (hm : m < 8) (hm' : m' < 8) (hne : m ≠ m') (r : List Byte) :
    ctapLt (encHead m n ++ r) (encHead m' n') = decide (m < m') := by
  have h := ctapLt_major m m' n n' hm hm' hne r []
  simpa using h

theorem ctapLt_major_lr (m m' n n' : Nat) (hm : m < 8) (hm' : m' < 8) (hne : m ≠ m') :
    ctapLt (encHead m n) (encHead m' n') = decide (m < m') := by
  have h := ctapLt_major m m' n n' hm hm' hne [] []
  simpa using h

/-- **G-ORDER.** `keyLt` is the CTAP2 canonical order of the encoded keys. -/
theorem keyLt_wire (k k' : CItem) (hk : isKey k = true) (hk' : isKey k' = true) :
    keyLt k k' = ctapLt (encC k) (encC k') := by
  cases k <;> cases k' <;> simp only [isKey, decide_eq_true_eq] at hk hk' <;>
    (try (simp at hk; done)) <;> (try (simp at hk'; done)) <;> simp only [keyLt, encC]
  case uint.uint a b => exact (ctapLt_encHead 0 a b (by decide) hk hk').symm
  case uint.nint a b => rw [ctapLt_major_lr 0 1 a b (by decide) (by decide) (by decide)]; rfl
  case uint.bytes a b => rw [ctapLt_major_l 0 2 a b.length (by decide) (by decide) (by decide) b]; rfl
  case uint.text a b => rw [ctapLt_major_l 0 3 a b.length (by decide) (by decide) (by decide) b]; rfl
  case nint.uint a b => rw [ctapLt_major_lr 1 0 a b (by decide) (by decide) (by decide)]; rfl
  case nint.nint a b => exact (ctapLt_encHead 1 a b (by decide) hk hk').symm
  case nint.bytes a b => rw [ctapLt_major_l 1 2 a b.length (by decide) (by decide) (by decide) b]; rfl
  case nint.text a b => rw [ctapLt_major_l 1 3 a b.length (by decide) (by decide) (by decide) b]; rfl
  case bytes.uint a b => rw [ctapLt_major_r 2 0 a.length b (by decide) (by decide) (by decide) a]; rfl
  case bytes.nint a b => rw [ctapLt_major_r 2 1 a.length b (by decide) (by decide) (by decide) a]; rfl
  case bytes.bytes a b => exact (ctapLt_payload 2 (by decide) a b).symm
  case bytes.text a b => rw [ctapLt_major 2 3 a.length b.length (by decide) (by decide) (by decide) a b]; rfl
  case text.uint a b => rw [ctapLt_major_r 3 0 a.length b (by decide) (by decide) (by decide) a]; rfl
  case text.nint a b => rw [ctapLt_major_r 3 1 a.length b (by decide) (by decide) (by decide) a]; rfl
  case text.bytes a b => rw [ctapLt_major 3 2 a.length b.length (by decide) (by decide) (by decide) a b]; rfl
  case text.text a b => exact (ctapLt_payload 3 (by decide) a b).symm

/-! ### canonical maps are sorted in the order of their key *bytes* -/

def keyKind : CItem → Bool
  | .uint _ => true
  | .nint _ => true
  | .bytes _ => true
  | .text _ => true
  | _ => false

def keysKind : CPairs → Bool
  | .nil => true
  | .cons k _ rest => keyKind k && keysKind rest

def allWireGt (k : CItem) : CPairs → Bool
  | .nil => true
  | .cons k' _ rest => ctapLt (encC k) (encC k') && allWireGt k rest

/-- every key's encoding precedes every later key's encoding in CTAP2 canonical order -/
def wireSorted : CPairs → Bool
  | .nil => true
  | .cons k _ rest => allWireGt k rest && wireSorted rest

theorem isKey_of_canon (k : CItem) (hc : canon k = true) (hk : keyKind k = true) : isKey k = true := by
  cases k <;> simp_all [canon, keyKind, isKey]

theorem canonP_keys_canon : ∀ (kvs : CPairs), canonP kvs = true → ∀ (k : CItem), allKeysGt k kvs = true →
    isKey k = true → keysKind kvs = true → allWireGt k kvs = true
  | .nil, _, _, _, _, _ => rfl
  | .cons k' v rest, hc, k, hg, hk, hkk => by
    simp only [canonP, Bool.and_eq_true] at hc
    simp only [allKeysGt, Bool.and_eq_true] at hg
    simp only [keysKind, Bool.and_eq_true] at hkk
    simp only [allWireGt, Bool.and_eq_true]
    refine ⟨?_, canonP_keys_canon rest hc.2 k hg.2 hk hkk.2⟩
    rw [← keyLt_wire k k' hk (isKey_of_canon k' hc.1.1.1 hkk.1)]
    exact hg.1

/-- **wire order.** In a canonical map whose keys are integers / strings, the *encoded* keys are
    strictly increasing in the CTAP2 canonical order (major type, then length, then bytewise). -/
theorem canon_wireSorted : ∀ (kvs : CPairs), canonP kvs = true → keysKind kvs = true → wireSorted kvs = true
  | .nil, _, _ => rfl
  | .cons k v rest, hc, hkk => by
    simp only [keysKind, Bool.and_eq_true] at hkk
    have hc' := hc
    simp only [canonP, Bool.and_eq_true] at hc'
    simp only [wireSorted, Bool.and_eq_true]
    exact ⟨canonP_keys_canon rest hc'.2 k hc'.1.2 (isKey_of_canon k hc'.1.1.1 hkk.1) hkk.2,
           canon_wireSorted rest hc'.2 hkk.2⟩

/-! ### at every depth -/

mutual
/-- every map at any depth has integer / string keys only -/
def deepKeys : CItem → Bool
  | .arr xs => deepKeysL xs
  | .map kvs => keysKind kvs && deepKeysP kvs
  | _ => true
def deepKeysL : CItems → Bool
  | .nil => true
  | .cons x xs => deepKeys x && deepKeysL xs
def deepKeysP : CPairs → Bool
  | .nil => true
  | .cons _ v rest => deepKeys v && deepKeysP rest
end

mutual
/-- at every depth the encoded keys of every map are strictly increasing in CTAP2 order -/
def wireCanon : CItem → Bool
  | .arr xs => wireCanonL xs
  | .map kvs => wireSorted kvs && wireCanonP kvs
  | _ => true
def wireCanonL : CItems → Bool
  | .nil => true
  | .cons x xs => wireCanon x && wireCanonL xs
def wireCanonP : CPairs → Bool
  | .nil => true
  | .cons _ v rest => wireCanon v && wireCanonP rest
end

mutual
theorem canon_wireCanon : ∀ (i : CItem), canon i = true → deepKeys i = true → wireCanon i = true
  | .uint _, _, _ => rfl
  | .nint _, _, _ => rfl
  | .bytes _, _, _ => rfl
  | .text _, _, _ => rfl
  | .bool _, _, _ => rfl
  | .null, _, _ => rfl
  | .arr xs, hc, hd => by
    simp only [canon, Bool.and_eq_true] at hc
    simp only [deepKeys] at hd
    simp only [wireCanon]
    exact canonL_wire xs hc.2 hd
  | .map kvs, hc, hd => by
    simp only [canon, Bool.and_eq_true] at hc
    simp only [deepKeys, Bool.and_eq_true] at hd
    simp only [wireCanon, Bool.and_eq_true]
    exact ⟨canon_wireSorted kvs hc.2 hd.1, canonP_wire kvs hc.2 hd.2⟩
theorem canonL_wire : ∀ (xs : CItems), canonL xs = true → deepKeysL xs = true → wireCanonL xs = true
  | .nil, _, _ => rfl
  | .cons x xs, hc, hd => by
    simp only [canonL, Bool.and_eq_true] at hc
    simp only [deepKeysL, Bool.and_eq_true] at hd
    simp only [wireCanonL, Bool.and_eq_true]
    exact ⟨canon_wireCanon x hc.1 hd.1, canonL_wire xs hc.2 hd.2⟩
theorem canonP_wire : ∀ (kvs : CPairs), canonP kvs = true → deepKeysP kvs = true → wireCanonP kvs = true
  | .nil, _, _ => rfl
  | .cons k v rest, hc, hd => by
    simp only [canonP, Bool.and_eq_true] at hc
    simp only [deepKeysP, Bool.and_eq_true] at hd
    simp only [wireCanonP, Bool.and_eq_true]
    exact ⟨canon_wireCanon v hc.1.1.2 hd.1, canonP_wire rest hc.2 hd.2⟩
end

/-! the items the serializer model denotes have integer / text keys only -/

theorem deepKeys_cInt (i : Int) : deepKeys (cInt i) = true := by unfold cInt; split <;> rfl

theorem deepKeys_cCose (k : CoseKind) (x y : Option (List Byte)) : deepKeys (cCose k x y) = true := by
  cases k <;> cases x <;> cases y <;>
    simp [cCose, CoseKind.consts, deepKeys, deepKeysP, keysKind, keyKind, cInt]

theorem deepKeys_toCLeaf (l : Leaf) (v : Val) : deepKeys (toCLeaf l v) = true := by
  unfold toCLeaf
  split <;> first | rfl | exact deepKeys_cInt _ | exact deepKeys_cCose _ _ _

theorem deepKeysL_ofList : ∀ (xs : List CItem), (∀ x ∈ xs, deepKeys x = true) → deepKeysL (CItems.ofList xs) = true
  | [], _ => rfl
  | x :: xs, h => by
    simp only [CItems.ofList, deepKeysL, Bool.and_eq_true]
    exact ⟨h x (by simp), deepKeysL_ofList xs (fun y hy => h y (by simp [hy]))⟩

mutual
theorem deepKeys_toC : ∀ (t : Ty) (v : Val), deepKeys (toC t v) = true
  | .leaf l, v => by simp only [toC]; exact deepKeys_toCLeaf l v
  | .vec _ t, v => by
    cases v <;> simp only [toC, deepKeys]
    rename_i vs
    apply deepKeysL_ofList
    intro x hx
    obtain ⟨w, _, rfl⟩ := List.mem_map.mp hx
    exact deepKeys_toC t w
  | .filtered _ _ _ lit elem, v => by
    cases v <;> simp only [toC, deepKeys]
    rename_i vs
    apply deepKeysL_ofList
    intro x hx
    obtain ⟨w, _, rfl⟩ := List.mem_map.mp hx
    exact deepKeys_toC elem _
  | .indexed off fs, v => by
    cases v <;> simp only [toC, deepKeys]
    rename_i s
    have := deepKeys_fields (cKeyIdx off) (fun _ _ => rfl) fs 0 s
    simp only [Bool.and_eq_true]; exact this
  | .text fs, v => by
    cases v <;> simp only [toC, deepKeys]
    rename_i s
    have := deepKeys_fields cKeyTxt (fun _ _ => rfl) fs 0 s
    simp only [Bool.and_eq_true]; exact this
  | .untagged alts, v => by
    cases v <;> simp only [toC, deepKeys]
    rename_i i w
    exact deepKeys_alt alts i w
theorem deepKeys_fields (key : Nat → FieldInfo → CItem) (hk : ∀ i f, keyKind (key i f) = true) :
    ∀ (fs : Fields) (i : Nat) (s : Slots),
      keysKind (toCFields key fs i s) = true ∧ deepKeysP (toCFields key fs i s) = true
  | .nil, _, _ => ⟨rfl, rfl⟩
  | .cons f t rest, i, s => by
    have ih := deepKeys_fields key hk rest (i+1) s.tail
    simp only [toCFields]
    split
    · simp only [keysKind, deepKeysP, Bool.and_eq_true, hk, true_and]
      refine ⟨ih.1, ?_, ih.2⟩
      cases s.head?.join with
      | none => rfl
      | some v => exact deepKeys_toC t v
    · exact ih
theorem deepKeys_alt : ∀ (alts : Fields) (i : Nat) (v : Val), deepKeys (toCAlt alts i v) = true
  | .nil, _, _ => rfl
  | .cons _ t _, 0, v => by simp only [toCAlt]; exact deepKeys_toC t v
  | .cons _ _ rest, i+1, v => by simp only [toCAlt]; exact deepKeys_alt rest i v
end
