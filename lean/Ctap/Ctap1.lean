import Ctap.Basic
import Ctap.Utf8
import Ctap.AuthData
/-
  Hand model of src/ctap1.rs: `impl TryFrom<CommandView> for Request`, `Response::serialize`,
  `register::Response::new`, plus `iso7816` 0.1.4 `parse_lengths` / `CommandView::try_from(&[u8])`
  (dependency: modelled, not verified).
-/

/-- ISO 7816 status words used by the U2F layer (iso7816::Status discriminants) -/
inductive U2fErr
  | classNotSupported               -- 0x6E00
  | incorrectDataParameter          -- 0x6A80
  | instructionNotSupportedOrInvalid -- 0x6D00
  deriving DecidableEq, Repr

def U2fErr.sw : U2fErr → Nat
  | .classNotSupported => 0x6E00
  | .incorrectDataParameter => 0x6A80
  | .instructionNotSupportedOrInvalid => 0x6D00

inductive U2fReq
  | register (challenge app : List Byte)
  | authenticate (control : Nat) (challenge app keyHandle : List Byte)   -- control = variant index
  | version
  deriving DecidableEq, Repr

/-- the eleven instruction bytes `iso7816::Instruction::from(u8)` names; every other byte is
    `Unknown(b)` -/
def namedInstructions : List Nat := [0x20, 0x24, 0x2c, 0x47, 0x87, 0xa4, 0xc0, 0xcb, 0xdb, 0xb0, 0xd0]

/-- `<[u8; 32]>::try_from(slice).unwrap()` -/
def toArray32 (s : List Byte) : Outcome (List Byte) :=
  if s.length = 32 then .ret s else .panic

/-- `impl TryFrom<CommandView<'a>> for Request<'a>`, over the generated control-byte table.
    The three `try_into().unwrap()` sites and the slice indexings are explicit outcomes. -/
def ctap1Parse (controlTbl : List (Nat × Nat × Option Nat)) (cla ins p1 : Nat) (data : List Byte) :
    Outcome (Except U2fErr U2fReq) :=
  let ins' := if namedInstructions.contains ins then 0 else ins   -- `Unknown(ins) => ins, _ => 0`
  if cla ≠ 0 then .ret (.error .classNotSupported)
  else if ins' = 3 then .ret (.ok .version)
  else if ins' = 1 then
    if data.length ≠ 64 then .ret (.error .incorrectDataParameter)
    else
      match toArray32 (data.take 32), toArray32 (data.drop 32) with
      | .ret c, .ret a => .ret (.ok (.register c a))
      | _, _ => .panic
  else if ins' = 2 then
    match (controlTbl.find? (fun (lo, hi, _) => lo ≤ p1 ∧ p1 ≤ hi)).bind (·.2.2) with
    | none => .ret (.error .incorrectDataParameter)
    | some cb =>
      if data.length < 65 then .ret (.error .incorrectDataParameter)
      else
        match data[64]? with
        | none => .panic                                        -- `request[64]`
        | some khl =>
          if data.length ≠ 65 + khl.toNat then .ret (.error .incorrectDataParameter)
          else
            match toArray32 (data.take 32), toArray32 ((data.drop 32).take 32) with
            | .ret c, .ret a => .ret (.ok (.authenticate cb c a (data.drop 65)))
            | _, _ => .panic
  else .ret (.error .instructionNotSupportedOrInvalid)

/-! ### iso7816 framing -/

structure Apdu where
  cla : Nat
  ins : Nat
  p1 : Nat
  p2 : Nat
  data : List Byte
  le : Nat
  deriving DecidableEq, Repr

def replaceZero (v r : Nat) : Nat := if v = 0 then r else v

/-- `parse_lengths(body)`: returns (lc, le, offset) -/
def parseLengths (body : List Byte) : Option (Nat × Nat × Nat) :=
  let l := body.length
  match body with
  | [] => some (0, 0, 0)
  | b1b :: _ =>
    let b1 := b1b.toNat
    if l = 1 then some (0, replaceZero b1 256, 0)
    else if l = 1 + b1 ∧ b1 ≠ 0 then some (b1, 0, 1)
    else if l = 2 + b1 ∧ b1 ≠ 0 then some (b1, replaceZero (body.getD (l - 1) 0).toNat 256, 1)
    else if b1 ≠ 0 then none
    else if l < 3 then none
    else
      let w := (body.getD 1 0).toNat * 256 + (body.getD 2 0).toNat
      if l = 3 then some (0, replaceZero w 65536, 0)
      else if l = 3 + w then some (w, 0, 3)
      else if l = 5 + w then
        some (w, replaceZero ((body.getD (l - 2) 0).toNat * 256 + (body.getD (l - 1) 0).toNat) 65536, 3)
      else none

/-- `CommandView::try_from(&[u8])` -/
def parseApdu (apdu : List Byte) : Option Apdu :=
  match apdu with
  | cla :: ins :: p1 :: p2 :: body =>
    if cla = 0xFF then none
    else match parseLengths body with
      | none => none
      | some (lc, le, off) => some ⟨cla.toNat, ins.toNat, p1.toNat, p2.toNat, (body.drop off).take lc, le⟩
  | _ => none

/-! ### responses -/

inductive U2fResp
  | register (header : Byte) (publicKey keyHandle cert sig : List Byte)
  | authenticate (presence : Byte) (count : Nat) (sig : List Byte)
  | version (v : List Byte)

/-- `Response::serialize(&mut buf)`: a chain of atomic `push` / `extend_from_slice` with early
    return; on failure the buffer keeps what was appended so far.  Returns (buffer, ok). -/
def appendChain (cap : Nat) : List (List Byte) → List Byte → (List Byte × Bool)
  | [], buf => (buf, true)
  | c :: cs, buf =>
    match extendCap cap buf c with
    | none => (buf, false)
    | some buf' => appendChain cap cs buf'

def u2fParts : U2fResp → List (List Byte)
  | .register h pk kh cert sig => [[h], pk, [UInt8.ofNat kh.length], kh, cert, sig]   -- `len() as u8`
  | .authenticate p count sig => [[p], be 4 count, sig]
  | .version v => [v]

def u2fSerialize (cap : Nat) (r : U2fResp) (buf : List Byte) : (List Byte × Bool) :=
  appendChain cap (u2fParts r) buf

/-- `register::Response::new`: 0x04 || x || y pushed into a `Bytes<65>` with `unwrap()` -/
def registerPublicKey (x y : List Byte) : Outcome (List Byte) :=
  match extendCap 65 [] [0x04] with
  | none => .panic
  | some b0 =>
    match extendCap 65 b0 x with
    | none => .panic
    | some b1 =>
      match extendCap 65 b1 y with
      | none => .panic
      | some b2 => .ret b2
