import Ctap.AuthData
import Ctap.Ctap1
/-
  Layout descriptions: the straight-line "append this, then this" bodies of
  `AuthenticatorData::serialize`, `AttestedCredentialData::serialize` and
  `ctap1::Response::serialize`, as the translator reads them off the source statement by
  statement (`Gen.layout*`), with an interpreter.  `Props/C07.lean` / `C09.lean` prove that the
  interpreter on the *specified* layouts is the hand model the property theorems are about, and
  check per run that the layouts read from the source are the specified ones.
-/

/-- members the layouts mention (Rust field names) -/
inductive Fld
  | rp_id_hash | flags | sign_count | attested_credential_data | extensions
  | aaguid | credential_id | credential_public_key
  | header_byte | public_key | key_handle | attestation_certificate | signature
  | user_presence | count | version
  deriving DecidableEq, Repr

inductive LExpr
  | slice (f : Fld)                 -- `extend_from_slice(self.f)` / `(&x.f)`
  | byte (f : Fld)                  -- `push(x.f)` / `push(self.flags.bits())`
  | be (width : Nat) (f : Fld)      -- `extend_from_slice(&x.f.to_be_bytes())`
  | lenBE16 (f : Fld)               -- `u16::try_from(x.f.len()).map_err(..)?` then `.to_be_bytes()`
  | len8 (f : Fld)                  -- `push(x.f.len() as u8)` (wrapping cast)
  deriving DecidableEq, Repr

inductive LStep
  | put (e : LExpr)                 -- one atomic `push` / `extend_from_slice`, `?` on failure
  | optNested (f : Fld)             -- `if let Some(x) = &self.f { x.serialize(&mut buf)?; }`
  | optCbor (f : Fld)               -- `if let Some(x) = self.f.as_ref() { cbor_serialize_to(x, &mut buf)..?; }`
  deriving DecidableEq, Repr

/-- values of the members: byte strings, numbers, and for the two optional parts what they append -/
structure LEnv where
  bytes : Fld → List Byte
  num : Fld → Nat
  nested : Fld → Option (Option (List LStep × (Fld → List Byte)))   -- none = `None`; some none = `Some` that appends nothing
  cbor : Fld → Option (List (List Byte))                              -- chunks written by the CBOR serializer

def evalExpr (bytes : Fld → List Byte) (num : Fld → Nat) : LExpr → Option (List Byte)
  | .slice f => some (bytes f)
  | .byte f => some [UInt8.ofNat (num f)]
  | .be w f => some (be w (num f))
  | .lenBE16 f => if (bytes f).length > 65535 then none else some (be 2 (bytes f).length)
  | .len8 f => some [UInt8.ofNat (bytes f).length]

/-- flat layouts (no optional parts): every step atomic, stop at the first failure.
    Returns the buffer and whether every step succeeded. -/
def runFlat (cap : Nat) (bytes : Fld → List Byte) (num : Fld → Nat) : List LStep → List Byte → (List Byte × Bool)
  | [], buf => (buf, true)
  | .put e :: rest, buf =>
    match evalExpr bytes num e with
    | none => (buf, false)
    | some add =>
      match extendCap cap buf add with
      | none => (buf, false)
      | some buf' => runFlat cap bytes num rest buf'
  | _ :: _, buf => (buf, false)

/-- layouts with the two optional parts of `AuthenticatorData` -/
def runLayout (cap : Nat) (env : LEnv) : List LStep → List Byte → Option (List Byte)
  | [], buf => some buf
  | .put e :: rest, buf =>
    match evalExpr env.bytes env.num e with
    | none => none
    | some add =>
      match extendCap cap buf add with
      | none => none
      | some buf' => runLayout cap env rest buf'
  | .optNested f :: rest, buf =>
    match env.nested f with
    | none => runLayout cap env rest buf
    | some none => runLayout cap env rest buf
    | some (some (sub, subBytes)) =>
      match runFlat cap subBytes env.num sub buf with
      | (_, false) => none
      | (buf', true) => runLayout cap env rest buf'
  | .optCbor f :: rest, buf =>
    match env.cbor f with
    | none => runLayout cap env rest buf
    | some chunks =>
      match writeChunksVec cap chunks buf with
      | none => none
      | some buf' => runLayout cap env rest buf'

/-! ### the specified layouts (WebAuthn §6.1 / §6.5.1, U2F raw message formats) -/
namespace Spec

def layoutAuthData : List LStep :=
  [.put (.slice .rp_id_hash), .put (.byte .flags), .put (.be 4 .sign_count),
   .optNested .attested_credential_data, .optCbor .extensions]

def layoutAttested : List LStep :=
  [.put (.slice .aaguid), .put (.lenBE16 .credential_id), .put (.slice .credential_id),
   .put (.slice .credential_public_key)]

def layoutU2fRegister : List LStep :=
  [.put (.byte .header_byte), .put (.slice .public_key), .put (.len8 .key_handle), .put (.slice .key_handle),
   .put (.slice .attestation_certificate), .put (.slice .signature)]

def layoutU2fAuthenticate : List LStep :=
  [.put (.byte .user_presence), .put (.be 4 .count), .put (.slice .signature)]

def layoutU2fVersion : List LStep := [.put (.slice .version)]

end Spec

/-! ### the interpreter on the specified layouts is the hand model -/

def acdBytes (a : Acd) : Fld → List Byte
  | .aaguid => a.aaguid
  | .credential_id => a.credId
  | .credential_public_key => a.pubKey
  | _ => []

theorem runFlat_attested (cap : Nat) (a : Acd) (num : Fld → Nat) (buf : List Byte) :
    (match runFlat cap (acdBytes a) num Spec.layoutAttested buf with
     | (b, true) => some b
     | (_, false) => none) = acdSerialize cap a buf := by
  unfold acdSerialize
  simp only [Spec.layoutAttested, runFlat, evalExpr, acdBytes]
  cases h1 : extendCap cap buf a.aaguid with
  | none => rfl
  | some b1 =>
    simp only []
    by_cases hl : a.credId.length > 65535
    · simp [hl]
    · simp only [hl, if_false]
      cases h2 : extendCap cap b1 (be 2 a.credId.length) with
      | none => rfl
      | some b2 =>
        simp only []
        cases h3 : extendCap cap b2 a.credId with
        | none => rfl
        | some b3 =>
          simp only []
          cases h4 : extendCap cap b3 a.pubKey with
          | none => rfl
          | some b4 => rfl

/-- environment of one `AuthenticatorData` value -/
def adEnvWith (att : List LStep) (rpIdHash : List Byte) (flags : Byte) (signCount : Nat) (acd : Option (Option Acd))
    (ext : Option (List (List Byte))) : LEnv :=
  { bytes := fun f => match f with | .rp_id_hash => rpIdHash | _ => [],
    num := fun f => match f with | .flags => flags.toNat | .sign_count => signCount | _ => 0,
    nested := fun f => match f with
      | .attested_credential_data => acd.map (fun o => o.map (fun a => (att, acdBytes a)))
      | _ => none,
    cbor := fun f => match f with | .extensions => ext | _ => none }

abbrev adEnv := adEnvWith Spec.layoutAttested

theorem runLayout_tail (cap : Nat) (env : LEnv) (b : List Byte) :
    runLayout cap env [.optCbor .extensions] b =
      (match env.cbor .extensions with | none => some b | some ch => writeChunksVec cap ch b) := by
  simp only [runLayout]
  cases env.cbor .extensions with
  | none => rfl
  | some ch => simp only []; cases writeChunksVec cap ch b <;> rfl

theorem runLayout_authData (cap : Nat) (rp : List Byte) (flags : Byte) (count : Nat) (acd : Option (Option Acd))
    (ext : Option (List (List Byte))) :
    runLayout cap (adEnv rp flags count acd ext) Spec.layoutAuthData [] = authDataSerialize cap rp flags count acd ext := by
  unfold authDataSerialize
  have hb : (adEnv rp flags count acd ext).bytes .rp_id_hash = rp := rfl
  have hf : (adEnv rp flags count acd ext).num .flags = flags.toNat := rfl
  have hc : (adEnv rp flags count acd ext).num .sign_count = count := rfl
  have he : (adEnv rp flags count acd ext).cbor .extensions = ext := rfl
  have hn : (adEnv rp flags count acd ext).nested .attested_credential_data =
      acd.map (fun o => o.map (fun a => (Spec.layoutAttested, acdBytes a))) := rfl
  have hnum : (adEnv rp flags count acd ext).num =
      (fun f => match f with | .flags => flags.toNat | .sign_count => count | _ => 0) := rfl
  generalize adEnv rp flags count acd ext = env at *
  simp only [Spec.layoutAuthData, runLayout, evalExpr, hb, hf, hc, UInt8.ofNat_toNat]
  cases h0 : extendCap cap [] rp with
  | none => rfl
  | some b0 =>
    simp only []
    cases h1 : extendCap cap b0 [flags] with
    | none => rfl
    | some b1 =>
      simp only []
      cases h2 : extendCap cap b1 (be 4 count) with
      | none => rfl
      | some b2 =>
        simp only []
        have tl := fun b => runLayout_tail cap env b
        simp only [runLayout, he] at tl
        cases acd with
        | none =>
          simp only [Option.map_none] at hn
          simp only [hn, he]
          cases ext with
          | none => rfl
          | some ch => simp only []; cases writeChunksVec cap ch b2 <;> rfl
        | some o =>
          cases o with
          | none =>
            simp only [Option.map_some, Option.map_none] at hn
            simp only [hn, he]
            cases ext with
            | none => rfl
            | some ch => simp only []; cases writeChunksVec cap ch b2 <;> rfl
          | some a =>
            simp only [Option.map_some] at hn
            simp only [hn, he]
            have hfl := runFlat_attested cap a env.num b2
            cases hr : runFlat cap (acdBytes a) env.num Spec.layoutAttested b2 with
            | mk bb ok =>
              rw [hr] at hfl
              cases ok with
              | false => simp only [] at hfl ⊢; rw [← hfl]
              | true =>
                simp only [] at hfl ⊢
                rw [← hfl]
                simp only []
                cases ext with
                | none => rfl
                | some ch => simp only []; cases writeChunksVec cap ch bb <;> rfl

def u2fBytes : U2fResp → Fld → List Byte
  | .register _ pk kh cert sig, f =>
    (match f with | .public_key => pk | .key_handle => kh | .attestation_certificate => cert | .signature => sig | _ => [])
  | .authenticate _ _ sig, f => (match f with | .signature => sig | _ => [])
  | .version v, f => (match f with | .version => v | _ => [])

def u2fNum : U2fResp → Fld → Nat
  | .register h _ _ _ _, f => (match f with | .header_byte => h.toNat | _ => 0)
  | .authenticate p c _, f => (match f with | .user_presence => p.toNat | .count => c | _ => 0)
  | .version _, _ => 0

def u2fLayout (reg auth ver : List LStep) : U2fResp → List LStep
  | .register .. => reg
  | .authenticate .. => auth
  | .version _ => ver

theorem runFlat_chain (cap : Nat) (bytes : Fld → List Byte) (num : Fld → Nat) :
    ∀ (es : List LExpr) (parts : List (List Byte)) (buf : List Byte),
      es.map (evalExpr bytes num) = parts.map some →
      runFlat cap bytes num (es.map LStep.put) buf = appendChain cap parts buf
  | [], [], buf, _ => rfl
  | [], _ :: _, _, h => by simp at h
  | _ :: _, [], _, h => by simp at h
  | e :: es, p :: ps, buf, h => by
    simp only [List.map_cons, List.cons.injEq] at h
    simp only [List.map_cons, runFlat, appendChain, h.1]
    cases extendCap cap buf p with
    | none => rfl
    | some b => exact runFlat_chain cap bytes num es ps b h.2

theorem runFlat_u2f (cap : Nat) (r : U2fResp) (buf : List Byte) :
    runFlat cap (u2fBytes r) (u2fNum r)
      (u2fLayout Spec.layoutU2fRegister Spec.layoutU2fAuthenticate Spec.layoutU2fVersion r) buf =
    u2fSerialize cap r buf := by
  unfold u2fSerialize
  cases r with
  | register h pk kh cert sig =>
    exact runFlat_chain cap _ _ [.byte .header_byte, .slice .public_key, .len8 .key_handle, .slice .key_handle,
      .slice .attestation_certificate, .slice .signature] _ buf (by simp [evalExpr, u2fBytes, u2fNum, u2fParts])
  | authenticate p c sig =>
    exact runFlat_chain cap _ _ [.byte .user_presence, .be 4 .count, .slice .signature] _ buf
      (by simp [evalExpr, u2fBytes, u2fNum, u2fParts])
  | version v =>
    exact runFlat_chain cap _ _ [.slice .version] _ buf (by simp [evalExpr, u2fBytes, u2fNum, u2fParts])
