import Ctap.WT
import Ctap.LeafThm
import Ctap.FilterThm
/-
  G-RT: `wf t → wt t v → decode t (encode t v ++ r) = .ok (v, r)` for every schema in the
  universe, every well-typed value and every trailing input: decoding inverts encoding.
-/

/-- the round-trip statement for one type -/
def RT (t : Ty) : Prop := ∀ v r, wt t v = true → decode t (encode t v ++ r) = .ok (v, r)

theorem maxAi_cases (w : IntW) : (w.maxAi = 24 ∨ w.maxAi = 26 ∨ w.maxAi = 27) ∧ headBound w.maxAi = w.bound := by
  cases w <;> simp [IntW.maxAi, IntW.bound, headBound]

theorem leaf_uint_rt (w : IntW) : RT (.leaf (.uint w)) := by
  intro v r h
  cases v <;> simp [wt, wtLeaf] at h
  rename_i n
  have hb : w.bound ≤ 18446744073709551616 := by cases w <;> simp [IntW.bound]
  simp only [encode, encLeaf, decode, decLeaf]
  rw [decHead_encHead w.maxAi 0 n r (by omega) (by omega) (maxAi_cases w).1, (maxAi_cases w).2, if_pos h]

theorem leaf_i32_rt : RT (.leaf .i32) := by
  intro v r h
  cases v <;> simp [wt, wtLeaf] at h
  rename_i i
  simp only [i32Range, Bool.and_eq_true, decide_eq_true_eq] at h
  simp only [encode, encLeaf, encInt, decode, decLeaf]
  by_cases hi : i ≥ 0
  · rw [if_pos hi]
    obtain ⟨b, rest, hb, hm⟩ := encHead_cons 0 i.toNat (by omega)
    have hd := decHead32_encHead 0 i.toNat r (by omega) (by omega)
    rw [hb] at hd ⊢
    simp only [List.cons_append, hm, true_or, if_true]
    simp only [List.cons_append] at hd
    rw [hd]
    simp only []
    rw [if_neg (by omega)]
    simp
    omega
  · rw [if_neg hi]
    obtain ⟨b, rest, hb, hm⟩ := encHead_cons 1 (-1 - i).toNat (by omega)
    have hd := decHead32_encHead 1 (-1 - i).toNat r (by omega) (by omega)
    rw [hb] at hd ⊢
    simp only [List.cons_append, hm, or_true, if_true]
    simp only [List.cons_append] at hd
    rw [hd]
    simp only []
    rw [if_neg (by omega)]
    simp
    omega

theorem leaf_simple_rt : RT (.leaf .bool) ∧ RT (.leaf .unit) := by
  constructor
  · intro v r h
    cases v <;> simp [wt, wtLeaf] at h
    rename_i b
    cases b <;> simp [encode, encLeaf, decode, decLeaf]
  · intro v r h
    cases v <;> simp [wt, wtLeaf] at h
    simp [encode, encLeaf, decode, decLeaf]

theorem leaf_bytes_rt (cap : Option Nat) : RT (.leaf (.bytes cap)) := by
  intro v r h
  cases v <;> simp [wt, wtLeaf] at h
  rename_i b
  simp only [encode, encLeaf, decode, decLeaf, decBytes_encBytes b r h.1]
  cases cap with
  | none => rfl
  | some c =>
    simp only [capOk, decide_eq_true_eq] at h
    simp only []
    rw [if_neg (by omega)]

theorem leaf_byteArray_rt (n : Nat) : RT (.leaf (.byteArray n)) := by
  intro v r h
  cases v <;> simp [wt, wtLeaf] at h
  rename_i b
  simp only [encode, encLeaf, decode, decLeaf, decBytes_encBytes b r (by omega), h.1, if_true]

theorem leaf_str_rt (cap : Option Nat) : RT (.leaf (.str cap)) := by
  intro v r h
  cases v <;> simp [wt, wtLeaf] at h
  rename_i s
  simp only [encode, encLeaf, decode, decLeaf, decText_encText s r h.1.2, h.1.1, if_true]
  cases cap with
  | none => rfl
  | some c =>
    have := h.2
    simp only [capOk, decide_eq_true_eq] at this
    simp only []
    rw [if_neg (by omega)]

theorem leaf_enumStr_rt (ser : List (List Byte)) (de : List (List Byte × Nat))
    (hwf : wfLeaf (.enumStr ser de) = true) : RT (.leaf (.enumStr ser de)) := by
  intro v r h
  cases v <;> simp [wt, wtLeaf] at h
  rename_i i
  simp only [wfLeaf, List.all_eq_true, List.mem_range] at hwf
  have := hwf i h
  have hs : ser[i]? = some ser[i] := List.getElem?_eq_getElem h
  rw [hs] at this
  simp only [Bool.and_eq_true, beq_iff_eq, decide_eq_true_eq] at this
  simp only [encode, encLeaf, hs, decode, decLeaf, decText_encText _ r this.2, this.1.2, if_true, this.1.1]

theorem leaf_enumRepr_rt (discs : List Nat) (hwf : wfLeaf (.enumRepr discs) = true) :
    RT (.leaf (.enumRepr discs)) := by
  intro v r h
  cases v <;> simp [wt, wtLeaf] at h
  rename_i i
  simp only [wfLeaf, Bool.and_eq_true, List.all_eq_true, List.mem_range, decide_eq_true_eq] at hwf
  have h2 := hwf.2 i h
  have hs : discs[i]? = some discs[i] := List.getElem?_eq_getElem h
  rw [hs] at h2
  simp only [beq_iff_eq] at h2
  have hlt : discs[i] < 256 := hwf.1 _ (List.getElem_mem h)
  simp only [encode, encLeaf, hs, decode, decLeaf]
  rw [decHead8_encHead 0 _ r (by omega) hlt]
  simp only [h2]

theorem encCose_ecdh (x y : List Byte) :
    encCose .ecdh (some x) (some y)
      = [0xa5, 0x01, 0x02, 0x03, 0x38, 0x18, 0x20, 0x01, 0x21] ++ (encBytes x ++ (0x22 :: encBytes y)) := by
  simp [encCose, CoseKind.consts, encInt, encHead, be]

theorem decBytesCap_encBytes (b r : Input) (h : b.length ≤ 32) :
    decBytesCap 32 (encBytes b ++ r) = .ok (b, r) := by
  simp only [decBytesCap, decBytes_encBytes b r (by omega)]
  rw [if_neg (by omega)]

theorem decI8_small (b : Byte) (rest : Input) (h : b.toNat < 24) : decI8 (b :: rest) = .ok ((b.toNat : Int), rest) := by
  have h0 : b.toNat / 32 = 0 := by omega
  have h1 : b.toNat % 32 = b.toNat := by omega
  simp only [decI8, h0, if_true, decHead8, decHead, h1]
  simp [h]
  omega

theorem decI8_neg_small (b : Byte) (rest : Input) (h1 : 32 ≤ b.toNat) (h2 : b.toNat < 56) :
    decI8 (b :: rest) = .ok (-1 - ((b.toNat - 32 : Nat) : Int), rest) := by
  have h0 : b.toNat / 32 = 1 := by omega
  have hm : b.toNat % 32 = b.toNat - 32 := by omega
  simp only [decI8, h0, decHead8, decHead, hm]
  simp
  rw [if_pos (by omega)]
  simp only []
  rw [if_pos (by omega)]

theorem decI8_neg25 (rest : Input) : decI8 (0x38 :: 0x18 :: rest) = .ok (-25, rest) := by
  simp [decI8, decHead, readArg, readBE]

theorem leaf_cose_rt : RT (.leaf .coseEcdh) := by
  intro v r h
  match v, h with
  | .record [some (.bytes x), some (.bytes y)], h =>
    simp only [wt, wtLeaf, Bool.and_eq_true, decide_eq_true_eq] at h
    simp only [encode, encLeaf, optBytes, encCose_ecdh, decode, decLeaf, decCoseEcdh, decCoseRaw,
      List.cons_append, List.nil_append, List.append_assoc]
    have h1 : ∀ rest : Input, decHead32 5 (0xa5 :: rest) = .ok (5, rest) := by
      intro rest; simp [decHead]
    rw [h1]
    simp only [coseNextKey]
    rw [if_neg (by decide), decI8_small 0x01 _ (by decide)]
    simp only [coseStep, coseNextKey, decI8Enum]
    rw [if_pos (by decide), decI8_small 0x02 _ (by decide)]
    simp only [show ([1, 2, 4] : List Int).contains ((0x02 : Byte).toNat : Int) = true by decide, if_true]
    rw [if_neg (by decide), decI8_small 0x03 _ (by decide)]
    simp only []
    rw [if_pos (by decide), decI8_neg25]
    simp only [show ([-7, -8, -9, -25] : List Int).contains (-25) = true by decide, if_true]
    rw [if_neg (by decide), decI8_neg_small 0x20 _ (by decide) (by decide)]
    simp only []
    rw [if_pos (by decide), decI8_small 0x01 _ (by decide)]
    simp only [show ([0, 1, 4, 6] : List Int).contains ((0x01 : Byte).toNat : Int) = true by decide, if_true]
    rw [if_neg (by decide), decI8_neg_small 0x21 _ (by decide) (by decide)]
    simp only []
    rw [if_pos (by decide), decBytesCap_encBytes x _ h.1]
    simp only []
    rw [if_neg (by decide), decI8_neg_small 0x22 _ (by decide) (by decide)]
    simp only []
    rw [if_pos (by decide), decBytesCap_encBytes y _ h.2]
    simp only []
    rw [if_pos (by decide)]
    simp

theorem leaf_rt (l : Leaf) (hwf : wfLeaf l = true) : RT (.leaf l) := by
  cases l with
  | uint w => exact leaf_uint_rt w
  | i32 => exact leaf_i32_rt
  | bool => exact leaf_simple_rt.1
  | unit => exact leaf_simple_rt.2
  | bytes cap => exact leaf_bytes_rt cap
  | byteArray n => exact leaf_byteArray_rt n
  | str cap => exact leaf_str_rt cap
  | icon => simp [wfLeaf] at hwf
  | enumStr ser de => exact leaf_enumStr_rt ser de hwf
  | enumRepr discs => exact leaf_enumRepr_rt discs hwf
  | coseEcdh => exact leaf_cose_rt
  | cosePub => simp [wfLeaf] at hwf
  | attFmtPref de cap => simp [wfLeaf] at hwf

/-! ### the first byte of an encoding (for `Option`'s `null` test) -/

theorem encHead_first_ne_null (m n : Nat) (hm : m < 6) :
    ∃ b rest, encHead m n = b :: rest ∧ b ≠ 0xf6 := by
  obtain ⟨b, rest, h, hb⟩ := encHead_cons m n (by omega)
  refine ⟨b, rest, h, ?_⟩
  intro hf; subst hf
  simp at hb; omega

theorem encode_first (t : Ty) (v : Val) (h : wt t v = true) (hu : t.isUnit = false) :
    ∃ b, (encode t v).head? = some b ∧ b ≠ 0xf6 := by
  cases t with
  | leaf l =>
    cases l with
    | uint w =>
      cases v <;> simp [wt, wtLeaf] at h
      obtain ⟨b, rest, hb, hne⟩ := encHead_first_ne_null 0 (‹Nat›) (by omega)
      exact ⟨b, by simp [encode, encLeaf, hb], hne⟩
    | i32 =>
      cases v <;> simp [wt, wtLeaf] at h
      rename_i i
      simp only [encode, encLeaf, encInt]
      split
      · obtain ⟨b, rest, hb, hne⟩ := encHead_first_ne_null 0 i.toNat (by omega)
        exact ⟨b, by simp [hb], hne⟩
      · obtain ⟨b, rest, hb, hne⟩ := encHead_first_ne_null 1 (-1 - i).toNat (by omega)
        exact ⟨b, by simp [hb], hne⟩
    | bool =>
      cases v <;> simp [wt, wtLeaf] at h
      rename_i b
      cases b
      · exact ⟨0xf4, by simp [encode, encLeaf], by decide⟩
      · exact ⟨0xf5, by simp [encode, encLeaf], by decide⟩
    | unit => simp [Ty.isUnit] at hu
    | bytes cap =>
      cases v <;> simp [wt, wtLeaf] at h
      obtain ⟨b, rest, hb, hne⟩ := encHead_first_ne_null 2 (‹List Byte›).length (by omega)
      exact ⟨b, by simp [encode, encLeaf, encBytes, hb], hne⟩
    | byteArray n =>
      cases v <;> simp [wt, wtLeaf] at h
      obtain ⟨b, rest, hb, hne⟩ := encHead_first_ne_null 2 (‹List Byte›).length (by omega)
      exact ⟨b, by simp [encode, encLeaf, encBytes, hb], hne⟩
    | str cap =>
      cases v <;> simp [wt, wtLeaf] at h
      obtain ⟨b, rest, hb, hne⟩ := encHead_first_ne_null 3 (‹List Byte›).length (by omega)
      exact ⟨b, by simp [encode, encLeaf, encText, hb], hne⟩
    | icon => cases v <;> simp [wt, wtLeaf] at h
    | enumStr ser de =>
      cases v <;> simp [wt, wtLeaf] at h
      rename_i i
      have hs : ser[i]? = some ser[i] := List.getElem?_eq_getElem h
      obtain ⟨b, rest, hb, hne⟩ := encHead_first_ne_null 3 (ser[i]).length (by omega)
      exact ⟨b, by simp [encode, encLeaf, hs, encText, hb], hne⟩
    | enumRepr discs =>
      cases v <;> simp [wt, wtLeaf] at h
      rename_i i
      have hs : discs[i]? = some discs[i] := List.getElem?_eq_getElem h
      obtain ⟨b, rest, hb, hne⟩ := encHead_first_ne_null 0 (discs[i]) (by omega)
      exact ⟨b, by simp [encode, encLeaf, hs, hb], hne⟩
    | coseEcdh =>
      match v, h with
      | .record [some (.bytes x), some (.bytes y)], _ =>
        exact ⟨0xa5, by simp [encode, encLeaf, optBytes, encCose_ecdh], by decide⟩
    | cosePub => cases v <;> simp [wt, wtLeaf] at h
    | attFmtPref de cap => cases v <;> simp [wt, wtLeaf] at h
  | vec cap t =>
    cases v <;> simp [wt] at h
    obtain ⟨b, rest, hb, hne⟩ := encHead_first_ne_null 4 (‹List Val›).length (by omega)
    exact ⟨b, by simp [encode, hb], hne⟩
  | filtered cap known d sl elem =>
    cases v <;> simp [wt] at h
    obtain ⟨b, rest, hb, hne⟩ := encHead_first_ne_null 4 (‹List Val›).length (by omega)
    exact ⟨b, by simp [encode, hb], hne⟩
  | indexed off fs =>
    cases v <;> simp [wt] at h
    obtain ⟨b, rest, hb, hne⟩ := encHead_first_ne_null 5 (countEmit fs ‹Slots›) (by omega)
    exact ⟨b, by simp [encode, hb], hne⟩
  | text fs =>
    cases v <;> simp [wt] at h
    obtain ⟨b, rest, hb, hne⟩ := encHead_first_ne_null 5 (countEmit fs ‹Slots›) (by omega)
    exact ⟨b, by simp [encode, hb], hne⟩
  | untagged alts => cases v <;> simp [wt] at h

/-! ### sequences -/

theorem seq_rt (elem : Input → Res Val) (enc : Val → List Byte) (cap : Option Nat)
    (vs : List Val) (r : Input) (acc : List Val)
    (h : ∀ v ∈ vs, ∀ x, elem (enc v ++ x) = .ok (v, x))
    (hc : ∀ c, cap = some c → acc.length + vs.length ≤ c) :
    seqLoop elem cap vs.length ((vs.map enc).flatten ++ r) acc = .ok (acc ++ vs, r) := by
  induction vs generalizing acc with
  | nil => simp [seqLoop]
  | cons v vs ih =>
    simp only [List.length_cons, List.map_cons, List.flatten_cons, List.append_assoc, seqLoop]
    rw [h v (by simp)]
    simp only []
    have hih := ih (acc ++ [v]) (fun v' hv' => h v' (by simp [hv'])) (by
      intro c hcc; have := hc c hcc; simp at this ⊢; omega)
    cases cap with
    | none => simp only [Bool.false_eq_true, if_false]; rw [hih]; simp
    | some c =>
      have := hc c rfl
      simp only [List.length_cons] at this
      rw [if_neg (by simp; omega), hih]; simp

/-! ### struct members -/

theorem truncateStr_fits (cap win : Nat) (s : List Byte) (h : s.length ≤ cap) :
    truncateStr cap win s = .ret s := by
  unfold truncateStr floorCharBoundary
  rw [if_pos (by omega)]
  have hb : isCharBoundaryAt s s.length = true := by
    unfold isCharBoundaryAt; split <;> simp
  simp [hb]
  omega

theorem modeApply_ok (m : Mode) (v : Val) (h : modeOk m v = true) : m.apply v = .ok (some v) := by
  cases m with
  | plain => rfl
  | nullable => rfl
  | trunc cap win =>
    cases v <;> simp [modeOk] at h
    simp [Mode.apply, truncateStr_fits cap win _ h]
  | skipLong cap =>
    cases v <;> simp [modeOk] at h
    simp [Mode.apply, h]

/-- what one emitted member contributes after its key: the value, or `null` for an unset one -/
def encSlot (t : Ty) (o : Option Val) : List Byte :=
  match o with
  | some v => encode t v
  | none => [0xf6]

theorem encSlot_eq (t : Ty) (o : Option Val) :
    (match o with | some v => encode t v | none => [0xf6]) = encSlot t o := by
  cases o <;> rfl

/-- an emitted member is readable: its value is well-typed and fits its reader mode, or it is an
    unset member written as `null` for a reader that accepts `null` -/
def slotOk (f : FieldInfo) (t : Ty) : Option Val → Prop
  | none => f.ser = .always ∧ f.mode.acceptsNull = true
  | some v => wt t v = true ∧ modeOk f.mode v = true

/-- reading back the bytes of one emitted member stores exactly its content in its slot -/
theorem fieldValue_rt (f : FieldInfo) (t : Ty) (hrt : RT t) (hu : f.mode.acceptsNull = true → t.isUnit = false)
    (o : Option Val) (i : Nat) (r : Input) (slots : DSlots) (hun : slotSeen slots i = false)
    (hw : slotOk f t o) :
    fieldValue (fun x => decode t x) f i (encSlot t o ++ r) slots = .ok (slots.set i (some o), r) := by
  cases o with
  | none =>
    simp only [encSlot]
    unfold fieldValue
    rw [hun]
    simp only [Bool.false_eq_true, if_false, hw.2, List.cons_append, List.nil_append, List.head?_cons,
      Bool.true_and, decide_true, if_true, List.tail_cons]
  | some v =>
    simp only [encSlot]
    unfold fieldValue
    rw [hun]
    simp only [Bool.false_eq_true, if_false]
    have hnn : (f.mode.acceptsNull && decide ((encode t v ++ r).head? = some 0xf6)) = false := by
      by_cases ha : f.mode.acceptsNull = true
      · obtain ⟨b, hb, hne⟩ := encode_first t v hw.1 (hu ha)
        have : (encode t v ++ r).head? = some b := by
          cases he : encode t v with
          | nil => rw [he] at hb; simp at hb
          | cons x xs => rw [he] at hb; simp at hb; simp [hb]
        simp [this, hne]
      · simp [ha]
    rw [if_neg (by rw [hnn]; simp)]
    rw [hrt v r hw.1]
    simp only [modeApply_ok f.mode v hw.2]

/-! ### struct loops -/

/-- decoder slot state after reading the encoding of `s`: emitted members are seen -/
def markSlots : Fields → Slots → DSlots
  | .nil, _ => []
  | .cons f _ rest, s => (if emits f.ser s.head?.join then some s.head?.join else none) :: markSlots rest s.tail

theorem lt_of_drop_cons {α} (cur : List α) (j : Nat) (x : α) (tl : List α)
    (h : cur.drop j = x :: tl) : j < cur.length := by
  rcases Nat.lt_or_ge j cur.length with h1 | h1
  · exact h1
  · rw [List.drop_eq_nil_of_le h1] at h; cases h

theorem take_succ_of_drop {α} (cur : List α) (j : Nat) (x : α) (tl : List α)
    (h : cur.drop j = x :: tl) : cur.take (j+1) = cur.take j ++ [x] ∧ cur.drop (j+1) = tl := by
  have hj := lt_of_drop_cons cur j x tl h
  have hx : cur[j] = x := by
    have := congrArg (·[0]?) h
    simp [List.getElem?_drop] at this
    grind
  constructor
  · rw [List.take_succ_eq_append_getElem hj, hx]
  · have := congrArg (List.drop 1) h
    simpa [List.drop_drop, Nat.add_comm] using this

theorem set_take_drop {α} (cur : List α) (j : Nat) (x y : α) (tl s : List α)
    (h : cur.drop j = x :: tl) : (cur.set j y).take (j+1) ++ s = cur.take j ++ y :: s := by
  have hj := lt_of_drop_cons cur j x tl h
  rw [List.take_succ_eq_append_getElem (by simpa using hj)]
  simp [List.take_set]
  apply List.set_eq_of_length_le; simp; omega

theorem slotSeen_of_drop_none (cur : DSlots) (j : Nat) (tl : DSlots) (h : cur.drop j = none :: tl) :
    slotSeen cur j = false := by
  have : cur[j]? = some none := by
    have := congrArg (·[0]?) h
    simpa [List.getElem?_drop] using this
  simp [slotSeen, this]

/-- per-field facts the loop needs (supplied by the two struct kinds) -/
def FieldFacts {κ : Type} (readKey : Input → Res κ) (entry : κ → Input → DSlots → Res DSlots)
    (key : Nat → FieldInfo → List Byte) (kOf : Nat → FieldInfo → κ) (fs : Fields) : Prop :=
  ∀ i f t, fs.nth i = some (f, t) →
    (∀ x, readKey (key i f ++ x) = .ok (kOf i f, x)) ∧
    (∀ inp s, entry (kOf i f) inp s = fieldValue (fun x => decode t x) f i inp s) ∧
    (f.ser ≠ .never → RT t) ∧ (f.mode.acceptsNull = true → t.isUnit = false)

theorem loop_rt {κ : Type} (readKey : Input → Res κ) (entry : κ → Input → DSlots → Res DSlots)
    (key : Nat → FieldInfo → List Byte) (kOf : Nat → FieldInfo → κ) (fs : Fields)
    (H : FieldFacts readKey entry key kOf fs) :
    ∀ (fs' : Fields) (j : Nat) (s' : Slots) (cur : DSlots) (r : Input),
      (∀ i, fs'.nth i = fs.nth (j + i)) → wtFields fs' s' = true →
      cur.drop j = List.replicate fs'.length none →
      mapLoop readKey entry (countEmit fs' s') (encFields key fs' j s' ++ r) cur
        = .ok (cur.take j ++ markSlots fs' s', r)
  | .nil, j, s', cur, r, _, hwt, hd => by
      simp only [Fields.length, List.replicate_zero] at hd
      simp only [countEmit, encFields, List.nil_append, mapLoop, markSlots, List.append_nil]
      have := List.take_append_drop j cur
      rw [hd] at this; simp at this; rw [this]
  | .cons f t rest, j, s', cur, r, hn, hwt, hd => by
      match s', hwt with
      | [], hwt => simp [wtFields] at hwt
      | o :: s'', hwt =>
        simp only [wtFields, Bool.and_eq_true] at hwt
        obtain ⟨ho, hrest⟩ := hwt
        simp only [Fields.length] at hd
        rw [List.replicate_succ] at hd
        have hn' : ∀ i, rest.nth i = fs.nth (j + 1 + i) := by
          intro i; have := hn (i+1); simp only [Fields.nth] at this; rw [this]; congr 1; omega
        have hft : fs.nth j = some (f, t) := by have := hn 0; simpa [Fields.nth] using this.symm
        obtain ⟨hkey, hentry, hrt, hunit⟩ := H j f t hft
        obtain ⟨htk, hdr⟩ := take_succ_of_drop cur j none _ hd
        have hj : j < cur.length := lt_of_drop_cons cur j _ _ hd
        have hss := slotSeen_of_drop_none cur j _ hd
        by_cases hem : emits f.ser o = true
        · -- an emitted member: key, value, then the rest
          have hw : slotOk f t o := by
            cases o with
            | none =>
              simp only [noneOk] at ho
              cases hs : f.ser with
              | always => rw [hs] at ho; exact ⟨hs, ho⟩
              | skipNone => rw [hs] at hem; simp [emits] at hem
              | never => rw [hs] at hem; simp [emits] at hem
            | some v =>
              simp only [Bool.and_eq_true] at ho
              exact ⟨ho.1.2, ho.2⟩
          have hrt' : RT t := by
            apply hrt
            intro hs; rw [hs] at hem; simp [emits] at hem
          have hfv := fieldValue_rt f t hrt' hunit o j (encFields key rest (j+1) s'' ++ r) cur hss hw
          have hdr' : (cur.set j (some o)).drop (j+1) = List.replicate rest.length none := by
            rw [List.drop_set_of_lt (by omega)]; exact hdr
          have hih := loop_rt readKey entry key kOf fs H rest (j+1) s'' (cur.set j (some o)) r hn' hrest hdr'
          have hstd := set_take_drop cur j none (some o) _ (markSlots rest s'') hd
          have hcount : countEmit (.cons f t rest) (o :: s'') = countEmit rest s'' + 1 := by
            simp only [countEmit, List.head?_cons, Option.join_some, List.tail_cons, hem, if_true]; omega
          have hmark : markSlots (.cons f t rest) (o :: s'') = some o :: markSlots rest s'' := by
            simp only [markSlots, List.head?_cons, Option.join_some, List.tail_cons, hem, if_true]
          have hbytes : encFields key (.cons f t rest) j (o :: s'') ++ r
              = key j f ++ (encSlot t o ++ (encFields key rest (j+1) s'' ++ r)) := by
            cases o <;>
              simp only [encFields, List.head?_cons, Option.join_some, List.tail_cons, hem, if_true,
                encSlot, List.append_assoc]
          rw [hcount, hmark, hbytes, mapLoop, hkey]
          simp only []
          rw [hentry, hfv]
          simp only []
          rw [hih, hstd]
        · -- a skipped member contributes nothing and stays unseen
          have hcount : countEmit (.cons f t rest) (o :: s'') = countEmit rest s'' := by
            simp only [countEmit, List.head?_cons, Option.join_some, List.tail_cons, hem]; simp
          have hmark : markSlots (.cons f t rest) (o :: s'') = none :: markSlots rest s'' := by
            simp only [markSlots, List.head?_cons, Option.join_some, List.tail_cons, hem]; simp
          have hbytes : encFields key (.cons f t rest) j (o :: s'') = encFields key rest (j+1) s'' := by
            simp only [encFields, List.head?_cons, Option.join_some, List.tail_cons, hem]; simp
          rw [hcount, hmark, hbytes,
            loop_rt readKey entry key kOf fs H rest (j+1) s'' cur r hn' hrest hdr, htk]
          simp

theorem markSlots_length : ∀ (fs : Fields) (s : Slots), (markSlots fs s).length = fs.length
  | .nil, _ => rfl
  | .cons _ _ rest, s => by simp [markSlots, Fields.length, markSlots_length rest s.tail]

/-- all required members are seen after reading a well-typed value's encoding -/
theorem requiredOk_mark : ∀ (fs : Fields) (s : Slots), wtFields fs s = true → requiredOk fs (markSlots fs s) = true
  | .nil, _, _ => rfl
  | .cons f t rest, s, h => by
      match s, h with
      | [], h => simp [wtFields] at h
      | o :: s', h =>
        simp only [wtFields, Bool.and_eq_true] at h
        simp only [requiredOk, markSlots, List.head?_cons, Option.join_some, List.tail_cons,
          requiredOk_mark rest s' h.2, Bool.and_true]
        cases hr : f.required with
        | false => simp
        | true =>
          simp only [Bool.not_true, Bool.false_or]
          have : emits f.ser o = true := by
            cases o with
            | none =>
              have h1 := h.1
              simp only [noneOk, hr, Bool.not_true] at h1
              cases hs : f.ser <;> rw [hs] at h1 <;> simp [emits] at h1 ⊢
            | some v =>
              have h1 := h.1
              simp only [Bool.and_eq_true, bne_iff_ne, ne_eq] at h1
              cases hs : f.ser with
              | always => rfl
              | skipNone => rfl
              | never => exact absurd hs h1.1.1
          simp [this]

/-- the record delivered is the value that was encoded -/
theorem join_mark : ∀ (fs : Fields) (s : Slots), wtFields fs s = true → (markSlots fs s).map Option.join = s
  | .nil, s, h => by
      cases s with
      | nil => rfl
      | cons _ _ => simp [wtFields] at h
  | .cons f t rest, s, h => by
      match s, h with
      | [], h => simp [wtFields] at h
      | o :: s', h =>
        simp only [wtFields, Bool.and_eq_true] at h
        simp only [markSlots, List.head?_cons, Option.join_some, List.tail_cons, List.map_cons,
          join_mark rest s' h.2, List.cons.injEq, and_true]
        by_cases hem : emits f.ser o = true
        · simp [hem]
        · simp only [hem, Bool.false_eq_true, if_false, Option.join_none]
          cases o with
          | none => rfl
          | some v =>
            have h1 := h.1
            simp only [Bool.and_eq_true, bne_iff_ne, ne_eq] at h1
            cases hs : f.ser with
            | always => rw [hs] at hem; simp [emits] at hem
            | skipNone => rw [hs] at hem; simp [emits] at hem
            | never => exact absurd hs h1.1.1

theorem countEmit_le : ∀ (fs : Fields) (s : Slots), countEmit fs s ≤ fs.length
  | .nil, _ => by simp [countEmit, Fields.length]
  | .cons f _ rest, s => by
      have := countEmit_le rest s.tail
      simp only [countEmit, Fields.length]
      split <;> omega

/-! ### key lookup in the two struct kinds -/

theorem decIdx_lookup : ∀ (fs : Fields) (off j i : Nat) (f : FieldInfo) (t : Ty) (inp : Input) (s : DSlots),
    fs.nth i = some (f, t) →
    decIdxEntry fs off j (off + (j + i)) inp s = fieldValue (fun x => decode t x) f (j + i) inp s
  | .nil, _, _, _, _, _, _, _, h => by simp [Fields.nth] at h
  | .cons f' t' rest, off, j, 0, f, t, inp, s, h => by
      simp only [Fields.nth, Option.some.injEq, Prod.mk.injEq] at h
      obtain ⟨rfl, rfl⟩ := h
      simp [decIdxEntry]
  | .cons f' t' rest, off, j, i+1, f, t, inp, s, h => by
      simp only [Fields.nth] at h
      rw [decIdxEntry, if_neg (by omega)]
      have := decIdx_lookup rest off (j+1) i f t inp s h
      rw [show off + (j + (i + 1)) = off + (j + 1 + i) by omega, this]
      rw [show j + 1 + i = j + (i + 1) by omega]

theorem decTxt_lookup : ∀ (fs : Fields) (j i : Nat) (f : FieldInfo) (t : Ty) (inp : Input) (s : DSlots),
    fs.nth i = some (f, t) → keyFreshBefore f fs i = true →
    decTxtEntry fs j (.name f.key) inp s = fieldValue (fun x => decode t x) f (j + i) inp s
  | .nil, _, _, _, _, _, _, h, _ => by simp [Fields.nth] at h
  | .cons f' t' rest, j, 0, f, t, inp, s, h, _ => by
      simp only [Fields.nth, Option.some.injEq, Prod.mk.injEq] at h
      obtain ⟨rfl, rfl⟩ := h
      simp [decTxtEntry, FieldInfo.matches]
  | .cons f' t' rest, j, i+1, f, t, inp, s, h, hf => by
      simp only [Fields.nth] at h
      simp only [keyFreshBefore, Bool.and_eq_true, Bool.not_eq_eq_eq_not, Bool.not_true,
        Bool.or_eq_false_iff, beq_eq_false_iff_ne, ne_eq] at hf
      have hnm : f'.matches j (.name f.key) = false := by
        simp only [FieldInfo.matches, Bool.or_eq_false_iff, decide_eq_false_iff_not]
        exact ⟨hf.1.1, hf.1.2⟩
      rw [decTxtEntry, hnm]
      simp only [Bool.false_eq_true, if_false]
      have := decTxt_lookup rest (j+1) i f t inp s h hf.2
      rw [this, show j + 1 + i = j + (i + 1) by omega]

theorem readTKey_encText (k x : Input) (hv : validUtf8 k = true) (hl : k.length < 4294967296) :
    readTKey (encText k ++ x) = .ok (.name k, x) := by
  obtain ⟨b, rest, hb, hm⟩ := encHead_cons 3 k.length (by omega)
  have hd := decHead32_encHead 3 k.length (k ++ x) (by omega) hl
  unfold readTKey encText
  rw [hb] at hd ⊢
  simp only [List.cons_append, List.append_assoc] at hd ⊢
  simp only [hm, hd, takeN_append, hv]
  simp

/-- the facts `wfFields` records about the member at position `i` -/
theorem wfFields_nth (txt : Bool) (all : Fields) : ∀ (fs : Fields) (j i : Nat) (f : FieldInfo) (t : Ty),
    wfFields txt all fs j = true → fs.nth i = some (f, t) →
      (f.ser = .never ∨ wf t = true) ∧
      (txt = true → validUtf8 f.key = true ∧ f.key.length < 4294967296 ∧ keyFreshBefore f all (j + i) = true) ∧
      (f.mode.acceptsNull = true → t.isUnit = false)
  | .nil, _, _, _, _, _, h => by simp [Fields.nth] at h
  | .cons f' t' rest, j, 0, f, t, hw, h => by
      simp only [Fields.nth, Option.some.injEq, Prod.mk.injEq] at h
      obtain ⟨rfl, rfl⟩ := h
      simp only [wfFields, Bool.and_eq_true, Bool.or_eq_true, beq_iff_eq, Bool.not_eq_eq_eq_not,
        Bool.not_true, decide_eq_true_eq] at hw
      refine ⟨hw.1.1.1.1, ?_, ?_⟩
      · intro ht
        have := hw.1.1.1.2
        rcases this with h | h
        · rw [ht] at h; cases h
        · exact ⟨h.1.1, h.1.2, by simpa using h.2⟩
      · intro ha
        have := hw.1.1.2
        rcases this with h | h
        · rw [ha] at h; cases h
        · exact h
  | .cons f' t' rest, j, i+1, f, t, hw, h => by
      simp only [Fields.nth] at h
      simp only [wfFields, Bool.and_eq_true] at hw
      have := wfFields_nth txt all rest (j+1) i f t hw.2 h
      rw [show j + 1 + i = j + (i + 1) by omega] at this
      exact this

/-! ### the round-trip theorem -/

theorem filterParam_known (known : List Int) (lit : List Byte) (a : Int) (h : known.contains a = true) :
    filterParam known lit (.record [some (.int a), some (.text lit)]) = some (.int a) := by
  have hm : a ∈ known := by simpa using h
  simp [filterParam, hm]

theorem filterMap_some_id {α : Type} (f : α → Option α) (l : List α) (h : ∀ v ∈ l, f v = some v) :
    l.filterMap f = l := by
  induction l with
  | nil => rfl
  | cons x xs ih =>
    rw [List.filterMap_cons, h x (by simp)]
    simp only []
    rw [ih (fun v hv => h v (by simp [hv]))]

theorem Fields.nth_lt : ∀ (fs : Fields) (i : Nat) (x : FieldInfo × Ty), fs.nth i = some x → i < fs.length
  | .nil, _, _, h => by simp [Fields.nth] at h
  | .cons _ _ rest, 0, _, _ => by simp [Fields.length]
  | .cons _ _ rest, i+1, x, h => by
      simp only [Fields.nth] at h
      have := Fields.nth_lt rest i x h
      simp only [Fields.length]; omega

theorem struct_rt {κ : Type} (readKey : Input → Res κ) (entry : κ → Input → DSlots → Res DSlots)
    (key : Nat → FieldInfo → List Byte) (kOf : Nat → FieldInfo → κ) (fs : Fields)
    (H : FieldFacts readKey entry key kOf fs) (s : Slots) (r : Input) (hw : wtFields fs s = true) :
    mapLoop readKey entry (countEmit fs s) (encFields key fs 0 s ++ r) (List.replicate fs.length none)
      = .ok (markSlots fs s, r) := by
  have := loop_rt readKey entry key kOf fs H fs 0 s (List.replicate fs.length none) r
    (by intro i; simp) hw (by simp)
  simpa using this

mutual
/-- **G-RT.** For every well-formed schema, every well-typed value and every trailing input,
    decoding the encoding returns exactly the value and exactly the trailing input. -/
theorem rt : ∀ (t : Ty), wf t = true → RT t
  | .leaf l, hwf => leaf_rt l (by simpa [wf] using hwf)
  | .vec cap t, hwf => by
      intro v r h
      cases v <;> simp [wt] at h
      rename_i vs
      simp only [wf] at hwf
      simp only [encode, decode, List.append_assoc]
      rw [decHead32_encHead 4 _ _ (by omega) h.1.2]
      simp only []
      rw [seq_rt (fun i => decode t i) (fun v => encode t v) (some cap) vs r []
        (fun v hv x => rt t hwf v x (h.2 v hv)) (by intro c hc; cases hc; simpa using h.1.1)]
      simp
  | .filtered cap known deLit serLit elem, hwf => by
      intro v r h
      cases v <;> simp [wt] at h
      rename_i vs
      simp only [wf, Bool.and_eq_true, beq_iff_eq, List.all_eq_true] at hwf
      obtain ⟨⟨⟨hlit, _⟩, hwfe⟩, hknown⟩ := hwf
      subst hlit
      simp only [encode, decode, List.append_assoc]
      rw [decHead32_encHead 4 _ _ (by omega) h.1.2]
      simp only []
      let recOf : Val → Val := fun v => .record [some v, some (.text deLit)]
      have hmap : (vs.map (fun v => encode elem (.record [some v, some (.text deLit)]))) =
          (vs.map recOf).map (fun x => encode elem x) := by simp [recOf, List.map_map]
      have hlen : vs.length = (vs.map recOf).length := by simp
      rw [hmap, hlen]
      have hk : ∀ v ∈ vs, ∃ a, v = .int a ∧ known.contains a = true := by
        intro v hv
        have := h.2 v hv
        cases v <;> simp at this
        exact ⟨_, rfl, by simpa using this⟩
      rw [seq_rt (fun i => decode elem i) (fun x => encode elem x) none (vs.map recOf) r []
        (by
          intro x hx y
          simp only [List.mem_map] at hx
          obtain ⟨v, hv, rfl⟩ := hx
          obtain ⟨a, rfl, ha⟩ := hk v hv
          have hmem : a ∈ known := by simpa using ha
          exact rt elem hwfe _ y (hknown a hmem))
        (by intro c hc; cases hc)]
      simp only [List.nil_append]
      rw [filterFold_spec]
      have hfm : (vs.map recOf).filterMap (filterParam known deLit) = vs := by
        rw [List.filterMap_map]
        have : ∀ v ∈ vs, (filterParam known deLit ∘ recOf) v = some v := by
          intro v hv
          obtain ⟨a, rfl, ha⟩ := hk v hv
          exact filterParam_known known deLit a ha
        exact filterMap_some_id _ vs this
      rw [hfm, List.take_of_length_le h.1.1]
  | .indexed off fs, hwf => by
      intro v r h
      cases v <;> simp [wt] at h
      rename_i s
      simp only [wf, Bool.and_eq_true, decide_eq_true_eq] at hwf
      obtain ⟨⟨hoff, hlen⟩, hwff⟩ := hwf
      simp only [encode, decode, List.append_assoc]
      have hc := countEmit_le fs s
      rw [decHead32_encHead 5 _ _ (by omega) (by omega)]
      simp only []
      have H : FieldFacts (decHead64 0) (fun k i s => decIdxEntry fs off 0 k i s) (keyIdx off)
          (fun i _ => off + i) fs := by
        intro i f t hnth
        have hlt : i < fs.length := Fields.nth_lt fs i _ hnth
        obtain ⟨hser, _, hun⟩ := wfFields_nth false fs fs 0 i f t hwff hnth
        refine ⟨?_, ?_, ?_, hun⟩
        · intro x; exact decHead64_encHead 0 (off + i) x (by omega) (by omega)
        · intro inp s'
          have := decIdx_lookup fs off 0 i f t inp s' hnth
          simpa using this
        · intro hne
          rcases hser with h1 | h1
          · exact absurd h1 hne
          · exact rtF fs i f t hnth h1
      rw [struct_rt _ _ _ _ fs H s r h]
      simp only [requiredOk_mark fs s h, if_true, join_mark fs s h]
  | .text fs, hwf => by
      intro v r h
      cases v <;> simp [wt] at h
      rename_i s
      simp only [wf, Bool.and_eq_true, decide_eq_true_eq] at hwf
      obtain ⟨hlen, hwff⟩ := hwf
      simp only [encode, decode, List.append_assoc]
      have hc := countEmit_le fs s
      rw [decHead32_encHead 5 _ _ (by omega) (by omega)]
      simp only []
      have H : FieldFacts readTKey (fun k i s => decTxtEntry fs 0 k i s) keyTxt
          (fun _ f => TKey.name f.key) fs := by
        intro i f t hnth
        obtain ⟨hser, hk, hun⟩ := wfFields_nth true fs fs 0 i f t hwff hnth
        obtain ⟨hv, hl, hfresh⟩ := hk rfl
        refine ⟨?_, ?_, ?_, hun⟩
        · intro x; exact readTKey_encText f.key x hv hl
        · intro inp s'
          have := decTxt_lookup fs 0 i f t inp s' hnth (by simpa using hfresh)
          simpa using this
        · intro hne
          rcases hser with h1 | h1
          · exact absurd h1 hne
          · exact rtF fs i f t hnth h1
      rw [struct_rt _ _ _ _ fs H s r h]
      simp only [requiredOk_mark fs s h, if_true, join_mark fs s h]
  | .untagged _, hwf => by simp [wf] at hwf
theorem rtF : ∀ (fs : Fields) (i : Nat) (f : FieldInfo) (t : Ty), fs.nth i = some (f, t) → wf t = true → RT t
  | .nil, _, _, _, h, _ => by simp [Fields.nth] at h
  | .cons f' t' rest, 0, f, t, h, hw => by
      simp only [Fields.nth, Option.some.injEq, Prod.mk.injEq] at h
      obtain ⟨_, rfl⟩ := h
      exact rt t' hw
  | .cons f' t' rest, i+1, f, t, h, hw => by
      simp only [Fields.nth] at h
      exact rtF rest i f t h hw
end
