import Ctap.WT
import Ctap.HeadThm
/-
  Canonical items (the CTAP2 canonical CBOR data model restricted to what authenticators emit),
  the declarative reading `toC` of a value under a schema, E1: `encode t v = encC (toC t v)`,
  and G-CANON: when the schema's keys are declared in canonical order, `toC t v` is canonical.
-/

mutual
/-- definite-length items with shortest-form heads by construction; no tags, floats, undefined -/
inductive CItem
  | uint (n : Nat)
  | nint (n : Nat)                 -- the value -1 - n
  | bytes (b : List Byte)
  | text (b : List Byte)
  | bool (b : Bool)
  | null
  | arr (xs : CItems)
  | map (kvs : CPairs)
inductive CItems
  | nil
  | cons (x : CItem) (xs : CItems)
inductive CPairs
  | nil
  | cons (k v : CItem) (rest : CPairs)
end

def CItems.length : CItems → Nat
  | .nil => 0
  | .cons _ xs => xs.length + 1
def CPairs.length : CPairs → Nat
  | .nil => 0
  | .cons _ _ r => r.length + 1
def CItems.ofList : List CItem → CItems
  | [] => .nil
  | x :: xs => .cons x (CItems.ofList xs)

mutual
def encC : CItem → List Byte
  | .uint n => encHead 0 n
  | .nint n => encHead 1 n
  | .bytes b => encHead 2 b.length ++ b
  | .text b => encHead 3 b.length ++ b
  | .bool b => [if b then 0xf5 else 0xf4]
  | .null => [0xf6]
  | .arr xs => encHead 4 xs.length ++ encCs xs
  | .map kvs => encHead 5 kvs.length ++ encPs kvs
def encCs : CItems → List Byte
  | .nil => []
  | .cons x xs => encC x ++ encCs xs
def encPs : CPairs → List Byte
  | .nil => []
  | .cons k v r => encC k ++ encC v ++ encPs r
end

def cInt (i : Int) : CItem := if i ≥ 0 then .uint i.toNat else .nint (-1 - i).toNat

def cCose (k : CoseKind) (x y : Option (List Byte)) : CItem :=
  let (kty, alg, crv) := k.consts
  .map (.cons (.uint 1) (cInt kty) (.cons (.uint 3) (cInt alg)
    (match crv with
     | some c => .cons (.nint 0) (cInt c)
        (match x with
         | some bx => .cons (.nint 1) (.bytes bx) (match y with | some b => .cons (.nint 2) (.bytes b) .nil | none => .nil)
         | none => (match y with | some b => .cons (.nint 2) (.bytes b) .nil | none => .nil))
     | none =>
        (match x with
         | some bx => .cons (.nint 1) (.bytes bx) (match y with | some b => .cons (.nint 2) (.bytes b) .nil | none => .nil)
         | none => (match y with | some b => .cons (.nint 2) (.bytes b) .nil | none => .nil)))))

def toCLeaf : Leaf → Val → CItem
  | .uint _, .nat n => .uint n
  | .i32, .int i => cInt i
  | .bool, .bool b => .bool b
  | .unit, .unit => .null
  | .bytes _, .bytes b => .bytes b
  | .byteArray _, .bytes b => .bytes b
  | .str _, .text s => .text s
  | .enumStr ser _, .nat i => .text (ser.getD i [])
  | .enumRepr discs, .nat i => .uint (discs.getD i 0)
  | .coseEcdh, .record [x, y] => cCose .ecdh (optBytes x) (optBytes y)
  | .cosePub, .variant k (.record [x, y]) => cCose ((CoseKind.ofIdx k).getD .totp) (optBytes x) (optBytes y)
  | _, _ => .null

def cKeyIdx (off : Nat) : Nat → FieldInfo → CItem := fun i _ => .uint (off + i)
def cKeyTxt : Nat → FieldInfo → CItem := fun _ f => .text f.key

mutual
/-- the item a value *is*, read declaratively from the schema: each set member once, under its
    key, unset skipped members absent -/
def toC : Ty → Val → CItem
  | .leaf l, v => toCLeaf l v
  | .vec _ t, .list vs => .arr (CItems.ofList (vs.map (fun v => toC t v)))
  | .filtered _ _ _ lit elem, .list vs =>
      .arr (CItems.ofList (vs.map (fun v => toC elem (.record [some v, some (.text lit)]))))
  | .indexed off fs, .record s => .map (toCFields (cKeyIdx off) fs 0 s)
  | .text fs, .record s => .map (toCFields cKeyTxt fs 0 s)
  | .untagged alts, .variant i v => toCAlt alts i v
  | _, _ => .null
def toCFields (key : Nat → FieldInfo → CItem) : Fields → Nat → Slots → CPairs
  | .nil, _, _ => .nil
  | .cons f t rest, i, s =>
    if emits f.ser s.head?.join then
      .cons (key i f) (match s.head?.join with | some v => toC t v | none => .null) (toCFields key rest (i+1) s.tail)
    else toCFields key rest (i+1) s.tail
def toCAlt : Fields → Nat → Val → CItem
  | .nil, _, _ => .null
  | .cons _ t _, 0, v => toC t v
  | .cons _ _ rest, i+1, v => toCAlt rest i v
end

/-! ### E1: the serializer writes exactly `encC (toC t v)` -/

theorem encCs_ofList (xs : List CItem) : encCs (CItems.ofList xs) = (xs.map encC).flatten := by
  induction xs with
  | nil => rfl
  | cons x xs ih => simp [CItems.ofList, encCs, ih]

theorem ofList_length (xs : List CItem) : (CItems.ofList xs).length = xs.length := by
  induction xs with
  | nil => rfl
  | cons x xs ih => simp [CItems.ofList, CItems.length, ih]

theorem encInt_cInt (i : Int) : encInt i = encC (cInt i) := by
  unfold encInt cInt; split <;> rfl

theorem encC_cInt_labels : encC (cInt 1) = encHead 0 1 ∧ encC (cInt 3) = encHead 0 3 ∧
    encC (cInt (-1)) = encHead 1 0 ∧ encC (cInt (-2)) = encHead 1 1 ∧ encC (cInt (-3)) = encHead 1 2 := by
  refine ⟨?_, ?_, ?_, ?_, ?_⟩ <;> simp [cInt, encC]

theorem encCose_c (k : CoseKind) (x y : Option (List Byte)) : encCose k x y = encC (cCose k x y) := by
  obtain ⟨l1, l3, m1, m2, m3⟩ := encC_cInt_labels
  cases k <;> cases x <;> cases y <;>
    simp [encCose, cCose, CoseKind.consts, encC, encPs, CPairs.length, encInt_cInt, encBytes, l1, l3, m1, m2, m3]

/-- wide variants of `wtLeaf` used only here: the leaf value has the constructor the type expects
    (so that the encoder's catch-all `[]` branch is not taken) -/
theorem leaf_e1 (l : Leaf) (v : Val) (h : wtLeaf l v = true ∨ (l = .cosePub ∧ ∃ k x y, v = .variant k (.record [x, y]) ∧ (CoseKind.ofIdx k).isSome)) :
    encLeaf l v = encC (toCLeaf l v) := by
  rcases h with h | ⟨rfl, k, x, y, rfl, hk⟩
  · cases l <;> cases v <;> simp [wtLeaf] at h <;> try (simp [encLeaf, toCLeaf, encC, encInt_cInt, encBytes, encText]; done)
    all_goals first
      | (rename_i ser de i
         have hs : ser[i]? = some ser[i] := List.getElem?_eq_getElem h
         simp [encLeaf, toCLeaf, encC, hs, encText, List.getD, hs])
      | (rename_i discs i
         have hs : discs[i]? = some discs[i] := List.getElem?_eq_getElem h
         simp [encLeaf, toCLeaf, encC, hs, List.getD])
      | (rename_i slots
         match slots, h with
         | [some (.bytes x), some (.bytes y)], _ => simp [encLeaf, toCLeaf, encCose_c])
  · cases hk' : CoseKind.ofIdx k with
    | none => rw [hk'] at hk; cases hk
    | some kind => simp [encLeaf, toCLeaf, hk', encCose_c]

/-! ### serialisable values -/

mutual
/-- values the serializer can be handed (like `wt`, plus the encode-only types) -/
def wts : Ty → Val → Bool
  | .leaf .cosePub, .variant k (.record [x, y]) =>
      (CoseKind.ofIdx k).isSome &&
      (match x with | some (.bytes b) => decide (b.length ≤ 32) | none => true | _ => false) &&
      (match y with | some (.bytes b) => decide (b.length ≤ 32) | none => true | _ => false)
  | .leaf l, v => wtLeaf l v
  | .vec cap t, .list vs => decide (vs.length ≤ cap) && decide (vs.length < 4294967296) && vs.all (fun v => wts t v)
  | .filtered cap known _ lit elem, .list vs =>
      decide (vs.length ≤ cap) && decide (vs.length < 4294967296) &&
      vs.all (fun v => match v with | .int a => known.contains a | _ => false) &&
      vs.all (fun v => wts elem (.record [some v, some (.text lit)]))
  | .indexed _ fs, .record s => wtsFields fs s
  | .text fs, .record s => wtsFields fs s
  | .untagged alts, .variant i v => wtsAlt alts i v
  | _, _ => false
def wtsFields : Fields → Slots → Bool
  | .nil, s => s.isEmpty
  | .cons f t rest, s =>
    match s with
    | [] => false
    | o :: s' =>
      (match o with
       | none => !(f.ser == .always && f.required && f.mode == .plain)   -- such a member is not an `Option` in Rust
       | some v => f.ser != .never && wts t v) && wtsFields rest s'
def wtsAlt : Fields → Nat → Val → Bool
  | .nil, _, _ => false
  | .cons _ t _, 0, v => wts t v
  | .cons _ _ rest, i+1, v => wtsAlt rest i v
end

theorem leaf_e1' (l : Leaf) (v : Val) (h : wts (.leaf l) v = true) : encLeaf l v = encC (toCLeaf l v) := by
  cases l with
  | cosePub =>
    match v, h with
    | .variant k (.record [x, y]), h =>
      simp only [wts, Bool.and_eq_true] at h
      exact leaf_e1 .cosePub _ (Or.inr ⟨rfl, k, x, y, rfl, h.1.1⟩)
  | _ => exact leaf_e1 _ v (Or.inl (by simpa [wts] using h))

theorem countEmit_toC (ckey : Nat → FieldInfo → CItem) : ∀ (fs : Fields) (i : Nat) (s : Slots),
    countEmit fs s = (toCFields ckey fs i s).length
  | .nil, _, _ => rfl
  | .cons f t rest, i, s => by
      simp only [countEmit, toCFields]
      split
      · simp only [CPairs.length, ← countEmit_toC ckey rest (i+1) s.tail]; omega
      · simp only [← countEmit_toC ckey rest (i+1) s.tail]; omega

mutual
/-- **E1.** The serializer's output is the canonical encoding of the declarative item. -/
theorem e1 : ∀ (t : Ty) (v : Val), wts t v = true → encode t v = encC (toC t v)
  | .leaf l, v, h => by simp only [encode, toC]; exact leaf_e1' l v h
  | .vec cap t, .list vs, h => by
      simp only [wts, Bool.and_eq_true, List.all_eq_true] at h
      simp only [encode, toC, encC, encCs_ofList, ofList_length, List.length_map, List.map_map]
      congr 2
      apply List.map_congr_left
      intro v hv
      exact e1 t v (h.2 v hv)
  | .filtered cap known d lit elem, .list vs, h => by
      simp only [wts, Bool.and_eq_true, List.all_eq_true] at h
      simp only [encode, toC, encC, encCs_ofList, ofList_length, List.length_map, List.map_map]
      congr 2
      apply List.map_congr_left
      intro v hv
      exact e1 elem _ (h.2 v hv)
  | .indexed off fs, .record s, h => by
      simp only [wts] at h
      simp only [encode, toC, encC]
      rw [countEmit_toC (cKeyIdx off) fs 0 s, e1F (keyIdx off) (cKeyIdx off) (fun i f => rfl) fs 0 s h]
  | .text fs, .record s, h => by
      simp only [wts] at h
      simp only [encode, toC, encC]
      rw [countEmit_toC cKeyTxt fs 0 s, e1F keyTxt cKeyTxt (fun i f => rfl) fs 0 s h]
  | .untagged alts, .variant i v, h => by
      simp only [wts] at h
      simp only [encode, toC]
      exact e1A alts i v h
  | .vec _ _, .nat _, h | .vec _ _, .int _, h | .vec _ _, .bool _, h | .vec _ _, .unit, h
  | .vec _ _, .bytes _, h | .vec _ _, .text _, h | .vec _ _, .record _, h | .vec _ _, .variant _ _, h
  | .filtered _ _ _ _ _, .nat _, h | .filtered _ _ _ _ _, .int _, h | .filtered _ _ _ _ _, .bool _, h
  | .filtered _ _ _ _ _, .unit, h | .filtered _ _ _ _ _, .bytes _, h | .filtered _ _ _ _ _, .text _, h
  | .filtered _ _ _ _ _, .record _, h | .filtered _ _ _ _ _, .variant _ _, h
  | .indexed _ _, .nat _, h | .indexed _ _, .int _, h | .indexed _ _, .bool _, h | .indexed _ _, .unit, h
  | .indexed _ _, .bytes _, h | .indexed _ _, .text _, h | .indexed _ _, .list _, h | .indexed _ _, .variant _ _, h
  | .text _, .nat _, h | .text _, .int _, h | .text _, .bool _, h | .text _, .unit, h
  | .text _, .bytes _, h | .text _, .text _, h | .text _, .list _, h | .text _, .variant _ _, h
  | .untagged _, .nat _, h | .untagged _, .int _, h | .untagged _, .bool _, h | .untagged _, .unit, h
  | .untagged _, .bytes _, h | .untagged _, .text _, h | .untagged _, .list _, h | .untagged _, .record _, h => by
      simp [wts] at h
theorem e1F (key : Nat → FieldInfo → List Byte) (ckey : Nat → FieldInfo → CItem)
    (hk : ∀ i f, key i f = encC (ckey i f)) : ∀ (fs : Fields) (i : Nat) (s : Slots), wtsFields fs s = true →
    encFields key fs i s = encPs (toCFields ckey fs i s)
  | .nil, _, _, _ => rfl
  | .cons f t rest, i, s, h => by
      match s, h with
      | [], h => simp [wtsFields] at h
      | o :: s', h =>
        simp only [wtsFields, Bool.and_eq_true] at h
        simp only [encFields, toCFields, List.head?_cons, Option.join_some, List.tail_cons]
        by_cases hem : emits f.ser o = true
        · simp only [hem, if_true, encPs, hk, List.append_assoc]
          rw [e1F key ckey hk rest (i+1) s' h.2]
          cases o with
          | none => simp [encC]
          | some v =>
            have := h.1
            simp only [Bool.and_eq_true] at this
            simp only [e1 t v this.2]
        · simp only [hem, Bool.false_eq_true, if_false, List.nil_append]
          exact e1F key ckey hk rest (i+1) s' h.2
theorem e1A : ∀ (alts : Fields) (i : Nat) (v : Val), wtsAlt alts i v = true → encAlt alts i v = encC (toCAlt alts i v)
  | .nil, _, _, h => by simp [wtsAlt] at h
  | .cons _ t _, 0, v, h => by simp only [wtsAlt] at h; simp only [encAlt, toCAlt]; exact e1 t v h
  | .cons _ _ rest, i+1, v, h => by simp only [wtsAlt] at h; simp only [encAlt, toCAlt]; exact e1A rest i v h
end

/-! ### G-CANON -/

def lexLt : List Byte → List Byte → Bool
  | [], [] => false
  | [], _ :: _ => true
  | _ :: _, [] => false
  | a :: as, b :: bs => a.toNat < b.toNat || (a == b && lexLt as bs)

/-- CTAP2 canonical key order (CTAP 2.1 §8): lower major type first; within a major type the
    shorter encoding first, then bytewise.  For shortest-form unsigned / negative integer keys
    that is numeric order of the argument; for text keys it is (length, bytewise). -/
def keyLt : CItem → CItem → Bool
  | .uint a, .uint b => decide (a < b)
  | .uint _, _ => true
  | .nint _, .uint _ => false
  | .nint a, .nint b => decide (a < b)
  | .nint _, _ => true
  | .bytes _, .uint _ => false
  | .bytes _, .nint _ => false
  | .bytes a, .bytes b => decide (a.length < b.length) || (a.length == b.length && lexLt a b)
  | .bytes _, _ => true
  | .text _, .uint _ => false
  | .text _, .nint _ => false
  | .text _, .bytes _ => false
  | .text a, .text b => decide (a.length < b.length) || (a.length == b.length && lexLt a b)
  | .text _, _ => true
  | _, _ => false

/-- every key of `kvs` is greater than `k` -/
def allKeysGt (k : CItem) : CPairs → Bool
  | .nil => true
  | .cons k' _ rest => keyLt k k' && allKeysGt k rest

mutual
/-- CTAP2 canonical form of an item: arguments and lengths representable, keys strictly increasing
    (hence pairwise distinct) at every nesting level.  Definite lengths, shortest heads and the
    absence of tags / floats / undefined hold by construction of `CItem` and `encC`. -/
def canon : CItem → Bool
  | .uint n => decide (n < 18446744073709551616)
  | .nint n => decide (n < 18446744073709551616)
  | .bytes b => decide (b.length < 18446744073709551616)
  | .text b => decide (b.length < 18446744073709551616)
  | .bool _ => true
  | .null => true
  | .arr xs => decide (xs.length < 18446744073709551616) && canonL xs
  | .map kvs => decide (kvs.length < 18446744073709551616) && canonP kvs
def canonL : CItems → Bool
  | .nil => true
  | .cons x xs => canon x && canonL xs
def canonP : CPairs → Bool
  | .nil => true
  | .cons k v rest => canon k && canon v && allKeysGt k rest && canonP rest
end

/-- the declared keys after position `i` are all greater than `k` (serialisable members only) -/
def laterKeysGt (ckey : Nat → FieldInfo → CItem) (k : CItem) : Fields → Nat → Bool
  | .nil, _ => true
  | .cons f _ rest, i => (f.ser == .never || keyLt k (ckey i f)) && laterKeysGt ckey k rest (i + 1)

mutual
/-- **the schema-side condition**: in every struct, every *pair* of serialisable members is
    declared in canonical key order (pairwise ⇒ every subset is emitted sorted) -/
def sortedKeys : Ty → Bool
  | .leaf (.enumStr ser _) => ser.all (fun s => decide (s.length < 18446744073709551616))
  | .leaf (.enumRepr discs) => discs.all (fun d => decide (d < 18446744073709551616))
  | .leaf (.byteArray n) => decide (n < 18446744073709551616)
  | .leaf _ => true
  | .vec _ t => sortedKeys t
  | .filtered _ _ _ _ elem => sortedKeys elem
  | .indexed off fs => decide (off + fs.length < 18446744073709551616) && sortedFields (cKeyIdx off) fs 0
  | .text fs => decide (fs.length < 18446744073709551616) && sortedFields cKeyTxt fs 0
  | .untagged alts => sortedAlts alts
def sortedFields (ckey : Nat → FieldInfo → CItem) : Fields → Nat → Bool
  | .nil, _ => true
  | .cons f t rest, i =>
    (f.ser == .never || (laterKeysGt ckey (ckey i f) rest (i + 1) && canon (ckey i f) && sortedKeys t)) &&
    sortedFields ckey rest (i + 1)
def sortedAlts : Fields → Bool
  | .nil => true
  | .cons _ t rest => sortedKeys t && sortedAlts rest
end

theorem allKeysGt_toC (ckey : Nat → FieldInfo → CItem) (k : CItem) : ∀ (fs : Fields) (i : Nat) (s : Slots),
    laterKeysGt ckey k fs i = true → allKeysGt k (toCFields ckey fs i s) = true
  | .nil, _, _, _ => rfl
  | .cons f t rest, i, s, h => by
      simp only [laterKeysGt, Bool.and_eq_true, Bool.or_eq_true, beq_iff_eq] at h
      simp only [toCFields]
      by_cases hem : emits f.ser s.head?.join = true
      · simp only [hem, if_true, allKeysGt, Bool.and_eq_true]
        refine ⟨?_, allKeysGt_toC ckey k rest (i+1) s.tail h.2⟩
        rcases h.1 with hn | hk
        · rw [hn] at hem; simp [emits] at hem
        · exact hk
      · simp only [hem, Bool.false_eq_true, if_false]
        exact allKeysGt_toC ckey k rest (i+1) s.tail h.2

theorem canon_cInt (i : Int) (h : i32Range i = true) : canon (cInt i) = true := by
  simp only [i32Range, Bool.and_eq_true, decide_eq_true_eq] at h
  unfold cInt; split <;> simp [canon] <;> omega

theorem canon_cCose (k : CoseKind) (x y : Option (List Byte))
    (hx : ∀ b, x = some b → b.length ≤ 32) (hy : ∀ b, y = some b → b.length ≤ 32) :
    canon (cCose k x y) = true := by
  cases k <;> cases x <;> cases y <;>
    simp [cCose, CoseKind.consts, canon, canonP, allKeysGt, keyLt, cInt, CPairs.length] <;>
    (try (first | (have := hx _ rfl; have := hy _ rfl; omega) | (have := hx _ rfl; omega) | (have := hy _ rfl; omega)))

theorem toCFields_length_le (ckey : Nat → FieldInfo → CItem) : ∀ (fs : Fields) (i : Nat) (s : Slots),
    (toCFields ckey fs i s).length ≤ fs.length
  | .nil, _, _ => by simp [toCFields, CPairs.length, Fields.length]
  | .cons f t rest, i, s => by
      have := toCFields_length_le ckey rest (i+1) s.tail
      simp only [toCFields, Fields.length]
      split
      · simp only [CPairs.length]; omega
      · omega

theorem optBytes_bound (o : Option Val)
    (h : (match o with | some (.bytes b) => decide (b.length ≤ 32) | none => true | _ => false) = true)
    (b : List Byte) (hb : optBytes o = some b) : b.length ≤ 32 := by
  cases o with
  | none => simp [optBytes] at hb
  | some v =>
    cases v <;> simp [optBytes] at hb
    subst hb
    simpa using h

theorem canon_leaf (l : Leaf) (v : Val) (hs : sortedKeys (.leaf l) = true) (h : wts (.leaf l) v = true) :
    canon (toCLeaf l v) = true := by
  cases l with
  | cosePub =>
    match v, h with
    | .variant k (.record [x, y]), h =>
      simp only [wts, Bool.and_eq_true] at h
      simp only [toCLeaf]
      apply canon_cCose
      · intro b hb; exact optBytes_bound x h.1.2 b hb
      · intro b hb; exact optBytes_bound y h.2 b hb
  | uint w =>
    cases v <;> simp [wts, wtLeaf] at h
    have : w.bound ≤ 18446744073709551616 := by cases w <;> simp [IntW.bound]
    simp [toCLeaf, canon]; omega
  | i32 => cases v <;> simp [wts, wtLeaf] at h; exact canon_cInt _ h
  | bool => cases v <;> simp [wts, wtLeaf] at h; rfl
  | unit => cases v <;> simp [wts, wtLeaf] at h; rfl
  | bytes cap => cases v <;> simp [wts, wtLeaf] at h; simp [toCLeaf, canon]; omega
  | byteArray n => cases v <;> simp [wts, wtLeaf] at h; simp [toCLeaf, canon]; omega
  | str cap => cases v <;> simp [wts, wtLeaf] at h; simp [toCLeaf, canon]; omega
  | icon => cases v <;> simp [wts, wtLeaf] at h
  | enumStr ser de =>
    cases v <;> simp [wts, wtLeaf] at h
    rename_i i
    simp only [sortedKeys, List.all_eq_true, decide_eq_true_eq] at hs
    have hg : ser.getD i [] = ser[i] := by simp [List.getD, List.getElem?_eq_getElem h]
    simp only [toCLeaf, canon, hg, decide_eq_true_eq]
    exact hs _ (List.getElem_mem h)
  | enumRepr discs =>
    cases v <;> simp [wts, wtLeaf] at h
    rename_i i
    simp only [sortedKeys, List.all_eq_true, decide_eq_true_eq] at hs
    have hg : discs.getD i 0 = discs[i] := by simp [List.getD, List.getElem?_eq_getElem h]
    simp only [toCLeaf, canon, hg, decide_eq_true_eq]
    exact hs _ (List.getElem_mem h)
  | coseEcdh =>
    match v, h with
    | .record [some (.bytes x), some (.bytes y)], h =>
      simp only [wts, wtLeaf, Bool.and_eq_true, decide_eq_true_eq] at h
      simp only [toCLeaf, optBytes]
      apply canon_cCose
      · intro b hb; cases hb; exact h.1
      · intro b hb; cases hb; exact h.2
  | attFmtPref de cap => cases v <;> simp [wts, wtLeaf] at h

theorem canonL_ofList (xs : List CItem) (h : ∀ x ∈ xs, canon x = true) : canonL (CItems.ofList xs) = true := by
  induction xs with
  | nil => rfl
  | cons x xs ih => simp [CItems.ofList, canonL, h x (by simp), ih (fun y hy => h y (by simp [hy]))]

mutual
/-- **G-CANON.** If every pair of serialisable members of every struct of the schema is declared
    in canonical key order, then every serialisable value's item is canonical — for every subset of
    present members, at every nesting level. -/
theorem canon_toC : ∀ (t : Ty) (v : Val), sortedKeys t = true → wts t v = true → canon (toC t v) = true
  | .leaf l, v, hs, h => by simp only [toC]; exact canon_leaf l v hs h
  | .vec cap t, .list vs, hs, h => by
      simp only [sortedKeys] at hs
      simp only [wts, Bool.and_eq_true, List.all_eq_true, decide_eq_true_eq] at h
      simp only [toC, canon, ofList_length, List.length_map, Bool.and_eq_true, decide_eq_true_eq]
      refine ⟨by omega, canonL_ofList _ ?_⟩
      intro x hx
      simp only [List.mem_map] at hx
      obtain ⟨v, hv, rfl⟩ := hx
      exact canon_toC t v hs (h.2 v hv)
  | .filtered cap known d lit elem, .list vs, hs, h => by
      simp only [sortedKeys] at hs
      simp only [wts, Bool.and_eq_true, List.all_eq_true, decide_eq_true_eq] at h
      simp only [toC, canon, ofList_length, List.length_map, Bool.and_eq_true, decide_eq_true_eq]
      refine ⟨by omega, canonL_ofList _ ?_⟩
      intro x hx
      simp only [List.mem_map] at hx
      obtain ⟨v, hv, rfl⟩ := hx
      exact canon_toC elem _ hs (h.2 v hv)
  | .indexed off fs, .record s, hs, h => by
      simp only [sortedKeys, Bool.and_eq_true, decide_eq_true_eq] at hs
      simp only [wts] at h
      have := toCFields_length_le (cKeyIdx off) fs 0 s
      simp only [toC, canon, Bool.and_eq_true, decide_eq_true_eq]
      exact ⟨by omega, canonF (cKeyIdx off) fs 0 s hs.2 h⟩
  | .text fs, .record s, hs, h => by
      simp only [sortedKeys, Bool.and_eq_true, decide_eq_true_eq] at hs
      simp only [wts] at h
      have := toCFields_length_le cKeyTxt fs 0 s
      simp only [toC, canon, Bool.and_eq_true, decide_eq_true_eq]
      exact ⟨by omega, canonF cKeyTxt fs 0 s hs.2 h⟩
  | .untagged alts, .variant i v, hs, h => by
      simp only [sortedKeys] at hs
      simp only [wts] at h
      simp only [toC]
      exact canonA alts i v hs h
  | .vec _ _, .nat _, _, h | .vec _ _, .int _, _, h | .vec _ _, .bool _, _, h | .vec _ _, .unit, _, h
  | .vec _ _, .bytes _, _, h | .vec _ _, .text _, _, h | .vec _ _, .record _, _, h | .vec _ _, .variant _ _, _, h
  | .filtered _ _ _ _ _, .nat _, _, h | .filtered _ _ _ _ _, .int _, _, h | .filtered _ _ _ _ _, .bool _, _, h
  | .filtered _ _ _ _ _, .unit, _, h | .filtered _ _ _ _ _, .bytes _, _, h | .filtered _ _ _ _ _, .text _, _, h
  | .filtered _ _ _ _ _, .record _, _, h | .filtered _ _ _ _ _, .variant _ _, _, h
  | .indexed _ _, .nat _, _, h | .indexed _ _, .int _, _, h | .indexed _ _, .bool _, _, h | .indexed _ _, .unit, _, h
  | .indexed _ _, .bytes _, _, h | .indexed _ _, .text _, _, h | .indexed _ _, .list _, _, h | .indexed _ _, .variant _ _, _, h
  | .text _, .nat _, _, h | .text _, .int _, _, h | .text _, .bool _, _, h | .text _, .unit, _, h
  | .text _, .bytes _, _, h | .text _, .text _, _, h | .text _, .list _, _, h | .text _, .variant _ _, _, h
  | .untagged _, .nat _, _, h | .untagged _, .int _, _, h | .untagged _, .bool _, _, h | .untagged _, .unit, _, h
  | .untagged _, .bytes _, _, h | .untagged _, .text _, _, h | .untagged _, .list _, _, h | .untagged _, .record _, _, h => by
      simp [wts] at h
theorem canonF (ckey : Nat → FieldInfo → CItem) : ∀ (fs : Fields) (i : Nat) (s : Slots),
    sortedFields ckey fs i = true → wtsFields fs s = true → canonP (toCFields ckey fs i s) = true
  | .nil, _, _, _, _ => rfl
  | .cons f t rest, i, s, hs, h => by
      match s, h with
      | [], h => simp [wtsFields] at h
      | o :: s', h =>
        simp only [wtsFields, Bool.and_eq_true] at h
        simp only [sortedFields, Bool.and_eq_true, Bool.or_eq_true, beq_iff_eq] at hs
        simp only [toCFields, List.head?_cons, Option.join_some, List.tail_cons]
        by_cases hem : emits f.ser o = true
        · simp only [hem, if_true, canonP, Bool.and_eq_true]
          have hne : f.ser ≠ .never := by intro hn; rw [hn] at hem; simp [emits] at hem
          rcases hs.1 with hn | hk
          · exact absurd hn hne
          · refine ⟨⟨⟨hk.1.2, ?_⟩, allKeysGt_toC ckey _ rest (i+1) s' hk.1.1⟩, canonF ckey rest (i+1) s' hs.2 h.2⟩
            cases o with
            | none => rfl
            | some v =>
              have := h.1
              simp only [Bool.and_eq_true] at this
              exact canon_toC t v hk.2 this.2
        · simp only [hem, Bool.false_eq_true, if_false]
          exact canonF ckey rest (i+1) s' hs.2 h.2
theorem canonA : ∀ (alts : Fields) (i : Nat) (v : Val), sortedAlts alts = true → wtsAlt alts i v = true →
    canon (toCAlt alts i v) = true
  | .nil, _, _, _, h => by simp [wtsAlt] at h
  | .cons _ t _, 0, v, hs, h => by
      simp only [sortedAlts, Bool.and_eq_true] at hs; simp only [wtsAlt] at h; simp only [toCAlt]
      exact canon_toC t v hs.1 h
  | .cons _ _ rest, i+1, v, hs, h => by
      simp only [sortedAlts, Bool.and_eq_true] at hs; simp only [wtsAlt] at h; simp only [toCAlt]
      exact canonA rest i v hs.2 h
end
