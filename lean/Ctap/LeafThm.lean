import Ctap.Decode
import Ctap.HeadThm
/-
  Round-trip lemmas for the leaf readers (`decText`, `decBytes`, integers, tables): G-TABLE and
  the leaf half of G-RT / G-CAP.
-/

theorem takeN_append (s r : Input) : takeN s.length (s ++ r) = .ok (s, r) := by
  simp [takeN]

theorem takeN_short (n : Nat) (inp : Input) (h : inp.length < n) : takeN n inp = .error .other := by
  simp [takeN, h]

/-- `deserialize_str` on the encoding of a text: accepted unchanged iff it is well-formed UTF-8 -/
theorem decText_encText (s r : Input) (hl : s.length < 4294967296) :
    decText (encText s ++ r) = if validUtf8 s then .ok (s, r) else .error .other := by
  simp only [decText, encText, List.append_assoc]
  rw [decHead32_encHead 3 _ _ (by omega) hl]
  simp only [takeN_append]

theorem decBytes_encBytes (b r : Input) (hl : b.length < 4294967296) :
    decBytes (encBytes b ++ r) = .ok (b, r) := by
  simp only [decBytes, encBytes, List.append_assoc]
  rw [decHead32_encHead 2 _ _ (by omega) hl]
  simp only [takeN_append]

/-! ### string tables (G-TABLE) -/

theorem lookupStr_zip_range' (names : List (List Byte)) (hnd : names.Nodup) (k : Nat) (s : List Byte) (i : Nat) :
    lookupStr (names.zip (List.range' k names.length)) s = some i ↔ (k ≤ i ∧ names[i - k]? = some s) := by
  induction names generalizing k with
  | nil => simp [lookupStr]
  | cons a rest ih =>
    simp only [List.length_cons, List.range'_succ, List.zip_cons_cons, lookupStr]
    have hnd' := (List.nodup_cons.mp hnd)
    by_cases ha : a = s
    · subst ha
      simp only [if_true, Option.some.injEq]
      constructor
      · intro h; subst h; simp
      · rintro ⟨hk, hget⟩
        rcases Nat.lt_or_ge k i with hlt | hge
        · exfalso
          have : i - k = (i - k - 1) + 1 := by omega
          rw [this, List.getElem?_cons_succ] at hget
          exact hnd'.1 (List.mem_of_getElem? hget)
        · omega
    · simp only [ha, if_false]
      rw [ih hnd'.2 (k+1)]
      constructor
      · rintro ⟨hk, hget⟩
        refine ⟨by omega, ?_⟩
        have : i - k = (i - (k+1)) + 1 := by omega
        rw [this, List.getElem?_cons_succ]; exact hget
      · rintro ⟨hk, hget⟩
        rcases Nat.lt_or_ge k i with hlt | hge
        · refine ⟨by omega, ?_⟩
          have : i - k = (i - (k+1)) + 1 := by omega
          rw [this, List.getElem?_cons_succ] at hget; exact hget
        · have : i - k = 0 := by omega
          rw [this] at hget; simp at hget; exact absurd hget ha

/-- a string table with pairwise distinct spellings: `s` maps to variant `i` iff `s` is exactly the
    `i`-th spelling — so every other string (case variants, prefixes, extensions, …) is refused -/
theorem lookupStr_zip_range (names : List (List Byte)) (hnd : names.Nodup) (s : List Byte) (i : Nat) :
    lookupStr (names.zip (List.range names.length)) s = some i ↔ names[i]? = some s := by
  rw [List.range_eq_range', lookupStr_zip_range' names hnd 0 s i]
  simp

theorem lookupStr_none_of_not_mem (names : List (List Byte)) (hnd : names.Nodup) (s : List Byte)
    (h : s ∉ names) : lookupStr (names.zip (List.range names.length)) s = none := by
  cases hl : lookupStr (names.zip (List.range names.length)) s with
  | none => rfl
  | some i =>
    have := (lookupStr_zip_range names hnd s i).mp hl
    exact absurd (List.mem_of_getElem? this) h

/-- number tables: `indexOf discs n = some i ↔ discs[i] = n` for pairwise distinct discriminants -/
theorem indexOf_iff (discs : List Nat) (hnd : discs.Nodup) (n i : Nat) :
    indexOf discs n = some i ↔ discs[i]? = some n := by
  induction discs generalizing i with
  | nil => simp [indexOf]
  | cons a rest ih =>
    have hnd' := List.nodup_cons.mp hnd
    simp only [indexOf]
    by_cases ha : a = n
    · subst ha
      simp only [if_true, Option.some.injEq]
      constructor
      · intro h; subst h; simp
      · intro h
        cases i with
        | zero => rfl
        | succ j =>
          simp at h
          exact absurd (List.mem_of_getElem? h) hnd'.1
    · simp only [ha, if_false, Option.map_eq_some_iff]
      constructor
      · rintro ⟨j, hj, rfl⟩
        simp; exact (ih hnd'.2 j).mp hj
      · intro h
        cases i with
        | zero => simp at h; exact absurd h ha
        | succ j =>
          simp at h
          exact ⟨j, (ih hnd'.2 j).mpr h, rfl⟩
