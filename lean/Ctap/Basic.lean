/-
  Basic byte-level definitions shared by every model: big-endian integers, CBOR heads as
  written by `cbor-smol` 0.5.1 `ser.rs` (`write_u8/u16/u32/u64`) and as read by `de.rs`
  (`raw_deserialize_u8/u32/u64`).  Import-free (core Lean only) so the driver links.
-/

abbrev Byte := UInt8
abbrev Input := List Byte

/-- The only distinction `From<CtapMappingError> for Error` keeps:
    `SerdeMissingField` (→ 0x14) versus every other cbor-smol error (→ 0x12). -/
inductive DErr
  | missing
  | other
  | panic      -- a panic / undefined-behaviour site of the implementation was reached
  deriving DecidableEq, Repr

abbrev Res (α : Type) := Except DErr (α × Input)

/-- `k`-byte big-endian representation of `n` (high bytes first). -/
def be : Nat → Nat → List Byte
  | 0, _ => []
  | k+1, n => UInt8.ofNat (n / 256 ^ k) :: be k (n % 256 ^ k)

/-- read a `k`-byte big-endian number from the front of the input -/
def readBE : Nat → Input → Option (Nat × Input)
  | 0, inp => some (0, inp)
  | k+1, b :: rest => match readBE k rest with
      | some (v, r) => some (b.toNat * 256 ^ k + v, r)
      | none => none
  | _+1, [] => none

/-- shortest-form CBOR head for major type `major` and argument `n` (cbor-smol `write_u64`) -/
def encHead (major n : Nat) : List Byte :=
  let m := major * 32
  if n < 24 then [UInt8.ofNat (m + n)]
  else if n < 256 then UInt8.ofNat (m + 24) :: be 1 n
  else if n < 65536 then UInt8.ofNat (m + 25) :: be 2 n
  else if n < 4294967296 then UInt8.ofNat (m + 26) :: be 4 n
  else UInt8.ofNat (m + 27) :: be 8 n

/-- read a `k`-byte argument and reject it when it would have fitted a shorter head -/
def readArg (k lo : Nat) (rest : Input) : Res Nat :=
  match readBE k rest with
  | none => .error .other
  | some (v, r) => if v < lo then .error .other else .ok (v, r)

/-- `raw_deserialize_u8/u32/u64(major)`: `maxAi` = 24, 26 or 27 is the largest additional-info
    value the reader understands.  Wrong major, non-minimal, indefinite (31), reserved (28–30)
    and too-wide arguments are all rejected. -/
def decHead (maxAi major : Nat) : Input → Res Nat
  | [] => .error .other
  | b :: rest =>
    if b.toNat / 32 ≠ major then .error .other else
    let a := b.toNat % 32
    if a < 24 then .ok (a, rest)
    else if a > maxAi then .error .other
    else if a = 24 then readArg 1 24 rest
    else if a = 25 then readArg 2 256 rest
    else if a = 26 then readArg 4 65536 rest
    else if a = 27 then readArg 8 4294967296 rest
    else .error .other

abbrev decHead8 := decHead 24
abbrev decHead32 := decHead 26
abbrev decHead64 := decHead 27

/-- take exactly `n` bytes (`try_take_n`) -/
def takeN (n : Nat) (inp : Input) : Res (List Byte) :=
  if inp.length < n then .error .other else .ok (inp.take n, inp.drop n)

/-! ### UTF-8 validity (`core::str::from_utf8`, Unicode table 3-7) -/

def isCont (b : Byte) : Bool := 0x80 ≤ b && b ≤ 0xBF

/-- second byte of a 3-byte scalar: excludes overlong forms (E0) and surrogates (ED) -/
def second3 (b0 b1 : Byte) : Bool :=
  if b0 = 0xE0 then 0xA0 ≤ b1 && b1 ≤ 0xBF
  else if b0 = 0xED then 0x80 ≤ b1 && b1 ≤ 0x9F
  else isCont b1

/-- second byte of a 4-byte scalar: excludes overlong forms (F0) and values above U+10FFFF (F4) -/
def second4 (b0 b1 : Byte) : Bool :=
  if b0 = 0xF0 then 0x90 ≤ b1 && b1 ≤ 0xBF
  else if b0 = 0xF4 then 0x80 ≤ b1 && b1 ≤ 0x8F
  else isCont b1

/-- well-formed UTF-8 byte sequences exactly as accepted by Rust's `from_utf8`:
    no overlong forms, no surrogates, nothing above U+10FFFF -/
def validUtf8 : List Byte → Bool
  | [] => true
  | b0 :: rest =>
    if b0 < 0x80 then validUtf8 rest
    else if 0xC2 ≤ b0 && b0 ≤ 0xDF then
      match rest with
      | b1 :: r => isCont b1 && validUtf8 r
      | _ => false
    else if 0xE0 ≤ b0 && b0 ≤ 0xEF then
      match rest with
      | b1 :: b2 :: r =>
        second3 b0 b1 && isCont b2 && validUtf8 r
      | _ => false
    else if 0xF0 ≤ b0 && b0 ≤ 0xF4 then
      match rest with
      | b1 :: b2 :: b3 :: r =>
        second4 b0 b1 && isCont b2 && isCont b3 && validUtf8 r
      | _ => false
    else false

/-- hex helpers for the driver -/
def hexDigit (n : Nat) : Char :=
  if n < 10 then Char.ofNat (48 + n) else Char.ofNat (87 + n)

def toHex (bs : List Byte) : String :=
  String.ofList (bs.flatMap fun b => [hexDigit (b.toNat / 16), hexDigit (b.toNat % 16)])

def hexVal (c : Char) : Option Nat :=
  if '0' ≤ c ∧ c ≤ '9' then some (c.toNat - 48)
  else if 'a' ≤ c ∧ c ≤ 'f' then some (c.toNat - 87)
  else if 'A' ≤ c ∧ c ≤ 'F' then some (c.toNat - 55)
  else none

def fromHexChars : List Char → Option (List Byte)
  | [] => some []
  | [_] => none
  | a :: b :: rest => do
    let x ← hexVal a
    let y ← hexVal b
    let r ← fromHexChars rest
    pure (UInt8.ofNat (x * 16 + y) :: r)

def fromHex (s : String) : Option (List Byte) :=
  if s = "-" then some [] else fromHexChars s.toList
