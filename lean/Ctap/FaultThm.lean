import Ctap.LoopThm
/-
  Fault lemmas behind C05 / C12: which status a given fault produces, at the reader where it
  occurs, and how it propagates outwards (first fault wins; `missing` only from a completed map
  that lacks a required member).
-/

/-! ### lifting a member reader's verdict to the struct member -/

theorem failsWith_of_decode (f : FieldInfo) (t : Ty) (b : List Byte) (e : DErr)
    (hd : ∀ x, decode t (b ++ x) = .error e)
    (hnull : f.mode.acceptsNull = true → ∀ x, (b ++ x).head? ≠ some 0xf6) : FailsWith f t b e := by
  intro i x cur hun
  unfold fieldValue
  rw [hun]
  simp only [Bool.false_eq_true, if_false]
  have hnn : (f.mode.acceptsNull && decide ((b ++ x).head? = some 0xf6)) = false := by
    by_cases ha : f.mode.acceptsNull = true
    · have := hnull ha x
      simp only [ha, Bool.true_and, decide_eq_false_iff_not]
      exact this
    · simp [ha]
  rw [if_neg (by rw [hnn]; simp), hd x]

theorem readsAs_of_decode (f : FieldInfo) (t : Ty) (b : List Byte) (v : Val)
    (hd : ∀ x, decode t (b ++ x) = .ok (v, x)) (hm : f.mode.apply v = .ok (some v))
    (hnull : f.mode.acceptsNull = true → ∀ x, (b ++ x).head? ≠ some 0xf6) : ReadsAs f t b (some v) := by
  intro i x cur hun
  unfold fieldValue
  rw [hun]
  simp only [Bool.false_eq_true, if_false]
  have hnn : (f.mode.acceptsNull && decide ((b ++ x).head? = some 0xf6)) = false := by
    by_cases ha : f.mode.acceptsNull = true
    · have := hnull ha x
      simp only [ha, Bool.true_and, decide_eq_false_iff_not]
      exact this
    · simp [ha]
  rw [if_neg (by rw [hnn]; simp), hd x]
  simp only [hm]

/-- a failing member makes the enclosing loop step fail with the same error -/
theorem oneStep_fails {κ : Type} (readKey : Input → Res κ) (entry : κ → Input → DSlots → Res DSlots)
    (key : Nat → FieldInfo → List Byte) (kOf : Nat → FieldInfo → κ) (i : Nat) (f : FieldInfo) (t : Ty)
    (hkey : ∀ x, readKey (key i f ++ x) = .ok (kOf i f, x))
    (hentry : ∀ inp s, entry (kOf i f) inp s = fieldValue (fun x => decode t x) f i inp s)
    (bytes junk : List Byte) (e : DErr) (hf : FailsWith f t bytes e) (s : DSlots) (hun : slotSeen s i = false) :
    oneStep readKey entry ((key i f ++ bytes) ++ junk) s = .error e := by
  simp only [List.append_assoc, oneStep, hkey, hentry]
  exact hf i junk s hun

/-- a repeated member: `duplicate_field` ⇒ other -/
theorem oneStep_dup {κ : Type} (readKey : Input → Res κ) (entry : κ → Input → DSlots → Res DSlots)
    (key : Nat → FieldInfo → List Byte) (kOf : Nat → FieldInfo → κ) (i : Nat) (f : FieldInfo) (t : Ty)
    (hkey : ∀ x, readKey (key i f ++ x) = .ok (kOf i f, x))
    (hentry : ∀ inp s, entry (kOf i f) inp s = fieldValue (fun x => decode t x) f i inp s)
    (junk : List Byte) (s : DSlots) (hseen : slotSeen s i = true) :
    oneStep readKey entry (key i f ++ junk) s = .error .other := by
  simp only [oneStep, hkey, hentry]
  exact fieldValue_dup _ f i junk s hseen

/-! ### a completed map lacking a required member ⇒ missing -/

theorem requiredOk_false : ∀ (fs : Fields) (j i : Nat) (f : FieldInfo) (t : Ty) (s : DSlots),
    fs.nth i = some (f, t) → f.required = true → slotSeen (List.replicate j none ++ s) (j + i) = false →
    requiredOk fs s = false
  | .nil, _, _, _, _, _, h, _, _ => by simp [Fields.nth] at h
  | .cons f' t' rest, j, 0, f, t, s, h, hr, hs => by
      simp only [Fields.nth, Option.some.injEq, Prod.mk.injEq] at h
      obtain ⟨rfl, rfl⟩ := h
      have : (s.head?.join).isSome = false := by
        simp only [slotSeen, Nat.add_zero] at hs
        rw [List.getElem?_append_right (by simp)] at hs
        simp only [List.length_replicate, Nat.sub_self] at hs
        cases s with
        | nil => rfl
        | cons a _ =>
          cases a with
          | none => rfl
          | some _ => simp at hs
      simp [requiredOk, hr, this]
  | .cons f' t' rest, j, i+1, f, t, s, h, hr, hs => by
      simp only [Fields.nth] at h
      have hs' : slotSeen (List.replicate (j+1) none ++ s.tail) (j + 1 + i) = false := by
        simp only [slotSeen] at hs ⊢
        rw [List.getElem?_append_right (by simp)] at hs
        rw [List.getElem?_append_right (by simp)]
        simp only [List.length_replicate] at hs ⊢
        have e1 : j + (i + 1) - j = i + 1 := by omega
        have e2 : j + 1 + i - (j + 1) = i := by omega
        rw [e1] at hs; rw [e2]
        cases s with
        | nil => simp
        | cons a tl => simpa using hs
      have := requiredOk_false rest (j+1) i f t s.tail h hr hs'
      simp [requiredOk, this]

/-! ### heads: non-minimal, indefinite and reserved forms are refused by every reader -/

/-- additional info 28–31 (reserved / indefinite length / break) -/
theorem decHead_reserved (maxAi m : Nat) (b : Byte) (rest : Input) (hm : b.toNat / 32 = m)
    (hai : 28 ≤ b.toNat % 32) (hmax : maxAi ≤ 27) : decHead maxAi m (b :: rest) = .error .other := by
  simp only [decHead, hm]
  simp
  rw [if_neg (by omega), if_pos (by omega)]

/-- a 1-byte argument below 24, a 2-byte argument below 256, a 4-byte argument below 65536 and an
    8-byte argument below 2^32 are non-minimal: refused -/
theorem readArg_nonminimal (k lo n : Nat) (r : Input) (hn : n < 256 ^ k) (hlo : n < lo) :
    readArg k lo (be k n ++ r) = .error .other := by
  simp [readArg, readBE_be k n r hn, hlo]
