import Ctap.Basic
/-
  Hand model of `src/webauthn.rs`: `is_utf8_char_boundary`, `floor_char_boundary`, `truncate`.
  The `unsafe { unwrap_unchecked() }` site and the two panic-capable sites (`&s[..split]`,
  `push_str(..).unwrap()`) are explicit outcomes, not totalised away.
-/

/-- `(b as i8) >= -0x40`, i.e. `b < 128 || b >= 192` -/
def isBoundaryByte (b : Byte) : Bool := b < 0x80 || 0xC0 ≤ b

/-- `Iterator::rposition`: index of the last element satisfying `p` -/
def rposition (p : Byte → Bool) : List Byte → Option Nat
  | [] => none
  | b :: rest => match rposition p rest with
      | some i => some (i + 1)
      | none => if p b then some 0 else none

inductive Outcome (α : Type)
  | ret (a : α)
  | panic            -- a reachable `unwrap()` / slice-index / `str` slicing panic
  | ub               -- `unwrap_unchecked()` on `None`
  deriving DecidableEq, Repr

/-- `floor_char_boundary(s, index)` with the scan window `win` (`index.saturating_sub(win)`;
    the source has `win = 3`) -/
def floorCharBoundary (win : Nat) (s : List Byte) (index : Nat) : Outcome Nat :=
  if index ≥ s.length then .ret s.length
  else
    let lower := index - win
    match rposition isBoundaryByte ((s.drop lower).take (index + 1 - lower)) with
    | some i => .ret (lower + i)
    | none => .ub

/-- `str::is_char_boundary(i)` on the bytes of a `str` -/
def isCharBoundaryAt (s : List Byte) (i : Nat) : Bool :=
  if i = 0 then true
  else if i = s.length then true
  else match s[i]? with
    | some b => isBoundaryByte b
    | none => false

/-- `truncate::<L>(s)` -/
def truncateStr (cap win : Nat) (s : List Byte) : Outcome (List Byte) :=
  match floorCharBoundary win s cap with
  | .ret split =>
    if !isCharBoundaryAt s split then .panic            -- `&s[..split]`
    else if split > cap then .panic                     -- `push_str(..).unwrap()`
    else .ret (s.take split)
  | .panic => .panic
  | .ub => .ub
