import Ctap.Decode
/-
  C14's list lemmas: the two filtering `visit_seq` loops compute "first `cap` of the matching
  entries, in order", for lists of any length, and never fail because of non-matching entries.
-/

theorem pushCap_take (cap : Nat) (acc : List Val) (v : Val) (h : acc.length ≤ cap) :
    pushCap cap acc v = (acc ++ [v]).take cap := by
  unfold pushCap
  by_cases hlt : acc.length < cap
  · rw [if_pos hlt, List.take_of_length_le (by simp; omega)]
  · rw [if_neg hlt, List.take_append_of_le_length (by omega), List.take_of_length_le (by omega)]

theorem filterFold_eq (cap : Nat) (known : List Int) (lit : List Byte) (vs acc : List Val)
    (h : acc.length ≤ cap) :
    filterFold cap known lit vs acc = (acc ++ vs.filterMap (filterParam known lit)).take cap := by
  induction vs generalizing acc with
  | nil => simp [filterFold, List.take_of_length_le h]
  | cons v rest ih =>
    simp only [filterFold, List.filterMap_cons]
    cases hf : filterParam known lit v with
    | none => simp only []; exact ih acc h
    | some el =>
      simp only []
      have hp : (pushCap cap acc el).length ≤ cap := by
        rw [pushCap_take cap acc el h]; simp [List.length_take]; omega
      rw [ih _ hp, pushCap_take cap acc el h]
      -- take cap (take cap (acc ++ [el]) ++ tail) = take cap (acc ++ el :: tail)
      by_cases hlt : acc.length < cap
      · have e : (acc ++ [el]).take cap = acc ++ [el] := List.take_of_length_le (by simp; omega)
        rw [e]; simp
      · have hge : cap ≤ acc.length := by omega
        have e1 : (acc ++ [el]).take cap = acc.take cap := List.take_append_of_le_length hge
        have e2 : (acc ++ el :: List.filterMap (filterParam known lit) rest).take cap = acc.take cap :=
          List.take_append_of_le_length hge
        have e3 : (acc.take cap ++ List.filterMap (filterParam known lit) rest).take cap = acc.take cap := by
          rw [List.take_append_of_le_length (by simp [List.length_take]; omega), List.take_take, Nat.min_self]
        rw [e1, e2, e3]

/-- the filtered parameter list is the first `cap` matching entries in the platform's order -/
theorem filterFold_spec (cap : Nat) (known : List Int) (lit : List Byte) (vs : List Val) :
    filterFold cap known lit vs [] = (vs.filterMap (filterParam known lit)).take cap := by
  simpa using filterFold_eq cap known lit vs [] (by simp)

/-- attestation-format preference over the decoded texts: the generic loop on a list of
    (already decoded) classification results -/
def attFmtFold (cap : Nat) : List (Option Nat) → List Val → Bool → List Val × Bool
  | [], known, unk => (known, unk)
  | some i :: rest, known, unk => attFmtFold cap rest (if known.length < cap then known ++ [.nat i] else known) unk
  | none :: rest, known, unk => attFmtFold cap rest known true

theorem attFmtFold_eq (cap : Nat) (cs : List (Option Nat)) (known : List Val) (unk : Bool)
    (h : known.length ≤ cap) :
    attFmtFold cap cs known unk =
      ((known ++ cs.filterMap (fun c => c.map Val.nat)).take cap, unk || cs.any Option.isNone) := by
  induction cs generalizing known unk with
  | nil => simp [attFmtFold, List.take_of_length_le h]
  | cons c rest ih =>
    cases c with
    | none =>
      simp only [attFmtFold, List.filterMap_cons, Option.map_none, List.any_cons, Option.isNone_none]
      rw [ih known true h]; simp
    | some i =>
      simp only [attFmtFold, List.filterMap_cons, Option.map_some, List.any_cons, Option.isNone_some,
        Bool.false_or]
      by_cases hlt : known.length < cap
      · rw [if_pos hlt, ih _ unk (by simp; omega)]; simp
      · rw [if_neg hlt, ih _ unk h]
        have hge : cap ≤ known.length := by omega
        rw [List.take_append_of_le_length hge, List.take_append_of_le_length hge]
