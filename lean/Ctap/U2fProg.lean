import Ctap.Ctap1
/-
  `impl TryFrom<CommandView> for ctap1::Request` as a *program* the translator reads off the
  source: guards with early returns, the control-byte conversion, the indexed length byte, a
  `match ins` with one arm per instruction, and the slices each request is built from — with an
  interpreter in which every indexing / slicing / `try_into().unwrap()` is an explicit outcome.
  `Props/C08.lean` checks per run that the program read from the source is the specified one and
  proves that the interpreter on the specified program is the hand model `ctap1Parse`.
-/

inductive PCond
  | claNe (n : Nat)               -- `cla != n`
  | insEq (n : Nat)               -- `ins == n`
  | lenNe (n : Nat)               -- `request.len() != n`
  | lenLt (n : Nat)               -- `request.len() < n`
  | lenNeBasePlusVar (base : Nat) -- `request.len() != base + key_handle_length`
  deriving DecidableEq, Repr

inductive PSlice
  | arr32 (lo : Nat) (hi : Option Nat)   -- `(&request[lo..hi]).try_into().unwrap()` at `[u8; 32]`
  | tail (lo : Nat)                      -- `&request[lo..]`
  deriving DecidableEq, Repr

inductive PFinal
  | version
  | register (challenge app : PSlice)
  | authenticate (challenge app keyHandle : PSlice)
  | err (e : U2fErr)
  deriving DecidableEq, Repr

inductive PStep
  | guardErr (c : PCond) (e : U2fErr)    -- `if c { return Err(e); }`
  | guardVersion (c : PCond)             -- `if c { return Ok(Request::Version); }`
  | control                              -- `let control_byte = ControlByte::try_from(p1)?;`
  | bindIdx (i : Nat)                    -- `let key_handle_length = request[i] as usize;`
  deriving DecidableEq, Repr

structure PProgram where
  pre : List PStep                       -- before `match ins`
  arms : List (Nat × List PStep × PFinal)
  default : PFinal
  deriving DecidableEq, Repr

structure PState where
  cb : Option Nat := none
  khl : Option Nat := none

abbrev POut := Outcome (Except U2fErr U2fReq)

def evalCond (cla ins : Nat) (data : List Byte) (st : PState) : PCond → Option Bool
  | .claNe n => some (decide (cla ≠ n))
  | .insEq n => some (decide (ins = n))
  | .lenNe n => some (decide (data.length ≠ n))
  | .lenLt n => some (decide (data.length < n))
  | .lenNeBasePlusVar b => st.khl.map (fun k => decide (data.length ≠ b + k))

/-- `&request[lo..hi]` / `&request[lo..]`: out-of-range is a panic -/
def sliceOf (data : List Byte) (lo : Nat) (hi : Option Nat) : Option (List Byte) :=
  match hi with
  | some h => if lo ≤ h ∧ h ≤ data.length then some ((data.drop lo).take (h - lo)) else none
  | none => if lo ≤ data.length then some (data.drop lo) else none

def evalSlice (data : List Byte) : PSlice → Outcome (List Byte)
  | .arr32 lo hi => match sliceOf data lo hi with | some s => toArray32 s | none => .panic
  | .tail lo => match sliceOf data lo none with | some s => .ret s | none => .panic

def evalFinal (data : List Byte) (st : PState) : PFinal → POut
  | .version => .ret (.ok .version)
  | .err e => .ret (.error e)
  | .register c a =>
    match evalSlice data c, evalSlice data a with
    | .ret c', .ret a' => .ret (.ok (.register c' a'))
    | _, _ => .panic
  | .authenticate c a kh =>
    match st.cb with
    | none => .panic
    | some cb =>
      match evalSlice data c, evalSlice data a, evalSlice data kh with
      | .ret c', .ret a', .ret k' => .ret (.ok (.authenticate cb c' a' k'))
      | _, _, _ => .panic

/-- run guards / bindings; `inl out` = returned early, `inr st` = fell through -/
def runPSteps (tbl : List (Nat × Nat × Option Nat)) (cla ins p1 : Nat) (data : List Byte) :
    List PStep → PState → Sum POut PState
  | [], st => .inr st
  | .guardErr c e :: rest, st =>
    match evalCond cla ins data st c with
    | none => .inl .panic
    | some true => .inl (.ret (.error e))
    | some false => runPSteps tbl cla ins p1 data rest st
  | .guardVersion c :: rest, st =>
    match evalCond cla ins data st c with
    | none => .inl .panic
    | some true => .inl (.ret (.ok .version))
    | some false => runPSteps tbl cla ins p1 data rest st
  | .control :: rest, st =>
    match (tbl.find? (fun (lo, hi, _) => lo ≤ p1 ∧ p1 ≤ hi)).bind (·.2.2) with
    | none => .inl (.ret (.error .incorrectDataParameter))
    | some cb => runPSteps tbl cla ins p1 data rest { st with cb := some cb }
  | .bindIdx i :: rest, st =>
    match data[i]? with
    | none => .inl .panic
    | some b => runPSteps tbl cla ins p1 data rest { st with khl := some b.toNat }

def runPArms (tbl : List (Nat × Nat × Option Nat)) (cla ins p1 : Nat) (data : List Byte) (st : PState) (dflt : PFinal) :
    List (Nat × List PStep × PFinal) → POut
  | [] => evalFinal data st dflt
  | (n, steps, fin) :: rest =>
    if ins = n then
      match runPSteps tbl cla ins p1 data steps st with
      | .inl out => out
      | .inr st' => evalFinal data st' fin
    else runPArms tbl cla ins p1 data st dflt rest

/-- the whole conversion; `ins` is first normalised as the source does
    (`Instruction::Unknown(ins) => ins, _ => 0`) -/
def runProgram (p : PProgram) (tbl : List (Nat × Nat × Option Nat)) (cla ins p1 : Nat) (data : List Byte) : POut :=
  let ins' := if namedInstructions.contains ins then 0 else ins
  match runPSteps tbl cla ins' p1 data p.pre {} with
  | .inl out => out
  | .inr st => runPArms tbl cla ins' p1 data st p.default p.arms

namespace Spec
/-- FIDO U2F raw message formats §3: class, then version, then per instruction -/
def u2fProgram : PProgram :=
  { pre := [.guardErr (.claNe 0) .classNotSupported, .guardVersion (.insEq 3)],
    arms := [(1, [.guardErr (.lenNe 64) .incorrectDataParameter],
                 .register (.arr32 0 (some 32)) (.arr32 32 none)),
             (2, [.control, .guardErr (.lenLt 65) .incorrectDataParameter, .bindIdx 64,
                  .guardErr (.lenNeBasePlusVar 65) .incorrectDataParameter],
                 .authenticate (.arr32 0 (some 32)) (.arr32 32 (some 64)) (.tail 65)),
             (3, [], .version)],
    default := .err .instructionNotSupportedOrInvalid }
end Spec

theorem toArray32_take (data : List Byte) (h : 32 ≤ data.length) : toArray32 (data.take 32) = .ret (data.take 32) := by
  unfold toArray32; rw [List.length_take, Nat.min_eq_left h]; rfl

/-- **the interpreter on the specified program is the hand model** -/
theorem runProgram_spec (tbl : List (Nat × Nat × Option Nat)) (cla ins p1 : Nat) (data : List Byte) :
    runProgram Spec.u2fProgram tbl cla ins p1 data = ctap1Parse tbl cla ins p1 data := by
  unfold runProgram ctap1Parse
  simp only [Spec.u2fProgram]
  generalize (if namedInstructions.contains ins = true then 0 else ins) = i
  simp only [runPSteps, evalCond]
  by_cases hc : cla ≠ 0
  · simp [hc]
  · simp only [hc, decide_false, if_false]
    by_cases h3 : i = 3
    · simp [h3]
    · simp only [h3, decide_false, if_false, runPArms]
      by_cases h1 : i = 1
      · subst h1
        simp only [if_true, runPSteps, evalCond]
        by_cases hl : data.length ≠ 64
        · simp [hl]
        · have hl' : data.length = 64 := by omega
          simp only [hl, decide_false, if_false, evalFinal, evalSlice, sliceOf]
          have e1 : (32 ≤ 32 ∧ 32 ≤ data.length) := by omega
          have e0 : (0 ≤ 32 ∧ 32 ≤ data.length) := by omega
          have e2 : 32 ≤ data.length := by omega
          simp only [e0, e2, if_true, List.drop_zero, Nat.sub_zero, and_self]
          cases toArray32 (List.take 32 data) <;> cases toArray32 (List.drop 32 data) <;> rfl
      · simp only [h1, if_false]
        by_cases h2 : i = 2
        · subst h2
          simp only [if_true, runPSteps]
          cases (tbl.find? (fun (lo, hi, _) => lo ≤ p1 ∧ p1 ≤ hi)).bind (·.2.2) with
          | none => rfl
          | some cb =>
            simp only [evalCond]
            by_cases hl : data.length < 65
            · simp [hl]
            · simp only [hl, decide_false, if_false]
              cases hk : data[64]? with
              | none => rfl
              | some khl =>
                simp only [evalCond, Option.map_some]
                by_cases hn : data.length ≠ 65 + khl.toNat
                · simp [hn]
                · simp only [hn, decide_false, if_false, evalFinal, evalSlice, sliceOf]
                  have e0 : (0 ≤ 32 ∧ 32 ≤ data.length) := by omega
                  have e1 : (32 ≤ 64 ∧ 64 ≤ data.length) := by omega
                  have e2 : 65 ≤ data.length := by omega
                  simp only [e0, e1, e2, if_true, List.drop_zero, Nat.sub_zero, and_self,
                    show (64 : Nat) - 32 = 32 by rfl]
                  cases toArray32 (List.take 32 data) <;> cases toArray32 (List.take 32 (List.drop 32 data)) <;> rfl
        · simp only [h2, if_false]
          by_cases h3' : i = 3
          · exact absurd h3' h3
          · simp [h3', evalFinal]
