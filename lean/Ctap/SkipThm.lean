import Ctap.Decode
import Ctap.HeadThm
/-
  G-SKIP: `Deserializer::ignore` consumes exactly one well-formed definite-length item of *any*
  kind — integers of any width (minimal or not), byte and text strings, arrays, maps, tags, floats
  of 16/32/64 bits, simple values — at any nesting depth, and `fuel = input length` always suffices.
-/

mutual
/-- definite-length CBOR items as the skipper sees them -/
inductive Item
  | atom (major ai : Nat) (payload : List Byte)      -- major 0, 1 or 7: head byte + 0/1/2/4/8 argument bytes
  | str (major : Nat) (b : List Byte)                -- major 2 or 3, shortest-form length
  | arr (xs : Items)
  | map (kvs : Items)                                -- keys and values alternating
  | tag (ai : Nat) (payload : List Byte) (x : Item)
inductive Items
  | nil
  | cons (x : Item) (xs : Items)
end

def Items.length : Items → Nat
  | .nil => 0
  | .cons _ xs => xs.length + 1

mutual
def encAny : Item → List Byte
  | .atom m ai p => UInt8.ofNat (m * 32 + ai) :: p
  | .str m b => encHead m b.length ++ b
  | .arr xs => encHead 4 xs.length ++ encAnys xs
  | .map kvs => encHead 5 (kvs.length / 2) ++ encAnys kvs
  | .tag ai p x => UInt8.ofNat (6 * 32 + ai) :: (p ++ encAny x)
def encAnys : Items → List Byte
  | .nil => []
  | .cons x xs => encAny x ++ encAnys xs
end

mutual
/-- well-formed: heads and lengths consistent, counts and lengths below 2^32 -/
def okItem : Item → Bool
  | .atom m ai p => (m == 0 || m == 1 || m == 7) && decide (ai < 32) && argLen ai == some p.length
  | .str m b => (m == 2 || m == 3) && decide (b.length < 4294967296)
  | .arr xs => decide (xs.length < 4294967296) && okItems xs
  | .map kvs => decide (kvs.length % 2 = 0) && decide (kvs.length / 2 < 4294967296) && okItems kvs
  | .tag ai p x => decide (ai < 32) && argLen ai == some p.length && okItem x
def okItems : Items → Bool
  | .nil => true
  | .cons x xs => okItem x && okItems xs
end

mutual
/-- number of item nodes = number of skipper steps -/
def nodes : Item → Nat
  | .atom _ _ _ => 1
  | .str _ _ => 1
  | .arr xs => 1 + nodesL xs
  | .map kvs => 1 + nodesL kvs
  | .tag _ _ x => 1 + nodes x
def nodesL : Items → Nat
  | .nil => 0
  | .cons x xs => nodes x + nodesL xs
end

theorem skipItems_zero (fuel : Nat) (r : Input) : skipItems fuel 0 r = .ok ((), r) := by
  cases fuel <;> rfl

theorem head_byte (m ai : Nat) (hm : m < 8) (ha : ai < 32) :
    (UInt8.ofNat (m * 32 + ai)).toNat / 32 = m ∧ (UInt8.ofNat (m * 32 + ai)).toNat % 32 = ai := by
  simp; omega

mutual
theorem skip_item : ∀ (x : Item) (fuel k : Nat) (r : Input), okItem x = true → nodes x ≤ fuel →
    skipItems fuel (k + 1) (encAny x ++ r) = skipItems (fuel - nodes x) k r
  | .atom m ai p, fuel, k, r, hok, hf => by
      simp only [okItem, Bool.and_eq_true, Bool.or_eq_true, beq_iff_eq, decide_eq_true_eq] at hok
      obtain ⟨⟨hm, ha⟩, hp⟩ := hok
      simp only [nodes] at hf ⊢
      obtain ⟨fuel', rfl⟩ : ∃ f, fuel = f + 1 := ⟨fuel - 1, by omega⟩
      have hb := head_byte m ai (by omega) ha
      simp only [encAny, List.cons_append, skipItems, hb.1, hb.2, hp]
      rw [if_pos (by omega)]
      simp only [List.length_append, List.drop_left']
      rw [if_neg (by omega)]
      simp
  | .str m b, fuel, k, r, hok, hf => by
      simp only [okItem, Bool.and_eq_true, Bool.or_eq_true, beq_iff_eq, decide_eq_true_eq] at hok
      obtain ⟨hm, hl⟩ := hok
      simp only [nodes] at hf ⊢
      obtain ⟨fuel', rfl⟩ : ∃ f, fuel = f + 1 := ⟨fuel - 1, by omega⟩
      obtain ⟨hb, rest, hbe, hbm⟩ := encHead_cons m b.length (by omega)
      have hd := decHead32_encHead m b.length (b ++ r) (by omega) hl
      simp only [encAny, List.append_assoc]
      rw [hbe] at hd ⊢
      simp only [List.cons_append] at hd ⊢
      simp only [skipItems, hbm]
      rw [if_neg (by omega), if_neg (by omega), if_pos hm, hd]
      simp
      intro h; omega
  | .arr xs, fuel, k, r, hok, hf => by
      simp only [okItem, Bool.and_eq_true, decide_eq_true_eq] at hok
      simp only [nodes] at hf ⊢
      obtain ⟨fuel', rfl⟩ : ∃ f, fuel = f + 1 := ⟨fuel - 1, by omega⟩
      obtain ⟨hb, rest, hbe, hbm⟩ := encHead_cons 4 xs.length (by omega)
      have hd := decHead32_encHead 4 xs.length (encAnys xs ++ r) (by omega) hok.1
      simp only [encAny, List.append_assoc]
      rw [hbe] at hd ⊢
      simp only [List.cons_append] at hd ⊢
      simp only [skipItems, hbm]
      rw [if_neg (by omega), if_neg (by omega), if_neg (by omega), if_pos trivial, hd]
      simp only []
      rw [skip_items xs fuel' k r hok.2 (by omega)]
      congr 1; omega
  | .map kvs, fuel, k, r, hok, hf => by
      simp only [okItem, Bool.and_eq_true, decide_eq_true_eq] at hok
      simp only [nodes] at hf ⊢
      obtain ⟨fuel', rfl⟩ : ∃ f, fuel = f + 1 := ⟨fuel - 1, by omega⟩
      obtain ⟨hb, rest, hbe, hbm⟩ := encHead_cons 5 (kvs.length / 2) (by omega)
      have hd := decHead32_encHead 5 (kvs.length / 2) (encAnys kvs ++ r) (by omega) hok.1.2
      simp only [encAny, List.append_assoc]
      rw [hbe] at hd ⊢
      simp only [List.cons_append] at hd ⊢
      simp only [skipItems, hbm]
      rw [if_neg (by omega), if_neg (by omega), if_neg (by omega), if_neg (by omega), hd]
      simp only []
      have : k + 2 * (kvs.length / 2) = k + kvs.length := by omega
      rw [this, skip_items kvs fuel' k r hok.2 (by omega)]
      congr 1; omega
  | .tag ai p x, fuel, k, r, hok, hf => by
      simp only [okItem, Bool.and_eq_true, beq_iff_eq, decide_eq_true_eq] at hok
      obtain ⟨⟨ha, hp⟩, hx⟩ := hok
      simp only [nodes] at hf ⊢
      obtain ⟨fuel', rfl⟩ : ∃ f, fuel = f + 1 := ⟨fuel - 1, by omega⟩
      have hb := head_byte 6 ai (by omega) ha
      simp only [encAny, List.cons_append, List.append_assoc, skipItems, hb.1, hb.2, hp]
      rw [if_neg (by omega), if_pos trivial]
      simp only [List.length_append, List.drop_left']
      rw [if_neg (by omega)]
      rw [skip_item x fuel' k r hx (by omega)]
      congr 1; omega
theorem skip_items : ∀ (xs : Items) (fuel k : Nat) (r : Input), okItems xs = true → nodesL xs ≤ fuel →
    skipItems fuel (k + xs.length) (encAnys xs ++ r) = skipItems (fuel - nodesL xs) k r
  | .nil, fuel, k, r, _, _ => by simp [Items.length, encAnys, nodesL]
  | .cons x xs, fuel, k, r, hok, hf => by
      simp only [okItems, Bool.and_eq_true] at hok
      simp only [nodesL] at hf ⊢
      simp only [Items.length, encAnys, List.append_assoc]
      rw [show k + (xs.length + 1) = (k + xs.length) + 1 by omega,
        skip_item x fuel (k + xs.length) (encAnys xs ++ r) hok.1 (by omega),
        skip_items xs (fuel - nodes x) k r hok.2 (by omega)]
      congr 1; omega
end

mutual
theorem nodes_le : ∀ (x : Item), nodes x ≤ (encAny x).length
  | .atom _ _ _ => by simp [nodes, encAny]
  | .str m b => by
      have := encHead_length_pos m b.length
      simp only [nodes, encAny, List.length_append]; omega
  | .arr xs => by
      have := encHead_length_pos 4 xs.length
      have := nodesL_le xs
      simp only [nodes, encAny, List.length_append]; omega
  | .map kvs => by
      have := encHead_length_pos 5 (kvs.length / 2)
      have := nodesL_le kvs
      simp only [nodes, encAny, List.length_append]; omega
  | .tag _ p x => by
      have := nodes_le x
      simp only [nodes, encAny, List.length_cons, List.length_append]; omega
theorem nodesL_le : ∀ (xs : Items), nodesL xs ≤ (encAnys xs).length
  | .nil => by simp [nodesL, encAnys]
  | .cons x xs => by
      have := nodes_le x
      have := nodesL_le xs
      simp only [nodesL, encAnys, List.length_append]; omega
end

/-- **G-SKIP.** `deserialize_ignored_any` on any well-formed definite-length item: exactly that
    item is consumed, whatever follows, at any nesting depth and size. -/
theorem skipOne_item (x : Item) (r : Input) (hok : okItem x = true) :
    skipOne (encAny x ++ r) = .ok ((), r) := by
  unfold skipOne
  have hn := nodes_le x
  rw [skip_item x _ 0 r hok (by simp only [List.length_append]; omega), skipItems_zero]
