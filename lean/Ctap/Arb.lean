import Ctap.Schema
import Ctap.Utf8Thm
/-
  Model of `src/arbitrary.rs` (feature `arbitrary`): the four hand-written helpers
  `arbitrary_str / arbitrary_bytes / arbitrary_vec / arbitrary_byte_array` and the hand-written
  `Arbitrary` impls built from them, over a model of the `arbitrary` 1.4.2 primitives they call
  (`Unstructured::{bytes, peek_bytes, fill_buffer, int_in_range, choose, arbitrary_loop}`, the
  integer / bool / Option impls and `derive(Arbitrary)` on field-less enums).  The `unwrap()`s and
  the `from_utf8_unchecked` precondition are explicit outcomes.
-/

inductive AErr
  | notEnough      -- `Error::NotEnoughData`
  | panic          -- a reachable `unwrap()` on `Err` / `None`
  | ub             -- `from_utf8_unchecked` on ill-formed bytes
  deriving DecidableEq, Repr

/-- result of a generator step: value and remaining data -/
abbrev AR (α : Type) := Except AErr (α × List Byte)

/-- little-endian value of a byte list -/
def leVal : List Byte → Nat
  | [] => 0
  | b :: rest => b.toNat + 256 * leVal rest

/-- `fill_buffer` into `k` bytes then `from_le_bytes`: takes what is there, pads with zeros -/
def fillLE (k : Nat) (u : List Byte) : Nat × List Byte := (leVal (u.take k), u.drop k)

def arbBool (u : List Byte) : Bool × List Byte := ((fillLE 1 u).1 % 2 == 1, (fillLE 1 u).2)

/-- `Unstructured::bytes(n)` -/
def uBytes (n : Nat) (u : List Byte) : AR (List Byte) :=
  if u.length < n then .error .notEnough else .ok (u.take n, u.drop n)

/-- `Unstructured::peek_bytes(n)` -/
def uPeek (n : Nat) (u : List Byte) : Option (List Byte) :=
  if u.length < n then none else some (u.take n)

/-- the byte-gathering loop of `int_in_range_impl` for `0..=max` on a `width`-byte unsigned type:
    big-endian accumulation while the range still needs more bits and data is left -/
def gather (width max : Nat) : Nat → Nat → List Byte → Nat × List Byte
  | 0, acc, u => (acc, u)
  | rem+1, acc, u =>
    if max / 256 ^ (width - (rem + 1)) > 0 then
      match u with
      | [] => (acc, u)
      | b :: rest => gather width max rem (if width = 1 then b.toNat else acc * 256 + b.toNat) rest
    else (acc, u)

/-- `int_in_range(0..=max)` -/
def intInRange0 (width max : Nat) (u : List Byte) : Nat × List Byte :=
  if max = 0 then (0, u)
  else
    let r := gather width max width 0 u
    (if max + 1 = 256 ^ width then r.1 else r.1 % (max + 1), r.2)

/-- greedy scalar peeling = `Utf8Error::valid_up_to` (fuel: the input length suffices) -/
def validUpToF : Nat → List Byte → Nat
  | 0, _ => 0
  | fuel+1, s => if scalarLen s = 0 then 0 else scalarLen s + validUpToF fuel (s.drop (scalarLen s))

def validUpTo (s : List Byte) : Nat := validUpToF s.length s

/-- parameters read off the helper bodies by the translator -/
structure ArbShape where
  strClamp : Bool        -- `usize::arbitrary(u)?.min(N)` in `arbitrary_str`
  bytesClamp : Bool      -- the same in `arbitrary_bytes`
  vecMaxExtra : Nat      -- `arbitrary_loop(Some(0), Some(N + extra))` in `arbitrary_vec`
  deriving DecidableEq, Repr

/-- `arbitrary_str::<N>` -/
def arbStr (sh : ArbShape) (N : Nat) (u : List Byte) : AR (List Byte) :=
  let n0 := fillLE 8 u
  let n := if sh.strClamp then min n0.1 N else n0.1
  match uPeek n n0.2 with
  | none => .error .notEnough
  | some bs =>
    if validUtf8 bs then
      if bs.length ≤ N then .ok (bs, n0.2.drop n) else .error .panic      -- `s.try_into().unwrap()`
    else
      let i := validUpTo bs
      match uBytes i n0.2 with
      | .error e => .error e
      | .ok (valid, r) =>
        if !validUtf8 valid then .error .ub                               -- `from_utf8_unchecked`
        else if valid.length ≤ N then .ok (valid, r) else .error .panic

/-- `arbitrary_bytes::<N>` -/
def arbBytes (sh : ArbShape) (N : Nat) (u : List Byte) : AR (List Byte) :=
  let n0 := fillLE 8 u
  let n := if sh.bytesClamp then min n0.1 N else n0.1
  match uBytes n n0.2 with
  | .error e => .error e
  | .ok (b, r) => if b.length ≤ N then .ok (b, r) else .error .panic     -- `from_slice(..).unwrap()`

/-- `arbitrary_byte_array::<N>`: `u.bytes(N)?.try_into().unwrap()` -/
def arbByteArray (N : Nat) (u : List Byte) : AR (List Byte) :=
  match uBytes N u with
  | .error e => .error e
  | .ok (b, r) => if b.length = N then .ok (b, r) else .error .panic

/-- the loop of `arbitrary_vec`: `count` times `vec.push(u.arbitrary()?).unwrap()` -/
def vecLoop {α : Type} (elem : List Byte → AR α) (N : Nat) : Nat → List Byte → List α → AR (List α)
  | 0, u, acc => .ok (acc, u)
  | k+1, u, acc =>
    match elem u with
    | .error e => .error e
    | .ok (v, u') => if acc.length < N then vecLoop elem N k u' (acc ++ [v]) else .error .panic

/-- `arbitrary_vec::<T, N>` -/
def arbVec {α : Type} (sh : ArbShape) (elem : List Byte → AR α) (N : Nat) (u : List Byte) : AR (List α) :=
  let c := intInRange0 4 (N + sh.vecMaxExtra) u
  vecLoop elem N c.1 c.2 []

/-- `u.choose(&table)` for a non-empty table: index by `int_in_range(0..=len-1)` on `usize` -/
def arbChoose (len : Nat) (u : List Byte) : Nat × List Byte := intInRange0 8 (len - 1) u

/-- `derive(Arbitrary)` on a field-less enum with `count` variants -/
def arbEnum (count : Nat) (u : List Byte) : Nat × List Byte :=
  ((fillLE 4 u).1 * count / 4294967296, (fillLE 4 u).2)

/-! ### the hand-written impls, as draw lists extracted from the source -/

/-- how one field of a hand-written `Arbitrary` impl is drawn -/
inductive Draw
  | str (cap : Nat)            -- `arbitrary_str(u)?`
  | optStr (cap : Nat)         -- `if bool::arbitrary(u)? { Some(arbitrary_str(u)?) } else { None }`
  | bytes (cap : Nat)          -- `arbitrary_bytes(u)?`
  | optUnit                    -- `Arbitrary::arbitrary(u)?` at `Option<Icon>`
  | bool                       -- `u.arbitrary()?` at `bool`
  | vecChoose (cap : Nat) (table : List Int)       -- `arbitrary_vec` of `*u.choose(&TABLE)?`
  | vecEnum (cap count : Nat)                      -- `arbitrary_vec` of a derived field-less enum
  | key                        -- `arbitrary_key(u)?`: two `arbitrary_bytes::<32>`
  | optU32                     -- `u.arbitrary()?` at `Option<u32>`
  deriving DecidableEq, Repr

def drawOne (sh : ArbShape) : Draw → List Byte → AR (Option Val)
  | .str cap, u =>
    match arbStr sh cap u with
    | .error e => .error e
    | .ok (s, r) => .ok (some (.text s), r)
  | .optStr cap, u =>
    if (arbBool u).1 then
      match arbStr sh cap (arbBool u).2 with
      | .error e => .error e
      | .ok (s, r) => .ok (some (.text s), r)
    else .ok (none, (arbBool u).2)
  | .bytes cap, u =>
    match arbBytes sh cap u with
    | .error e => .error e
    | .ok (s, r) => .ok (some (.bytes s), r)
  | .optUnit, u => .ok (if (arbBool u).1 then some .unit else none, (arbBool u).2)
  | .bool, u => .ok (some (.bool (arbBool u).1), (arbBool u).2)
  | .vecChoose cap table, u =>
    match arbVec sh (fun x => (.ok (Val.int (table.getD (arbChoose table.length x).1 0), (arbChoose table.length x).2) : AR Val)) cap u with
    | .error e => .error e
    | .ok (vs, r) => .ok (some (.list vs), r)
  | .key, u =>
    match arbBytes sh 32 u with
    | .error e => .error e
    | .ok (x, r) =>
      match arbBytes sh 32 r with
      | .error e => .error e
      | .ok (y, r') => .ok (some (.record [some (.bytes x), some (.bytes y)]), r')
  | .optU32, u =>
    if (arbBool u).1 then .ok (some (.nat (fillLE 4 (arbBool u).2).1), (fillLE 4 (arbBool u).2).2)
    else .ok (none, (arbBool u).2)
  | .vecEnum cap count, u =>
    match arbVec sh (fun x => (.ok (Val.nat (arbEnum count x).1, (arbEnum count x).2) : AR Val)) cap u with
    | .error e => .error e
    | .ok (vs, r) => .ok (some (.list vs), r)

/-- draws in source order; the value is reported in that order as well -/
def drawAll (sh : ArbShape) : List Draw → List Byte → List (Option Val) → AR (List (Option Val))
  | [], u, acc => .ok (acc, u)
  | d :: ds, u, acc =>
    match drawOne sh d u with
    | .error e => .error e
    | .ok (v, r) => drawAll sh ds r (acc ++ [v])
