import Ctap.Decode
import Ctap.Utf8Thm
/-
  G-TOTAL: the decoder model has exactly one family of panic / undefined-behaviour sites — the
  truncating string reader (`truncate` → `floor_char_boundary` → `unwrap_unchecked`, `&s[..i]`,
  `push_str(..).unwrap()`) — and none of them is reachable: the text handed to it has passed
  `from_utf8`, and on well-formed text the three-byte look-back always finds a boundary
  (`truncateStr_valid`).  Hence for every schema whose truncating readers use the window 3 and
  for *every* input, `decode` returns a value or an error, never the `panic` outcome.
  (Termination and determinism are what it means for `decode` to be a Lean function.)
-/

/-- not the panic outcome, and a top-level text (the only thing a truncating reader slices) is
    well-formed UTF-8 -/
def NPV : Res Val → Prop
  | .error .panic => False
  | .ok (.text s, _) => validUtf8 s = true
  | _ => True

def NP {α : Type} (r : Res α) : Prop := r ≠ .error .panic

theorem NP.err {α β : Type} {e : DErr} (h : NP (.error e : Res α)) : NP (.error e : Res β) := by
  unfold NP at *; intro hc; apply h; cases hc; rfl

theorem NP.other {α : Type} : NP (.error .other : Res α) := by unfold NP; intro h; cases h
theorem NP.missing {α : Type} : NP (.error .missing : Res α) := by unfold NP; intro h; cases h
theorem NP.ok {α : Type} (p : α × Input) : NP (.ok p : Res α) := by unfold NP; intro h; cases h

theorem NPV.np {r : Res Val} (h : NPV r) : NP r := by
  unfold NP; intro hc; subst hc; exact h

theorem NPV.err {α : Type} {e : DErr} (h : NP (.error e : Res α)) : NPV (.error e) := by
  unfold NP at h; unfold NPV; split <;> simp_all

macro "np_done" : tactic =>
  `(tactic| first | exact NP.other | exact NP.missing | exact NP.ok _ | assumption)

/-- `match r with | .error e => .error e | .ok .. => ..`: the error branch passes `h : NP r` on -/
macro "np_bind " h:ident : tactic =>
  `(tactic| (split; (rename_i e he; rw [he] at $h:ident; exact NP.err $h)))
macro "npv_bind " h:ident : tactic =>
  `(tactic| (split; (rename_i e he; rw [he] at $h:ident; exact NPV.err $h)))

theorem readArg_np (k lo : Nat) (r : Input) : NP (readArg k lo r) := by
  unfold readArg
  split
  · np_done
  · split <;> np_done

theorem decHead_np (a m : Nat) (inp : Input) : NP (decHead a m inp) := by
  unfold decHead
  split
  · np_done
  · dsimp only
    repeat' split
    all_goals first | np_done | exact readArg_np _ _ _

theorem decHead32_np (m : Nat) (inp : Input) : NP (decHead32 m inp) := decHead_np 26 m inp
theorem decHead8_np (m : Nat) (inp : Input) : NP (decHead8 m inp) := decHead_np 24 m inp
theorem decHead64_np (m : Nat) (inp : Input) : NP (decHead64 m inp) := decHead_np 27 m inp

theorem takeN_np (n : Nat) (inp : Input) : NP (takeN n inp) := by
  unfold takeN; split <;> np_done

theorem decText_np (inp : Input) : NP (decText inp) := by
  unfold decText
  have h1 := decHead32_np 3 inp
  np_bind h1
  rename_i n r _
  have h2 := takeN_np n r
  np_bind h2
  split <;> np_done

theorem decText_valid (inp : Input) (s : List Byte) (r : Input) (h : decText inp = .ok (s, r)) :
    validUtf8 s = true := by
  unfold decText at h
  split at h
  · cases h
  · split at h
    · cases h
    · split at h
      · cases h; assumption
      · cases h

theorem decBytes_np (inp : Input) : NP (decBytes inp) := by
  unfold decBytes
  have h1 := decHead32_np 2 inp
  np_bind h1
  exact takeN_np _ _

theorem decI8_np (inp : Input) : NP (decI8 inp) := by
  unfold decI8
  split
  · np_done
  · rename_i b tl
    split
    · have h1 := decHead8_np 0 (b :: tl)
      np_bind h1
      split <;> np_done
    · split
      · have h1 := decHead8_np 1 (b :: tl)
        np_bind h1
        repeat' split
        all_goals np_done
      · np_done

theorem decI8Enum_np (a : List Int) (inp : Input) : NP (decI8Enum a inp) := by
  unfold decI8Enum
  have h1 := decI8_np inp
  np_bind h1
  split <;> np_done

theorem decBytesCap_np (c : Nat) (inp : Input) : NP (decBytesCap c inp) := by
  unfold decBytesCap
  have h1 := decBytes_np inp
  np_bind h1
  split <;> np_done

theorem coseNextKey_np (rem : Nat) (inp : Input) : NP (coseNextKey rem inp) := by
  unfold coseNextKey
  split
  · np_done
  · have h1 := decI8_np inp
    np_bind h1
    np_done

theorem coseStep_np {α : Type} (l : Int) (dec : Input → Res α) (hd : ∀ i, NP (dec i)) (cur : CoseCur)
    (inp : Input) : NP (coseStep l dec cur inp) := by
  unfold coseStep
  split
  · have h1 := hd inp
    np_bind h1
    rename_i v r _
    have h2 := coseNextKey_np cur.rem r
    np_bind h2
    np_done
  · np_done

theorem decCoseRaw_np (inp : Input) : NP (decCoseRaw inp) := by
  unfold decCoseRaw
  have h0 := decHead32_np 5 inp
  np_bind h0
  rename_i n r _
  have h1 := coseNextKey_np n r
  np_bind h1
  rename_i c0 r0 _
  have h2 := coseStep_np 1 (decI8Enum [1, 2, 4]) (decI8Enum_np _) c0 r0
  np_bind h2
  rename_i kty c1 r1 _
  have h3 := coseStep_np 3 (decI8Enum [-7, -8, -9, -25]) (decI8Enum_np _) c1 r1
  np_bind h3
  rename_i alg c2 r2 _
  have h4 := coseStep_np (-1) (decI8Enum [0, 1, 4, 6]) (decI8Enum_np _) c2 r2
  np_bind h4
  rename_i crv c3 r3 _
  have h5 := coseStep_np (-2) (decBytesCap 32) (decBytesCap_np _) c3 r3
  np_bind h5
  rename_i x c4 r4 _
  have h6 := coseStep_np (-3) (decBytesCap 32) (decBytesCap_np _) c4 r4
  np_bind h6
  repeat' split
  all_goals np_done

theorem decCoseEcdh_npv (inp : Input) : NPV (decCoseEcdh inp) := by
  unfold decCoseEcdh
  have h0 := decCoseRaw_np inp
  npv_bind h0
  repeat' split
  all_goals simp [NPV]

theorem attFmtLoop_np (de : List (List Byte × Nat)) (cap : Nat) :
    ∀ (n : Nat) (inp : Input) (k : List Val) (u : Bool), NP (attFmtLoop de cap n inp k u)
  | 0, _, _, _ => by unfold attFmtLoop; np_done
  | n+1, inp, k, u => by
    unfold attFmtLoop
    have h1 := decText_np inp
    np_bind h1
    split
    · exact attFmtLoop_np de cap n _ _ _
    · exact attFmtLoop_np de cap n _ _ _

theorem decLeaf_npv (l : Leaf) (inp : Input) : NPV (decLeaf l inp) := by
  cases l with
  | uint w =>
    simp only [decLeaf]
    have h := decHead_np w.maxAi 0 inp
    npv_bind h
    simp [NPV]
  | i32 =>
    simp only [decLeaf]
    split
    · simp [NPV]
    · rename_i b tl
      split
      · have h := decHead32_np (b.toNat / 32) (b :: tl)
        npv_bind h
        split <;> simp [NPV]
      · simp [NPV]
  | bool =>
    simp only [decLeaf]
    repeat' split
    all_goals simp [NPV]
  | unit =>
    simp only [decLeaf]
    repeat' split
    all_goals simp [NPV]
  | bytes cap =>
    simp only [decLeaf]
    have h := decBytes_np inp
    npv_bind h
    repeat' split
    all_goals simp [NPV]
  | byteArray n =>
    simp only [decLeaf]
    have h := decBytes_np inp
    npv_bind h
    repeat' split
    all_goals simp [NPV]
  | str cap =>
    simp only [decLeaf]
    have h := decText_np inp
    have hv := decText_valid inp
    npv_bind h
    rename_i s r hs
    have := hv s r hs
    repeat' split
    all_goals simp_all [NPV]
  | icon =>
    simp only [decLeaf]
    have h := decText_np inp
    npv_bind h
    simp [NPV]
  | enumStr ser de =>
    simp only [decLeaf]
    have h := decText_np inp
    npv_bind h
    split <;> simp [NPV]
  | enumRepr d =>
    simp only [decLeaf]
    have h := decHead8_np 0 inp
    npv_bind h
    split <;> simp [NPV]
  | coseEcdh => simp only [decLeaf]; exact decCoseEcdh_npv inp
  | cosePub => simp only [decLeaf]; simp [NPV]
  | attFmtPref de cap =>
    simp only [decLeaf]
    have h := decHead32_np 4 inp
    npv_bind h
    rename_i n r _
    have h2 := attFmtLoop_np de cap n r [] false
    npv_bind h2
    simp [NPV]

/-! ### `ignore`, the loops, field readers -/

theorem skipItems_np : ∀ (fuel count : Nat) (inp : Input), NP (skipItems fuel count inp)
  | _, 0, _ => by unfold skipItems; np_done
  | 0, _+1, _ => by unfold skipItems; np_done
  | fuel+1, count+1, inp => by
    unfold skipItems
    split
    · np_done
    · rename_i b rest
      dsimp only
      split
      · split
        · np_done
        · split
          · np_done
          · exact skipItems_np fuel _ _
      · split
        · split
          · np_done
          · split
            · np_done
            · exact skipItems_np fuel _ _
        · split
          · have h := decHead32_np (b.toNat / 32) (b :: rest)
            np_bind h
            split
            · np_done
            · exact skipItems_np fuel _ _
          · split
            · have h := decHead32_np 4 (b :: rest)
              np_bind h
              exact skipItems_np fuel _ _
            · have h := decHead32_np 5 (b :: rest)
              np_bind h
              exact skipItems_np fuel _ _

theorem skipOne_np (inp : Input) : NP (skipOne inp) := skipItems_np _ _ _

theorem seqLoop_np {α : Type} (elem : Input → Res α) (cap : Option Nat) (he : ∀ i, NP (elem i)) :
    ∀ (n : Nat) (inp : Input) (acc : List α), NP (seqLoop elem cap n inp acc)
  | 0, _, _ => by unfold seqLoop; np_done
  | n+1, inp, acc => by
    unfold seqLoop
    have h := he inp
    np_bind h
    cases cap with
    | none => simp only [Bool.false_eq_true, if_false]; exact seqLoop_np elem none he n _ _
    | some c =>
      dsimp only
      split
      · np_done
      · exact seqLoop_np elem (some c) he n _ _

theorem mapLoop_np {κ : Type} (readKey : Input → Res κ) (entry : κ → Input → DSlots → Res DSlots)
    (hk : ∀ i, NP (readKey i)) (he : ∀ k i s, NP (entry k i s)) :
    ∀ (n : Nat) (inp : Input) (s : DSlots), NP (mapLoop readKey entry n inp s)
  | 0, _, _ => by unfold mapLoop; np_done
  | n+1, inp, s => by
    unfold mapLoop
    have h := hk inp
    np_bind h
    rename_i k inp' _
    have h2 := he k inp' s
    np_bind h2
    exact mapLoop_np readKey entry hk he n _ _

theorem readTKey_np (inp : Input) : NP (readTKey inp) := by
  unfold readTKey
  split
  · np_done
  · rename_i b tl
    dsimp only
    split
    · have h := decHead32_np (b.toNat / 32) (b :: tl)
      np_bind h
      rename_i n r _
      have h2 := takeN_np n r
      np_bind h2
      split <;> np_done
    · split
      · have h := decHead64_np 0 (b :: tl)
        np_bind h
        np_done
      · np_done

/-- a truncating reader with the source's look-back window -/
def Mode.safe : Mode → Bool
  | .trunc _ win => win == 3
  | _ => true

theorem modeApply_np (m : Mode) (hm : m.safe = true) (v : Val) (r : Input) (hv : NPV (.ok (v, r))) :
    ∀ e, m.apply v = .error e → e ≠ .panic := by
  intro e he
  cases m with
  | plain => simp [Mode.apply] at he
  | nullable => simp [Mode.apply] at he
  | skipLong c =>
    cases v <;> simp only [Mode.apply] at he <;> first | (split at he <;> cases he) | cases he
  | trunc cap win =>
    simp only [Mode.safe, beq_iff_eq] at hm
    subst hm
    cases v with
    | text s =>
      have hs : validUtf8 s = true := hv
      simp only [Mode.apply, truncateStr_valid cap s hs] at he
      cases he
    | _ => simp [Mode.apply] at he

theorem fieldValue_np (dec : Input → Res Val) (hd : ∀ i, NPV (dec i)) (f : FieldInfo) (hm : f.mode.safe = true)
    (i : Nat) (inp : Input) (s : DSlots) : NP (fieldValue dec f i inp s) := by
  unfold fieldValue
  split
  · np_done
  · split
    · np_done
    · have h := hd inp
      have h' := h.np
      np_bind h'
      rename_i v r hv
      rw [hv] at h
      split
      · rename_i e he
        have := modeApply_np f.mode hm v r h e he
        unfold NP; intro hc; cases hc; exact this rfl
      · np_done

/-! ### the decoder -/

mutual
/-- every truncating reader in the schema uses the window 3 -/
def safeTy : Ty → Bool
  | .leaf _ => true
  | .vec _ t => safeTy t
  | .filtered _ _ _ _ e => safeTy e
  | .indexed _ fs => safeFields fs
  | .text fs => safeFields fs
  | .untagged fs => safeFields fs
def safeFields : Fields → Bool
  | .nil => true
  | .cons f t rest => f.mode.safe && safeTy t && safeFields rest
end

mutual
theorem decode_npv : ∀ (t : Ty) (inp : Input), safeTy t = true → NPV (decode t inp)
  | .leaf l, inp, _ => by simp only [decode]; exact decLeaf_npv l inp
  | .vec cap t, inp, hs => by
    simp only [safeTy] at hs
    simp only [decode]
    have h := decHead32_np 4 inp
    npv_bind h
    rename_i n r _
    have h2 := seqLoop_np (fun i => decode t i) (some cap) (fun i => (decode_npv t i hs).np) n r []
    npv_bind h2
    simp [NPV]
  | .filtered cap known lit sl elem, inp, hs => by
    simp only [safeTy] at hs
    simp only [decode]
    have h := decHead32_np 4 inp
    npv_bind h
    rename_i n r _
    have h2 := seqLoop_np (fun i => decode elem i) none (fun i => (decode_npv elem i hs).np) n r []
    npv_bind h2
    simp [NPV]
  | .indexed off fs, inp, hs => by
    simp only [safeTy] at hs
    simp only [decode]
    have h := decHead32_np 5 inp
    npv_bind h
    rename_i n r _
    have h2 := mapLoop_np (decHead64 0) (fun k i s => decIdxEntry fs off 0 k i s) (decHead64_np 0)
      (fun k i s => decIdx_np fs off 0 k i s hs) n r (List.replicate fs.length none)
    npv_bind h2
    split <;> simp [NPV]
  | .text fs, inp, hs => by
    simp only [safeTy] at hs
    simp only [decode]
    have h := decHead32_np 5 inp
    npv_bind h
    rename_i n r _
    have h2 := mapLoop_np readTKey (fun k i s => decTxtEntry fs 0 k i s) readTKey_np
      (fun k i s => decTxt_np fs 0 k i s hs) n r (List.replicate fs.length none)
    npv_bind h2
    split <;> simp [NPV]
  | .untagged _, _, _ => by simp [decode, NPV]
theorem decIdx_np : ∀ (fs : Fields) (off i k : Nat) (inp : Input) (s : DSlots), safeFields fs = true →
    NP (decIdxEntry fs off i k inp s)
  | .nil, _, _, _, _, _, _ => by simp only [decIdxEntry]; np_done
  | .cons f t rest, off, i, k, inp, s, hs => by
    simp only [safeFields, Bool.and_eq_true] at hs
    simp only [decIdxEntry]
    split
    · exact fieldValue_np _ (fun x => decode_npv t x hs.1.2) f hs.1.1 i inp s
    · exact decIdx_np rest off (i+1) k inp s hs.2
theorem decTxt_np : ∀ (fs : Fields) (i : Nat) (k : TKey) (inp : Input) (s : DSlots), safeFields fs = true →
    NP (decTxtEntry fs i k inp s)
  | .nil, _, _, inp, _, _ => by
    simp only [decTxtEntry]
    have h := skipOne_np inp
    np_bind h
    np_done
  | .cons f t rest, i, k, inp, s, hs => by
    simp only [safeFields, Bool.and_eq_true] at hs
    simp only [decTxtEntry]
    split
    · exact fieldValue_np _ (fun x => decode_npv t x hs.1.2) f hs.1.1 i inp s
    · exact decTxt_np rest (i+1) k inp s hs.2
end

/-- **G-TOTAL.** For every schema whose truncating readers use the window 3 and every input of
    any length and content, the decoder returns a value or an error — never the outcome that
    stands for a panic or for undefined behaviour. -/
theorem decode_never_panics (t : Ty) (hs : safeTy t = true) (inp : Input) :
    decode t inp ≠ .error .panic := (decode_npv t inp hs).np
