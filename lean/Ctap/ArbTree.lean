import Ctap.ArbThm
/-
  G-ARBTREE: whole-request generation.  The translator reads, for each of the three request
  generators, the *tree* of generator calls: `derive(Arbitrary)` on structs (fields in order) and
  enums (a `u32` selector, then the variant's fields, `_ => unreachable!()`), `Option`, and the
  statements of the hand-written impls in `src/arbitrary.rs` (helper calls, `u.bytes(n)?.
  try_into().unwrap()`, optional wrappers).  Leaves that belong to the `arbitrary` crate itself
  (integers, `bool`, `&[u8]`, `&str`, derives on foreign types) are *assumed* not to panic; every
  `unwrap()`, `unreachable!()` and `unsafe` block of ctap-types on these paths is an explicit
  outcome of the interpreter, and the theorem shows none is reachable, for every input.
-/

mutual
inductive GTree
  | ext (name : String)            -- impl outside ctap-types: assumed fine
  | str (cap : Nat)                -- `arbitrary_str::<cap>`
  | bytes (cap : Nat)              -- `arbitrary_bytes::<cap>`
  | byteArray (n : Nat)            -- `arbitrary_byte_array::<n>`
  | bytesArr (n : Nat)             -- `u.bytes(n)?.try_into().unwrap()` at `&[u8; n]`
  | choose (len : Nat)             -- `*u.choose(&TABLE)?`
  | vec (cap : Nat) (elem : GTree) -- `arbitrary_vec::<T, cap>`
  | opt (g : GTree)                -- `bool`, then the inner generator (`Option<T>`, `arbitrary_option`, `if bool { Some(..) } else { None }`)
  | struct (fields : GForest)      -- generators run in order
  | enum (alts : GForest)          -- derived enum: selector, the chosen alternative, otherwise `unreachable!()`
inductive GForest
  | nil
  | cons (g : GTree) (rest : GForest)
end

def GForest.length : GForest → Nat
  | .nil => 0
  | .cons _ r => r.length + 1

def GForest.get? : GForest → Nat → Option GTree
  | .nil, _ => none
  | .cons g _, 0 => some g
  | .cons _ r, i+1 => r.get? i

theorem leVal_lt : ∀ (bs : List Byte), leVal bs < 256 ^ bs.length
  | [] => by simp [leVal]
  | b :: rest => by
    have ih := leVal_lt rest
    have hb := UInt8.toNat_lt b
    simp only [leVal, List.length_cons, Nat.pow_succ]
    omega

theorem fillLE_lt (k : Nat) (u : List Byte) : (fillLE k u).1 < 256 ^ k := by
  unfold fillLE
  have h := leVal_lt (u.take k)
  have hl : (u.take k).length ≤ k := by rw [List.length_take]; exact Nat.min_le_left _ _
  exact Nat.lt_of_lt_of_le h (Nat.pow_le_pow_right (by decide) hl)

/-- the derive's variant selector is always in range: `unreachable!()` is unreachable -/
theorem arbEnum_lt (count : Nat) (hc : 0 < count) (u : List Byte) : (arbEnum count u).1 < count := by
  unfold arbEnum
  have h := fillLE_lt 4 u
  have : (256 : Nat) ^ 4 = 4294967296 := by decide
  rw [this] at h
  rw [Nat.div_lt_iff_lt_mul (by decide)]
  calc (fillLE 4 u).1 * count < 4294967296 * count := Nat.mul_lt_mul_of_pos_right h hc
    _ = count * 4294967296 := Nat.mul_comm _ _

/-- keep outcome and remaining data, drop the value -/
def forget {α : Type} : AR α → AR Unit
  | .error e => .error e
  | .ok (_, r) => .ok ((), r)

mutual
/-- outcome-level interpreter: what is consumed by the leaves is whatever they consume -/
def runG (sh : ArbShape) (ext : String → List Byte → AR Unit) : GTree → List Byte → AR Unit
  | .ext n, u => ext n u
  | .str cap, u => forget (arbStr sh cap u)
  | .bytes cap, u => forget (arbBytes sh cap u)
  | .byteArray n, u => forget (arbByteArray n u)
  | .bytesArr n, u =>
    (match uBytes n u with
     | .error e => .error e
     | .ok (b, r) => if b.length = n then .ok ((), r) else .error .panic)
  | .choose len, u => if len = 0 then .error .notEnough else .ok ((), (arbChoose len u).2)   -- `EmptyChoose` is an error value, not a panic
  | .vec cap elem, u =>
    vecLoopG sh ext elem cap (intInRange0 4 (cap + sh.vecMaxExtra) u).1 (intInRange0 4 (cap + sh.vecMaxExtra) u).2 0
  | .opt g, u => if (arbBool u).1 then runG sh ext g (arbBool u).2 else .ok ((), (arbBool u).2)
  | .struct fs, u => runForest sh ext fs u
  | .enum alts, u => runAlt sh ext alts (arbEnum alts.length u).1 (arbEnum alts.length u).2
/-- `count` pushes into a `Vec<_, cap>` that already holds `have` elements -/
def vecLoopG (sh : ArbShape) (ext : String → List Byte → AR Unit) (elem : GTree) (cap : Nat) :
    Nat → List Byte → Nat → AR Unit
  | 0, u, _ => .ok ((), u)
  | k+1, u, have_ =>
    match runG sh ext elem u with
    | .error e => .error e
    | .ok (_, r) => if have_ < cap then vecLoopG sh ext elem cap k r (have_ + 1) else .error .panic
def runForest (sh : ArbShape) (ext : String → List Byte → AR Unit) : GForest → List Byte → AR Unit
  | .nil, u => .ok ((), u)
  | .cons g rest, u =>
    match runG sh ext g u with
    | .error e => .error e
    | .ok (_, r) => runForest sh ext rest r
def runAlt (sh : ArbShape) (ext : String → List Byte → AR Unit) : GForest → Nat → List Byte → AR Unit
  | .nil, _, _ => .error .panic            -- `_ => unreachable!()`
  | .cons g _, 0, u => runG sh ext g u
  | .cons _ rest, i+1, u => runAlt sh ext rest i u
end

mutual
/-- capacities fit `u32` (the `N.try_into().unwrap()` of `arbitrary_vec`) and every enum has a variant -/
def GTree.ok : GTree → Bool
  | .vec cap elem => decide (cap + 1 < 4294967296) && elem.ok
  | .opt g => g.ok
  | .struct fs => fs.ok
  | .enum alts => decide (0 < alts.length) && alts.ok
  | _ => true
def GForest.ok : GForest → Bool
  | .nil => true
  | .cons g rest => g.ok && rest.ok
end

def FineU (r : AR Unit) : Prop := Fine (fun _ => True) r

theorem fineU_of {α : Type} {P : α → Prop} {r : AR α} (h : Fine P r) : FineU (forget r) := by
  unfold FineU Fine forget at *
  cases r with
  | error e => exact h
  | ok p => trivial

mutual
theorem runG_fine (sh : ArbShape) (hs : sh.good = true) (ext : String → List Byte → AR Unit)
    (hext : ∀ n u, FineU (ext n u)) : ∀ (g : GTree) (u : List Byte), g.ok = true → FineU (runG sh ext g u)
  | .ext n, u, _ => by simp only [runG]; exact hext n u
  | .str cap, u, _ => by
    simp only [runG]
    simp only [ArbShape.good, Bool.and_eq_true, beq_iff_eq] at hs
    exact fineU_of (arbStr_fine sh hs.1.1 cap u)
  | .bytes cap, u, _ => by
    simp only [runG]
    simp only [ArbShape.good, Bool.and_eq_true, beq_iff_eq] at hs
    exact fineU_of (arbBytes_fine sh hs.1.2 cap u)
  | .byteArray n, u, _ => by simp only [runG]; exact fineU_of (arbByteArray_fine n u)
  | .bytesArr n, u, _ => by
    simp only [runG, uBytes]
    split
    · rename_i e he
      split at he
      · cases he; rfl
      · cases he
    · rename_i b r he
      split at he
      · cases he
      · cases he
        have : (List.take n u).length = n := by rw [List.length_take]; omega
        rw [if_pos this]; trivial
  | .choose len, u, _ => by
    simp only [runG]
    split
    · rfl
    · trivial
  | .vec cap elem, u, hk => by
    simp only [GTree.ok, Bool.and_eq_true, decide_eq_true_eq] at hk
    simp only [runG]
    simp only [ArbShape.good, Bool.and_eq_true, beq_iff_eq] at hs
    rw [hs.2, Nat.add_zero]
    have hc := intInRange0_le 4 cap u (by
      have : (256 : Nat) ^ 4 = 4294967296 := by decide
      omega)
    exact vecLoopG_fine sh (by simp [ArbShape.good, hs]) ext hext elem cap hk.2 _ _ 0 (by omega)
  | .opt g, u, hk => by
    simp only [GTree.ok] at hk
    simp only [runG]
    split
    · exact runG_fine sh hs ext hext g _ hk
    · trivial
  | .struct fs, u, hk => by
    simp only [GTree.ok] at hk
    simp only [runG]; exact runForest_fine sh hs ext hext fs u hk
  | .enum alts, u, hk => by
    simp only [GTree.ok, Bool.and_eq_true, decide_eq_true_eq] at hk
    simp only [runG]
    exact runAlt_fine sh hs ext hext alts _ _ hk.2 (arbEnum_lt alts.length hk.1 u)
theorem vecLoopG_fine (sh : ArbShape) (hs : sh.good = true) (ext : String → List Byte → AR Unit)
    (hext : ∀ n u, FineU (ext n u)) (elem : GTree) (cap : Nat) (hk : elem.ok = true) :
    ∀ (k : Nat) (u : List Byte) (have_ : Nat), have_ + k ≤ cap → FineU (vecLoopG sh ext elem cap k u have_)
  | 0, _, _, _ => by simp only [vecLoopG]; trivial
  | k+1, u, have_, hle => by
    simp only [vecLoopG]
    have h := runG_fine sh hs ext hext elem u hk
    split
    · rename_i e he; rw [he] at h; exact h
    · rename_i x r he
      have hlt : have_ < cap := by omega
      rw [if_pos hlt]
      exact vecLoopG_fine sh hs ext hext elem cap hk k r (have_ + 1) (by omega)
theorem runForest_fine (sh : ArbShape) (hs : sh.good = true) (ext : String → List Byte → AR Unit)
    (hext : ∀ n u, FineU (ext n u)) : ∀ (fs : GForest) (u : List Byte), fs.ok = true → FineU (runForest sh ext fs u)
  | .nil, _, _ => by simp only [runForest]; trivial
  | .cons g rest, u, hk => by
    simp only [GForest.ok, Bool.and_eq_true] at hk
    simp only [runForest]
    have h := runG_fine sh hs ext hext g u hk.1
    split
    · rename_i e he; rw [he] at h; exact h
    · exact runForest_fine sh hs ext hext rest _ hk.2
theorem runAlt_fine (sh : ArbShape) (hs : sh.good = true) (ext : String → List Byte → AR Unit)
    (hext : ∀ n u, FineU (ext n u)) : ∀ (alts : GForest) (i : Nat) (u : List Byte), alts.ok = true →
      i < alts.length → FineU (runAlt sh ext alts i u)
  | .nil, _, _, _, hi => by simp [GForest.length] at hi
  | .cons g _, 0, u, hk, _ => by
    simp only [GForest.ok, Bool.and_eq_true] at hk
    simp only [runAlt]; exact runG_fine sh hs ext hext g u hk.1
  | .cons _ rest, i+1, u, hk, hi => by
    simp only [GForest.ok, Bool.and_eq_true] at hk
    simp only [GForest.length] at hi
    simp only [runAlt]; exact runAlt_fine sh hs ext hext rest i u hk.2 (by omega)
end
