/-- the three wire-affecting cargo features: get-info-full, large-blobs, third-party-payment -/
structure Cfg where
  g : Bool
  l : Bool
  t : Bool
  deriving DecidableEq, Repr

def Cfg.all : List Cfg :=
  [⟨false,false,false⟩, ⟨false,false,true⟩, ⟨false,true,false⟩, ⟨false,true,true⟩,
   ⟨true,false,false⟩, ⟨true,false,true⟩, ⟨true,true,false⟩, ⟨true,true,true⟩]

theorem Cfg.mem_all (c : Cfg) : c ∈ Cfg.all := by
  rcases c with ⟨_|_, _|_, _|_⟩ <;> decide

def Cfg.id (c : Cfg) : String :=
  (if c.g then "1" else "0") ++ (if c.l then "1" else "0") ++ (if c.t then "1" else "0")

/-- `c ≤ c'`: every feature enabled in `c` is enabled in `c'` -/
def Cfg.le (c c' : Cfg) : Bool := (!c.g || c'.g) && (!c.l || c'.l) && (!c.t || c'.t)
