import Ctap.Basic
import Ctap.Frame
/-
  Hand model of `ctap2::AuthenticatorData::serialize` (src/ctap2.rs) and
  `make_credential::AttestedCredentialData::serialize`: sequential, atomic `extend_from_slice` /
  `push` on a `Bytes<AUTHENTICATOR_DATA_LENGTH>` with `map_err(|_| Error::Other)?` after each step,
  and the extension map appended by cbor-smol's `Bytes<N>` writer chunk by chunk.
-/

/-- `heapless::Vec::extend_from_slice`: atomic — `Err` and no change when it does not fit -/
def extendCap (cap : Nat) (buf add : List Byte) : Option (List Byte) :=
  if buf.length + add.length ≤ cap then some (buf ++ add) else none

/-- cbor-smol `impl Writer for Bytes<N>`: each `write_all` chunk is one `extend_from_slice` -/
def writeChunksVec (cap : Nat) : List (List Byte) → List Byte → Option (List Byte)
  | [], buf => some buf
  | c :: cs, buf =>
    match extendCap cap buf c with
    | none => none
    | some buf' => writeChunksVec cap cs buf'

/-- attested credential data as supplied by the caller: aaguid, credential id, public key -/
structure Acd where
  aaguid : List Byte
  credId : List Byte
  pubKey : List Byte

/-- `AttestedCredentialData::serialize(&mut buffer)` -/
def acdSerialize (cap : Nat) (a : Acd) (buf : List Byte) : Option (List Byte) :=
  match extendCap cap buf a.aaguid with
  | none => none
  | some b1 =>
    if a.credId.length > 65535 then none          -- `u16::try_from(len)` fails
    else
      match extendCap cap b1 (be 2 a.credId.length) with
      | none => none
      | some b2 =>
        match extendCap cap b2 a.credId with
        | none => none
        | some b3 => extendCap cap b3 a.pubKey

/-- `AuthenticatorData::serialize()`; `none` = `Err(Error::Other)` (nothing is returned).
    `acd = some none` models the GetAssertion flavour's `Some(NoAttestedCredentialData)`. -/
def authDataSerialize (cap : Nat) (rpIdHash : List Byte) (flags : Byte) (signCount : Nat)
    (acd : Option (Option Acd)) (ext : Option (List (List Byte))) : Option (List Byte) :=
  match extendCap cap [] rpIdHash with
  | none => none
  | some b0 =>
    match extendCap cap b0 [flags] with
    | none => none
    | some b1 =>
      match extendCap cap b1 (be 4 signCount) with
      | none => none
      | some b2 =>
        match (match acd with
               | some (some a) => acdSerialize cap a b2
               | _ => some b2) with
        | none => none
        | some b3 =>
          match ext with
          | none => some b3
          | some chunks => writeChunksVec cap chunks b3
