#!/bin/sh
# Build the framework from files on disk only (offline).  Run once in /verif after a fresh restore.
set -e
cd "$(dirname "$0")"
export CARGO_NET_OFFLINE=true
mkdir -p build evidence replays
(cd extract && cargo build --offline 2>&1 | tail -2)
[ -f harness/Cargo.lock ] || cp /repo/Cargo.lock harness/Cargo.lock
python3 tools/prepare.py
(cd lean && lake build Ctap Spec Gen Props driver 2>&1 | tail -3)
echo "setup done"
